(* C18 — model of ArgumentParser.save (jsonargparse/_core.py, def save) over a file system.

   The target directory is a flat map  name -> File content | Dir.  A save is the ordered list of
   effectful steps exactly as the code performs them.

   THE MODEL OF THE CODE IS  save_fixed  (the order since "fix: save renders and validates every file
   before writing any, and refuses two configs mapped to one file"):

     single-file   Path(path,"fc"); check_overwrite; dump() = validate + render; open(path,"w"); write
     multi-file    Path(path,"fc"); check_overwrite; validate; pending := []
                   for every __path__ sub-config / save_path_content entry, deepest key first:
                       Path(basename,"fc"); check_overwrite; render (dump_using_format | __orig__ | get_content());
                       add_pending(name, text)   -- ValueError when name is the main file or already pending
                   pending.append((path, dump(skip_validation=True)))
                   for (name, text) in pending: open(name,"w"); write(text)

   save_old  is the order of the tree BEFORE that fix (open(path,"w") before dump() in single-file mode;
   each sub-file written as soon as it is rendered, open() before get_content(), the main file opened
   before the final dump, no collision test).  It is kept only so that the four defects of the old order
   stay machine-checked regression witnesses (Properties/C18.v, `..._old_order_refuted`).

   What validate / dump_using_format / get_content answer is not modelled: it is an oracle carried
   by the input (i_valid, the `outcome`s, i_failcall = "the n-th dump_using_format call raises").
   File texts are interned: content = N, 0 is the empty text (what open(…,"w") leaves behind). *)
From JV Require Import Lib.Base.

Definition name := str.
Definition content := N.
Definition empty_text : content := 0%N.

Inductive node := File (c : content) | Dir.
Definition fs := list (name * node).

Definition node_eqb (a b : node) : bool :=
  match a, b with
  | File x, File y => N.eqb x y
  | Dir, Dir => true
  | _, _ => false
  end.

Fixpoint lookup (f : fs) (n : name) : option node :=
  match f with
  | [] => None
  | (m, x) :: f' => if str_eqb m n then Some x else lookup f' n
  end.

(* create, truncate or replace the regular file n *)
Fixpoint write (f : fs) (n : name) (c : content) : fs :=
  match f with
  | [] => [(n, File c)]
  | (m, x) :: f' => if str_eqb m n then (m, File c) :: f' else (m, x) :: write f' n c
  end.

Definition is_file (f : fs) (n : name) : bool :=
  match lookup f n with Some (File _) => true | _ => false end.
Definition is_dir (f : fs) (n : name) : bool :=
  match lookup f n with Some Dir => true | _ => false end.

(* ---- the oracle ------------------------------------------------------------------------- *)
Inductive outcome := Fail | Out (c : content).
Inductive err := EPath | ERefuse | EInvalid | ERender | ERead | EClash
               | ENotImpl   (* NotImplementedError: multifile=True with an fsspec target *)
               | EOpen.     (* the OS refuses open(…, "w"): a directory in the way, no such directory *)

Inductive source :=
| SrcDump (o : outcome)            (* val_str = dump_using_format(...): a counted serialiser call *)
| SrcOrig (c : content)            (* val_str = val["__orig__"] *)
| SrcPathHere                      (* save_path_content entry whose file lives in the target directory:
                                      source and destination are the same file *)
| SrcPathExt (c : option content). (* save_path_content entry stored elsewhere; None = unreadable *)

Record sub := { s_depth : nat;      (* number of components of the dotted key *)
                s_branch : bool;    (* Namespace-valued (branch key) vs dict/Path-valued (leaf key) *)
                s_name : name;      (* os.path.basename(val["__path__"].absolute) *)
                s_src : source }.

Record input := {
  i_multifile : bool;
  i_overwrite : bool;
  i_skipval : bool;
  i_dir_ok : bool;                  (* parent directory of the target exists and is writeable *)
  i_alias : bool;                   (* the target path as given is not the normal form <resolved directory>/<name>
                                       ("./main.yaml", "../d/main.yaml", a doubled slash, a symbolic link in the
                                       directory part): path_fc.absolute (os.path.join(cwd, given), not normalised)
                                       then differs textually from the sub-file paths (built from os.getcwd() after
                                       change_to_path_dir), and add_pending's `file_path == path_fc.absolute` is
                                       never true *)
  i_main : name;
  i_fs : fs;                        (* the target directory before the call *)
  i_valid : bool;                   (* would self.validate(cfg) pass *)
  i_full : outcome;                 (* serialisation of the whole cfg (single-file dump) *)
  i_subs : list sub;                (* in declaration (depth-first) order of the configuration *)
  i_mainr : outcome;                (* serialisation of cfg with the sub-configs replaced by file names *)
  i_failcall : option nat }.        (* injected fault: the n-th (0-based) dump_using_format call raises *)

(* ---- steps -------------------------------------------------------------------------------- *)
Inductive step :=
| SPathFc (n : name)          (* Path(n, mode="fc") *)
| SCheckOverwrite (n : name)  (* check_overwrite(path) *)
| SValidate                   (* if not skip_validation: self.validate(cfg) *)
| SDumpCall (o : outcome)     (* dump_using_format(...) -> register *)
| SSetReg (c : content)       (* register := val["__orig__"] *)
| SOpenW (n : name)           (* open(n, "w") *)
| SReadHere (n : name)        (* register := content of n in the target directory, as it is NOW *)
| SReadExt (c : option content)
| SWrite (n : name)           (* f.write(register) *)
| SStash (n : name)           (* add_pending(n, register) for a sub-file: refuses a name that is already pending or
                                 (compared as absolute path strings, see i_alias) the main file *)
| SStashMain (n : name)       (* pending.append((n, register)) for the main file *)
| SFlush.                     (* the final loop: open + write everything pending *)

Record st := { st_fs : fs; st_reg : content; st_calls : nat; st_pending : list (name * content) }.

Inductive res := Ok (t : st) | Er (e : err).

Definition set_fs (t : st) (f : fs) : st :=
  {| st_fs := f; st_reg := st_reg t; st_calls := st_calls t; st_pending := st_pending t |}.
Definition set_reg (t : st) (c : content) : st :=
  {| st_fs := st_fs t; st_reg := c; st_calls := st_calls t; st_pending := st_pending t |}.

Definition call_hits (i : input) (t : st) : bool :=
  match i_failcall i with Some k => Nat.eqb k (st_calls t) | None => false end.

Fixpoint flush (f : fs) (p : list (name * content)) : fs :=
  match p with [] => f | (n, c) :: p' => flush (write (write f n empty_text) n c) p' end.

Definition exec1 (i : input) (s : step) (t : st) : res :=
  match s with
  | SPathFc n => if negb (i_dir_ok i) || is_dir (st_fs t) n then Er EPath else Ok t
  | SCheckOverwrite n => if negb (i_overwrite i) && is_file (st_fs t) n then Er ERefuse else Ok t
  | SValidate => if negb (i_skipval i) && negb (i_valid i) then Er EInvalid else Ok t
  | SDumpCall o =>
      if call_hits i t then Er ERender
      else match o with
           | Fail => Er ERender
           | Out c => Ok {| st_fs := st_fs t; st_reg := c; st_calls := S (st_calls t); st_pending := st_pending t |}
           end
  | SSetReg c => Ok (set_reg t c)
  | SOpenW n => Ok (set_fs t (write (st_fs t) n empty_text))
  | SReadHere n => match lookup (st_fs t) n with Some (File c) => Ok (set_reg t c) | _ => Er ERead end
  | SReadExt None => Er ERead
  | SReadExt (Some c) => Ok (set_reg t c)
  | SWrite n => Ok (set_fs t (write (st_fs t) n (st_reg t)))
  | SStash n =>
      if (negb (i_alias i) && str_eqb n (i_main i)) || mem_str n (map fst (st_pending t)) then Er EClash
      else Ok {| st_fs := st_fs t; st_reg := st_reg t; st_calls := st_calls t;
                 st_pending := st_pending t ++ [(n, st_reg t)] |}
  | SStashMain n => Ok {| st_fs := st_fs t; st_reg := st_reg t; st_calls := st_calls t;
                          st_pending := st_pending t ++ [(n, st_reg t)] |}
  | SFlush => Ok {| st_fs := flush (st_fs t) (st_pending t); st_reg := st_reg t; st_calls := st_calls t;
                    st_pending := [] |}
  end.

(* run until the first failing step; the state at that moment is what is left behind *)
Fixpoint exec (i : input) (ss : list step) (t : st) : st * option err :=
  match ss with
  | [] => (t, None)
  | s :: ss' => match exec1 i s t with
                | Ok t' => exec i ss' t'
                | Er e => (t, Some e)
                end
  end.

(* ---- order of the sub-files: Namespace.get_sorted_keys -------------------------------------
   keys() lists the leaf keys; branch keys are appended after them; then a stable sort by
   descending depth. *)
Fixpoint insert_desc (x : sub) (l : list sub) : list sub :=
  match l with
  | [] => [x]
  | y :: l' => if Nat.leb (s_depth y) (s_depth x) then x :: l else y :: insert_desc x l'
  end.

Definition order (l : list sub) : list sub :=
  fold_right insert_desc [] (filter (fun x => negb (s_branch x)) l ++ filter s_branch l).

(* ---- THE MODEL: check and render everything, then write (the code since the fix) ------------ *)
Definition sub_steps_fixed (x : sub) : list step :=
  let n := s_name x in
  match s_src x with
  | SrcDump o => [SPathFc n; SCheckOverwrite n; SDumpCall o; SStash n]
  | SrcOrig c => [SPathFc n; SCheckOverwrite n; SSetReg c; SStash n]
  | SrcPathHere => [SPathFc n; SCheckOverwrite n; SReadHere n; SStash n]
  | SrcPathExt c => [SPathFc n; SCheckOverwrite n; SReadExt c; SStash n]
  end.

Definition check_phase (i : input) : list step :=
  let m := i_main i in
  if i_multifile i then
    [SPathFc m; SCheckOverwrite m; SValidate]
      ++ flat_map sub_steps_fixed (order (i_subs i))
      ++ [SDumpCall (i_mainr i); SStashMain m]
  else
    [SPathFc m; SCheckOverwrite m; SValidate; SDumpCall (i_full i); SStashMain m].

Definition steps_fixed (i : input) : list step := check_phase i ++ [SFlush].

Definition init (i : input) : st :=
  {| st_fs := i_fs i; st_reg := empty_text; st_calls := 0; st_pending := [] |}.

Definition save_fixed (i : input) : fs * option err :=
  let r := exec i (steps_fixed i) (init i) in (st_fs (fst r), snd r).

(* the file names save is asked to produce *)
Definition targets (i : input) : list name :=
  i_main i :: (if i_multifile i then map s_name (i_subs i) else []).

(* ---- what a successful save must have put on disk for a later parse to give cfg back -------- *)
Definition expected (f0 : fs) (x : sub) : option content :=
  match s_src x with
  | SrcDump (Out c) => Some c
  | SrcDump Fail => None
  | SrcOrig c => Some c
  | SrcPathHere => match lookup f0 (s_name x) with Some (File c) => Some c | _ => None end
  | SrcPathExt c => c
  end.

Definition holds (f : fs) (n : name) (c : option content) : bool :=
  match c, lookup f n with
  | Some c, Some (File c') => N.eqb c c'
  | _, _ => false
  end.

Definition out_content (o : outcome) : option content :=
  match o with Out c => Some c | Fail => None end.

Definition reparse_ok (i : input) (f' : fs) : bool :=
  if i_multifile i then
    holds f' (i_main i) (out_content (i_mainr i))
    && forallb (fun x => holds f' (s_name x) (expected (i_fs i) x)) (i_subs i)
  else holds f' (i_main i) (out_content (i_full i)).

Fixpoint nodup_str (l : list str) : bool :=
  match l with [] => true | x :: l' => negb (mem_str x l') && nodup_str l' end.

(* two of the files a multi-file save has to produce share one name *)
Definition name_clash (i : input) : bool :=
  negb (nodup_str (map s_name (i_subs i))) || mem_str (i_main i) (map s_name (i_subs i)).

(* ---- class 1 (open finding collision-with-main-unnormalised-path): a sub-file named like the main file
   while the target path is not in normal form — the collision test against the main file compares
   absolute path STRINGS and misses it.  0 = inside the guard of the guarded theorems. *)
Definition alias_clash (i : input) : bool :=
  i_multifile i && i_alias i && mem_str (i_main i) (map s_name (i_subs i)).

Definition classify (i : input) : N := if alias_clash i then 1 else 0.

(* the same call on a tree where paths are compared after resolving links (fixes/C18-collision-realpath.patch) *)
Definition no_alias (i : input) : input :=
  {| i_multifile := i_multifile i; i_overwrite := i_overwrite i; i_skipval := i_skipval i; i_dir_ok := i_dir_ok i;
     i_alias := false; i_main := i_main i; i_fs := i_fs i; i_valid := i_valid i; i_full := i_full i;
     i_subs := i_subs i; i_mainr := i_mainr i; i_failcall := i_failcall i |}.

Definition is_some {A} (o : option A) : bool := match o with Some _ => true | None => false end.

(* ================================================================================================
   THE FSSPEC BRANCH of save (round 6).  How the target is resolved is part of the call:
     TLocal   Path(path, mode="fc") — everything above (any spelling of a local path);
     TFsspec  the target is an fsspec URL that names the file ("local://<dir>/<name>"): Path(path, mode="sw").is_fsspec
              holds and save never reaches Path(path, "fc") / check_overwrite.

   save_fsspec  is the model of the CURRENT code:
       path_sw = Path(path, mode="sw")     -- for an fsspec path the "w" is CHECKED BY OPENING the file for writing
                                              (fsspec.open(abs, "w"); handle.open(); handle.close()): the file is created
                                              or EMPTIED.  A directory in the way: IsADirectoryError propagates.
                                              (The target's directory is assumed to exist: fsspec.open creates missing
                                              directories itself, which the flat directory of this model cannot show;
                                              i_dir_ok is not consulted in this branch.)
       if multifile: raise NotImplementedError
       with fsspec.open(path, "w") as f:   -- opened (emptied) first, no check_overwrite at all
           f.write(self.dump(cfg, ...))    -- validate + serialise while the file is already empty
   save_fsspec_fixed  is the same branch after fixes/C18-fsspec-target.patch (classify the path with mode "s" only,
   NotImplementedError before anything is touched, check_overwrite, dump, and only then open + write). *)
Inductive tkind := TLocal | TFsspec.

Definition fsspec_body (i : input) : list step :=
  let m := i_main i in
  if i_multifile i then [] else [SOpenW m; SValidate; SDumpCall (i_full i); SWrite m].

Definition save_fsspec (i : input) : fs * option err :=
  let m := i_main i in
  if is_dir (i_fs i) m then (i_fs i, Some EOpen)
  else
    let r := exec i (SOpenW m :: fsspec_body i) (init i) in
    (st_fs (fst r), if i_multifile i then Some ENotImpl else snd r).

Definition fsspec_checks (i : input) : list step :=
  [SCheckOverwrite (i_main i); SValidate; SDumpCall (i_full i)].

Definition save_fsspec_fixed (i : input) : fs * option err :=
  let m := i_main i in
  if i_multifile i then (i_fs i, Some ENotImpl)
  else
    let r := exec i (fsspec_checks i) (init i) in
    match snd r with
    | Some e => (st_fs (fst r), Some e)
    | None => if is_dir (i_fs i) m then (st_fs (fst r), Some EOpen)
              else (st_fs (fst (exec i [SOpenW m; SWrite m] (fst r))), None)
    end.

(* the implementation as a whole, on the current tree and after the patch *)
Definition save_impl (k : tkind) (i : input) : fs * option err :=
  match k with TLocal => save_fixed i | TFsspec => save_fsspec i end.

Definition save_impl_fixed (k : tkind) (i : input) : fs * option err :=
  match k with TLocal => save_fixed i | TFsspec => save_fsspec_fixed i end.

(* class 2 (open finding fsspec-target-unprotected): the target is an fsspec URL *)
Definition classify_call (k : tkind) (i : input) : N :=
  match k with TFsspec => 2 | TLocal => classify i end.

(* ================================================================================================
   REGRESSION ONLY: the order of the tree before the fix (write as you go). Not the model of the code. *)
Definition sub_steps_old (x : sub) : list step :=
  let n := s_name x in
  match s_src x with
  | SrcDump o => [SPathFc n; SCheckOverwrite n; SDumpCall o; SOpenW n; SWrite n]
  | SrcOrig c => [SPathFc n; SCheckOverwrite n; SSetReg c; SOpenW n; SWrite n]
  | SrcPathHere => [SPathFc n; SCheckOverwrite n; SOpenW n; SReadHere n; SWrite n]
  | SrcPathExt c => [SPathFc n; SCheckOverwrite n; SOpenW n; SReadExt c; SWrite n]
  end.

Definition steps_old (i : input) : list step :=
  let m := i_main i in
  if i_multifile i then
    [SPathFc m; SCheckOverwrite m; SValidate]
      ++ flat_map sub_steps_old (order (i_subs i))
      ++ [SOpenW m; SDumpCall (i_mainr i); SWrite m]
  else
    [SPathFc m; SCheckOverwrite m; SOpenW m; SValidate; SDumpCall (i_full i); SWrite m].

Definition save_old (i : input) : fs * option err :=
  let r := exec i (steps_old i) (init i) in (st_fs (fst r), snd r).

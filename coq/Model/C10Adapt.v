(* C10 — model of the value-level machinery a parse result passes through, in the shape of the code:
     adapt_typehints, deserialising branches   (jsonargparse/_typehints.py:731-934)
     sort_subtypes_for_union                   (_typehints.py:1477-1489)
     ActionTypeHint._check_type                (_typehints.py:554-611)
   Self-contained (values, type grammar, adapt) so that the C10 proofs do not move when the shared
   Model/Ty.v is extended; the definitions follow Model/Ty.v.  Executable Gallina only.
   Everything that reads TEXT is a parameter of the section (what json_or_yaml_load,
   parse_value_or_config and int() answer for a string): the theorems hold for ANY such functions, the
   correspondence instantiates them with what the real functions answered. *)
From JV Require Import Lib.Base.

(* floats are identified with normalised decimals m * 10^e (m not divisible by 10, or m = e = 0) *)
Inductive fl := FFin (m e : Z) | FInf (neg : bool) | FNan.

Inductive val :=
| VNone
| VBool (b : bool)
| VInt (z : Z)
| VFloat (f : fl)
| VStr (s : str)
| VList (l : list val)
| VTuple (l : list val)
| VSet (l : list val)              (* first-seen element order; compared modulo order by the judge *)
| VDict (d : list (val * val))     (* insertion order *)
| VEnum (cls member : str)
| VOpaque (kind : str) (repr : str).

Definition fl_eqb (a b : fl) : bool :=
  match a, b with
  | FFin m e, FFin m' e' => Z.eqb m m' && Z.eqb e e'
  | FInf a, FInf b => Bool.eqb a b
  | FNan, FNan => true
  | _, _ => false
  end.

Fixpoint val_eqb (a b : val) {struct a} : bool :=
  match a, b with
  | VNone, VNone => true
  | VBool x, VBool y => Bool.eqb x y
  | VInt x, VInt y => Z.eqb x y
  | VFloat x, VFloat y => fl_eqb x y
  | VStr x, VStr y => str_eqb x y
  | VList x, VList y | VTuple x, VTuple y | VSet x, VSet y =>
      (fix go (x y : list val) : bool :=
         match x, y with
         | [], [] => true
         | a :: x', b :: y' => val_eqb a b && go x' y'
         | _, _ => false
         end) x y
  | VDict x, VDict y =>
      (fix go (x y : list (val * val)) : bool :=
         match x, y with
         | [], [] => true
         | (k, a) :: x', (k', b) :: y' => val_eqb k k' && val_eqb a b && go x' y'
         | _, _ => false
         end) x y
  | VEnum c m, VEnum c' m' => str_eqb c c' && str_eqb m m'
  | VOpaque k r, VOpaque k' r' => str_eqb k k' && str_eqb r r'
  | _, _ => false
  end.

Fixpoint norm_dec (fuel : nat) (m e : Z) : fl :=
  match fuel with
  | 0 => FFin m e
  | S f => if Z.eqb m 0 then FFin 0 0
           else if Z.eqb (Z.rem m 10) 0 then norm_dec f (Z.quot m 10) (e + 1) else FFin m e
  end.
Definition float_of_int (z : Z) : fl := norm_dec 400 z 0.

Inductive lit := LInt (z : Z) | LStr (s : str) | LBool (b : bool) | LNone.

Inductive ty :=
| TStr | TInt | TFloat | TBool | TNone | TAny
| TLit (ls : list lit)
| TEnum (cls : str) (members : list str)
| TUnion (ts : list ty)
| TList (t : ty)
| TDict (int_keys : bool) (t : ty)       (* Dict[str, T] / Dict[int, T] *)
| TTuple (ts : list ty)
| TTupleVar (t : ty)                     (* Tuple[T, ...] *)
| TSet (t : ty).

(* what a text reader answered: a value, a loader (YAML) exception, or a ValueError *)
Inductive lres := LVal (v : val) | LYamlErr | LValErr.

Inductive err := ErrValue | ErrType.     (* ValueError / TypeError: the control flow tells them apart *)
Inductive ares := AOk (v : val) | AErr (e : err).

Definition lit_val (l : lit) : val :=
  match l with LInt z => VInt z | LStr s => VStr s | LBool b => VBool b | LNone => VNone end.

(* Python == on the scalars that can meet in `val in subtypehints`, set() and dict keys *)
Definition num_of (v : val) : option fl :=
  match v with
  | VBool b => Some (FFin (if b then 1 else 0) 0)
  | VInt z => Some (float_of_int z)
  | VFloat f => Some f
  | _ => None
  end.

Definition py_eq (a b : val) : bool :=
  match num_of a, num_of b with
  | Some FNan, _ | _, Some FNan => false
  | Some x, Some y => fl_eqb x y
  | None, None => val_eqb a b
  | _, _ => false
  end.

(* is_literal_member: `type(val) is type(member) and val == member` (fix d000fe2; before, `val in members`
   let True and 1.0 pass for Literal[1]) *)
Definition lit_mem (v : val) (ls : list lit) : bool := existsb (fun l => val_eqb v (lit_val l)) ls.

Definition is_str (v : val) : bool := match v with VStr _ => true | _ => false end.
Definition is_none_ty (t : ty) : bool := match t with TNone => true | _ => false end.
Definition is_str_ty (t : ty) : bool := match t with TStr => true | _ => false end.
Definition is_seq_or_map_ty (t : ty) : bool := match t with TList _ | TDict _ _ => true | _ => false end.
Fixpoint hashable (v : val) : bool :=
  match v with
  | VList _ | VDict _ | VSet _ => false
  | VTuple l => (fix go (l : list val) : bool := match l with [] => true | x :: l' => hashable x && go l' end) l
  | _ => true
  end.
Definition is_ok (r : ares) : bool := match r with AOk _ => true | AErr _ => false end.

(* set(list): keep the first of == elements *)
Definition add_new (acc : list val) (x : val) : list val :=
  if existsb (py_eq x) acc then acc else acc ++ [x].
Definition dedup (l : list val) : list val := fold_left add_new l [].

(* {cast(k): v for k, v in val.items()}: a later equal key replaces the value, keeps the position *)
Definition has_key (k : val) (d : list (val * val)) : bool := existsb (fun kv => py_eq k (fst kv)) d.
Fixpoint replace_val (k v : val) (d : list (val * val)) : list (val * val) :=
  match d with
  | [] => []
  | (k', v') :: d' => if py_eq k k' then (k', v) :: d' else (k', v') :: replace_val k v d'
  end.
Definition dict_set (d : list (val * val)) (kv : val * val) : list (val * val) :=
  if has_key (fst kv) d then replace_val (fst kv) (snd kv) d else d ++ [kv].

(* ---- Union machinery ------------------------------------------------------------------------ *)
(* sort_subtypes_for_union (append = False): stable sort by
   (x != NoneType, origin not in sequence_or_mapping) for str values, (x != NoneType) otherwise *)
Definition union_key (val_is_str : bool) (t : ty) : nat :=
  (if is_none_ty t then 0 else 2) + (if val_is_str && negb (is_seq_or_map_ty t) then 1 else 0).

Fixpoint insert_by {A} (key : A -> nat) (x : A) (l : list A) : list A :=
  match l with
  | [] => [x]
  | y :: l' => if Nat.leb (key x) (key y) then x :: l else y :: insert_by key x l'
  end.
Definition stable_sort {A} (key : A -> nat) (l : list A) : list A :=
  fold_right (insert_by key) [] l.

(* the trial loop over the sorted members, each paired with its adapt result: vals = results so far;
   stop at the first success; a failing `str` member contributes orig_val when val is not a str *)
Inductive uval := UOk (v : val) | UExc.

Fixpoint union_loop (orig : option str) (v : val) (rs : list (ty * ares)) (vals : list uval) : list uval :=
  match rs with
  | [] => vals
  | (t, AOk w) :: _ => vals ++ [UOk w]
  | (t, AErr _) :: rs' =>
      match orig with
      | Some o => if is_str_ty t && negb (is_str v)
                  then union_loop orig v rs' (vals ++ [UOk (VStr o)])
                  else union_loop orig v rs' (vals ++ [UExc])
      | None => union_loop orig v rs' (vals ++ [UExc])
      end
  end.

Definition uval_ok (u : uval) : bool := match u with UOk _ => true | UExc => false end.

(* `if all(isinstance(v, Exception) for v in vals): raise ...;
    val = [v for v in vals if not isinstance(v, Exception)][-1]`   (fix ec37b24; before, `vals[-1]` could be
   the exception OBJECT of a member that failed after an orig_val fallback) *)
Definition union_result (vals : list uval) : ares :=
  match filter uval_ok vals with
  | [] => AErr ErrValue
  | oks => match last oks UExc with UOk w => AOk w | UExc => AErr ErrValue end
  end.

Definition sort_members {B} (val_is_str : bool) (rs : list (ty * B)) : list (ty * B) :=
  stable_sort (fun r => union_key val_is_str (fst r)) rs.

Definition adapt_union (orig : option str) (v : val) (rs : list (ty * ares)) : ares :=
  union_result (union_loop orig v (sort_members (is_str v) rs) []).

(* ---- containers ------------------------------------------------------------------------------ *)
Definition seq_items (v : val) : option (list val) :=
  match v with VList l | VTuple l | VSet l => Some l | _ => None end.

Fixpoint mapA (f : val -> ares) (l : list val) : list val + err :=
  match l with
  | [] => inl []
  | x :: l' => match f x with
               | AErr e => inr e
               | AOk w => match mapA f l' with
                          | inl r => inl (w :: r)
                          | inr e => inr e
                          end
               end
  end.

(* position-wise, for Tuple[T1, ..., Tn]; the lengths are checked before *)
Fixpoint zipA (fs : list (val -> ares)) (l : list val) : list val + err :=
  match fs, l with
  | f :: fs', x :: l' => match f x with
                         | AErr e => inr e
                         | AOk w => match zipA fs' l' with
                                    | inl r => inl (w :: r)
                                    | inr e => inr e
                                    end
                         end
  | _, _ => inl []
  end.

Fixpoint mapD (f : val -> ares) (d : list (val * val)) : list (val * val) + err :=
  match d with
  | [] => inl []
  | (k, x) :: d' => match f x with
                    | AErr e => inr e
                    | AOk w => match mapD f d' with
                               | inl r => inl ((k, w) :: r)
                               | inr e => inr e
                               end
                    end
  end.

Section Adapt.
Variable jload : str -> lres.            (* json_or_yaml_load(s) *)
Variable pval : bool -> str -> lres.     (* parse_value_or_config(s, enable_path=False, simple_types=b)[0] *)
Variable ikey : str -> option Z.         (* int(s) *)

(* parse_value_or_config returns the argument itself unless the text loads to a non-str *)
Definition parse_value (simple_types : bool) (v : val) : lres :=
  match v with
  | VStr s => match pval simple_types s with
              | LVal (VStr _) => LVal v
              | r => r
              end
  | _ => LVal v
  end.

(* ---- leaf types --------------------------------------------------------------------------- *)
Inductive leaf := LfStr | LfInt | LfFloat | LfBool | LfNone.

Definition isinstance_leaf (k : leaf) (v : val) : bool :=
  match k, v with
  | LfStr, VStr _ => true
  | LfInt, VInt _ => true
  | LfFloat, VFloat _ => true
  | LfBool, VBool _ => true
  | LfNone, VNone => true
  | _, _ => false          (* bool for int/float is excluded explicitly by the code; same effect *)
  end.

Definition adapt_leaf (k : leaf) (v : val) : ares :=
  let loaded :=
    match v, k with
    | VStr _, LfStr => AOk v
    | VStr s, _ => match jload s with
                   | LVal x => AOk x
                   | LYamlErr => AOk v            (* suppress(loader exceptions) *)
                   | LValErr => AErr ErrValue     (* constructor ValueError is not suppressed *)
                   end
    | _, _ => AOk v
    end in
  match loaded with
  | AErr e => AErr e
  | AOk v1 =>
      let v2 := match k, v1 with LfFloat, VInt z => VFloat (float_of_int z) | _, _ => v1 end in
      if isinstance_leaf k v2 then AOk v2 else AErr ErrValue
  end.

(* int(k) for Dict[int, _] keys *)
Definition int_of_key (k : val) : option Z + err :=
  match k with
  | VInt z => inl (Some z)
  | VBool b => inl (Some (if b then 1 else 0)%Z)
  | VStr s => match ikey s with Some z => inl (Some z) | None => inr ErrValue end
  | VFloat (FFin m e) => if Z.leb 0 e then inl (Some (m * 10 ^ e)%Z) else inl (Some (Z.quot m (10 ^ (- e))))
  | VFloat _ => inr ErrValue
  | _ => inr ErrType
  end.

Definition cast_keys (d : list (val * val)) : list (val * val) + err :=
  fold_left (fun acc kv => match acc with
                           | inr e => inr e
                           | inl d' => match int_of_key (fst kv) with
                                       | inl (Some z) => inl (dict_set d' (VInt z, snd kv))
                                       | inl None => inr ErrValue
                                       | inr e => inr e
                                       end
                           end) d (inl []).

(* the Union[...] of the non-str kinds of a Literal's values, tried on a str *)
Definition lit_kinds (ls : list lit) (v : val) : list (ty * ares) :=
     (if existsb (fun l => match l with LInt _ => true | _ => false end) ls then [(TInt, adapt_leaf LfInt v)] else [])
  ++ (if existsb (fun l => match l with LBool _ => true | _ => false end) ls then [(TBool, adapt_leaf LfBool v)] else [])
  ++ (if existsb (fun l => match l with LNone => true | _ => false end) ls then [(TNone, adapt_leaf LfNone v)] else []).

(* ---- adapt_typehints (serialize = False, prev_val = None, append = False) ----------------------
   List and dict values are copied before their items are adapted (fix ce28ec8), every other container
   branch builds a new object: adaptation is a pure function of (type, value), as modelled here. *)
Fixpoint adapt (orig : option str) (t : ty) (v : val) {struct t} : ares :=
  match t with
  | TStr => adapt_leaf LfStr v
  | TInt => adapt_leaf LfInt v
  | TFloat => adapt_leaf LfFloat v
  | TBool => adapt_leaf LfBool v
  | TNone => adapt_leaf LfNone v
  | TAny =>
      match v with
      | VStr s => match parse_value true v with
                  | LVal x => AOk x
                  | LYamlErr => AOk v        (* suppress(loader exceptions) *)
                  | LValErr => AErr ErrValue
                  end
      | _ => AOk v                           (* an Enum member is adapted by its own class: unchanged *)
      end
  | TLit ls =>
      let step1 :=
        if negb (lit_mem v ls) && is_str v then
          match lit_kinds ls v with
          | [] => AErr ErrType                      (* Union[()] raises TypeError *)
          | [(_, r)] => r                           (* Union[X] is X *)
          | kinds => adapt_union orig v kinds
          end
        else AOk v in
      match step1 with
      | AErr e => AErr e
      | AOk v1 => if lit_mem v1 ls then AOk v1 else AErr ErrValue
      end
  | TEnum cls members =>
      match v with
      | VEnum c m => if str_eqb c cls then AOk v else AErr ErrValue     (* isinstance early-out *)
      | VStr s => if mem_str s members then AOk (VEnum cls s) else AErr ErrValue
      | VList _ | VDict _ | VSet _ => AErr ErrType                     (* unhashable key in typehint[val] *)
      | VTuple _ => if hashable v then AErr ErrValue else AErr ErrType
      | _ => AErr ErrValue
      end
  | TUnion ts =>
      adapt_union orig v (map (fun t1 => (t1, adapt orig t1 v)) ts)
  | TTuple ts =>
      match seq_items v with
      | None => AErr ErrValue
      | Some l =>
          if negb (Nat.eqb (length l) (length ts)) then AErr ErrValue
          else match zipA (map (fun t1 => adapt orig t1) ts) l with
               | inl r => AOk (VTuple r)
               | inr e => AErr e
               end
      end
  | TTupleVar t1 =>
      match seq_items v with
      | None => AErr ErrValue
      | Some l => match mapA (adapt orig t1) l with
                  | inl r => AOk (VTuple r)
                  | inr e => AErr e
                  end
      end
  | TSet t1 =>
      match seq_items v with
      | None => AErr ErrValue
      | Some l => match mapA (adapt orig t1) l with
                  | inl r => if forallb hashable r then AOk (VSet (dedup r)) else AErr ErrType
                  | inr e => AErr e
                  end
      end
  | TList t1 =>
      match seq_items v with
      | None => AErr ErrValue
      | Some l => match mapA (adapt orig t1) l with
                  | inl r => AOk (VList r)
                  | inr e => AErr e
                  end
      end
  | TDict int_keys t1 =>
      match v with
      | VDict d =>
          match (if int_keys then cast_keys d else inl d) with
          | inr e => AErr e
          | inl d' => match mapD (adapt orig t1) d' with
                      | inl r => AOk (VDict r)
                      | inr e => AErr e
                      end
          end
      | _ => AErr ErrValue
      end
  end.

(* ---- ActionTypeHint._check_type for a single (non-nargs) value ------------------------------- *)
Definition is_valid_string (t : ty) (v : val) : bool :=
  is_str v && match t with TStr => true | TUnion ts => existsb is_str_ty ts | _ => false end.

(* which call produced the accepted value *)
Inductive via := ViaFirst | ViaRetry | ViaDefault | ViaString.

Definition orig_of (v0 : val) : option str := match v0 with VStr s => Some s | _ => None end.
Definition parsed_of (v0 : val) : val := match parse_value false v0 with LVal x => x | _ => v0 end.

(* `type(val) in {str, bool, int, float} and val == default`, reached with val = orig_val (a str) *)
Definition default_hit (dflt : val) (o : str) : bool :=
  match dflt with VStr d => str_eqb o d | _ => false end.

Definition check_type_v (dflt : val) (t : ty) (v0 : val) : ares * via :=
  let orig := orig_of v0 in
  match parse_value false v0 with
  | LValErr => if is_valid_string t v0 then (AOk v0, ViaString) else (AErr ErrType, ViaString)
  | _ =>
      let v := parsed_of v0 in
      let outcome :=
        match adapt orig t v with
        | AErr ErrValue =>
            (* retry with the original string, this time passing default *)
            match orig with
            | Some o => if default_hit dflt o then (AOk (VStr o), ViaDefault)
                        else (adapt orig t (VStr o), ViaRetry)
            | None => (AErr ErrValue, ViaFirst)
            end
        | r => (r, ViaFirst)
        end in
      match outcome with
      | (AOk w, how) => (AOk w, how)
      | (AErr _, _) => if is_valid_string t v then (AOk v, ViaString) else (AErr ErrType, ViaString)
      end
  end.

Definition check_type (dflt : val) (t : ty) (v0 : val) : ares := fst (check_type_v dflt t v0).

(* one key through a parse method: the action adapts the value, and validation re-checks the
   result (its outcome is discarded, only success matters; None is skipped) *)
Definition parse_key (dflt : val) (t : ty) (v0 : val) : ares :=
  match check_type dflt t v0 with
  | AOk VNone => AOk VNone
  | AOk w => match check_type dflt t w with AOk _ => AOk w | AErr e => AErr e end
  | r => r
  end.

(* parser.validate on one key: None is skipped *)
Definition validate_key (dflt : val) (t : ty) (w : val) : bool :=
  match w with VNone => true | _ => is_ok (check_type dflt t w) end.

(* ---- the guard: no Union re-selects ------------------------------------------------------------
   `stable orig t v` follows the traversal adapt makes of (t, v).  At every Union node reached with an
   accepted value w it asks: when the same Union is tried on w (what validation and a re-parse do),
   is the first member accepting w one that already produced w from v, itself stable?  If instead a
   member that rejected v (or made something else of it) now accepts w, the Union "re-selects": that
   is finding class 1.  (When w is the orig_val fallback, no member produced it and the node is
   checked directly.)  Everything else — leaves, Literal, Enum, Any, the containers, the key casts —
   carries no condition. *)
Fixpoint first_ok2 {B} (rs : list (ty * (ares * B))) : option (val * B) :=
  match rs with
  | [] => None
  | (_, (AOk w, b)) :: _ => Some (w, b)
  | (_, (AErr _, _)) :: rs' => first_ok2 rs'
  end.

Definition ares_is (w : val) (r : ares) : bool :=
  match r with AOk x => val_eqb x w | AErr _ => false end.

Fixpoint forall2b {A B} (f : A -> B -> bool) (a : list A) (b : list B) : bool :=
  match a, b with
  | x :: a', y :: b' => f x y && forall2b f a' b'
  | _, _ => true
  end.

Fixpoint stable (orig : option str) (t : ty) (v : val) {struct t} : bool :=
  match t with
  | TUnion ts =>
      match adapt orig (TUnion ts) v with
      | AErr _ => true
      | AOk w =>
          match first_ok2 (sort_members (is_str w)
                   (map (fun t1 => (t1, (adapt None t1 w, (adapt orig t1 v, stable orig t1 v)))) ts)) with
          | Some (_, (r1, st)) =>
              (ares_is w r1 && st)
              || (negb (existsb (fun t1 => is_ok (adapt orig t1 v)) ts) && ares_is w (adapt None (TUnion ts) w))
          | None => false
          end
      end
  | TTuple ts =>
      match seq_items v with
      | Some l => forall2b (fun f x => f x) (map (fun t1 => stable orig t1) ts) l
      | None => true
      end
  | TTupleVar t1 | TSet t1 | TList t1 =>
      match seq_items v with
      | Some l => forallb (stable orig t1) l
      | None => true
      end
  | TDict int_keys t1 =>
      match v with
      | VDict d => forallb (fun kv => stable orig t1 (snd kv)) d
      | _ => true
      end
  | _ => true
  end.

(* the guard of the key-level theorem: a result that is a str is the input itself; otherwise the
   call that produced the result must be stable *)
Definition key_guard (dflt : val) (t : ty) (v0 : val) : bool :=
  match check_type_v dflt t v0 with
  | (AOk w, how) =>
      is_str w ||
      match how with
      | ViaFirst => stable (orig_of v0) t (parsed_of v0)
      | ViaRetry => match orig_of v0 with Some o => stable (Some o) t (VStr o) | None => false end
      | _ => false
      end
  | _ => true
  end.

End Adapt.

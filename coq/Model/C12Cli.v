(* C12 — executable model of jsonargparse.auto_cli (jsonargparse/_cli.py) and of the part of
   SignatureArguments._add_signature_parameter (jsonargparse/_signatures.py:322-442) that decides
   required / default / positional. Written in the shape of the code, bugs included.

   The model starts from signatures (introspection is not modelled), the command line is already
   tokenised (argparse's job) and the text -> value conversion is a Section variable [conv]
   (conversion is the business of C02/C05; every theorem holds for every conversion).

   The flag [pre] selects the code BEFORE the three repairs (/repo 5bbebb1: _run_component popped
   "subcommand" for functions and "config" for every method; /repo 2f69862: a private Optional parameter without
   default was skipped; /repo 4bb4764: "subcommand" was popped also for a class without methods). [pre = false] is the code as it is now; the theorems are about it. [pre = true] is kept
   only for the regression witnesses in Properties/C12.v.

   Outside the modelled space the model answers [Err EUnmodelled] — never a made-up result:
   constructor parameter named `subcommand` (class with methods) or like a method, subcommand named `config`,
   settings in a --config for a subcommand that is not the chosen one, choosing the subcommand from
   the config instead of the command line (that is C17), a scalar where a subcommand section is
   expected, duplicate / empty names, a parameter named `print_shtab`. *)
From JV Require Import Lib.Base Lib.C12Syntax.

Inductive err :=
| EBuild        (* auto_cli refuses to build the parser: ValueError *)
| EParse        (* the command line / config is rejected: ArgumentError, exit 2 *)
| ECrash        (* any other exception escaping auto_cli (TypeError from the call, ...) *)
| EUnmodelled
| EFuel.
Inductive res (A : Type) := Ok (a : A) | Err (e : err).
Arguments Ok {A} a.
Arguments Err {A} e.
Definition bind {A B} (r : res A) (f : A -> res B) : res B :=
  match r with Ok a => f a | Err e => Err e end.

(* ---- _add_signature_parameter: one row of the argparse table per parameter ------------------- *)
Record arg := { a_dest : str; a_pos : bool; a_ty : ty; a_req : bool; a_def : value }.

Definition is_optional (t : ty) : bool := match t with TOpt _ => true | _ => false end.
Definition starts_underscore (s : str) : bool := match s with 95%N :: _ => true | _ => false end.

(* the values YAML reads as null: a str DEFAULT of an Optional parameter goes through the same text parser
   as command line values do (ActionTypeHint checks defaults), so `s: Optional[str] = "null"` defaults to None *)
Definition nullish (s : str) : bool :=
  list_eqb N.eqb s [110;117;108;108]%N || list_eqb N.eqb s [78;117;108;108]%N ||
  list_eqb N.eqb s [78;85;76;76]%N || list_eqb N.eqb s [126]%N.
Definition reparse_default (t : ty) (v : value) : value :=
  match t, v with
  | TOpt _, VStr s => if nullish s then VNone else v
  | _, _ => v
  end.

Definition arg_of_param (pre as_pos : bool) (p : param) : option arg :=
  (* default = param.default; if empty and is_optional(annotation): default = None *)
  let d0 := match p_default p with
            | Some v => Some v
            | None => if is_optional (p_ty p) then Some VNone
                      else ty_default (p_ty p)   (* a dataclass group: required iff one of its fields is; Point: none *)
            end in
  (* is_required = default == inspect_empty *)
  let is_required := match d0 with None => true | Some _ => false end in
  (* is_private = name[0] == "_"; since 2f69862: False when the None default was made up for an Optional *)
  let is_private := starts_underscore (p_name p) &&
                    (pre || match p_default p with Some _ => true | None => false end) in
  (* if ... (not is_required and is_private): return *)
  if negb is_required && is_private then None else
  (* if default is None and not is_optional(annotation): annotation = Optional[annotation] *)
  let t := match d0 with
           | Some VNone => if is_optional (p_ty p) then p_ty p else TOpt (p_ty p)
           | _ => p_ty p
           end in
  (* args = [dest if is_required and as_positional else "--" + dest] *)
  Some {| a_dest := p_name p; a_pos := is_required && as_pos; a_ty := t; a_req := is_required;
          a_def := match d0 with Some v => reparse_default t v | None => VNone end |}.

Definition args_of_sig (pre as_pos : bool) (s : sig) : list arg :=
  flat_map (fun p => match arg_of_param pre as_pos p with Some a => [a] | None => [] end) s.

Fixpoint find_arg (d : str) (args : list arg) : option arg :=
  match args with
  | [] => None
  | a :: r => if str_eqb d (a_dest a) then Some a else find_arg d r
  end.

(* ---- the parser tree of _add_component_to_parser / _add_subcommands, one level at a time ----- *)
Inductive level := LComp (c : comp) | LMeth (s : sig).

Definition level_sig (lv : level) : sig :=
  match lv with
  | LComp (CFn _ s) => s
  | LComp (CCls _ i _) => i
  | LMeth s => s
  | _ => []
  end.

Definition kid_levels (kids : list (str * comp)) : list (str * level) :=
  flat_map (fun kc => if str_eqb (fst kc) s__help then [] else [(fst kc, LComp (snd kc))]) kids.

Definition level_subs (lv : level) : option (list (str * level)) :=
  match lv with
  | LComp (CCls _ _ []) => None
  | LComp (CCls _ _ ms) => Some (map (fun ms => (fst ms, LMeth (snd ms))) ms)
  | LComp (CGrp kids) => Some (kid_levels kids)
  | _ => None
  end.

Definition sub_names (lv : level) : list str :=
  match level_subs lv with Some l => map fst l | None => [] end.

Definition nonempty {A} (l : list A) : bool := match l with [] => false | _ => true end.

(* ---- namespaces ------------------------------------------------------------------------------ *)
Definition ns := list (str * value).

Fixpoint ns_set (k : str) (v : value) (n : ns) : ns :=
  match n with
  | [] => [(k, v)]
  | (k', v') :: n' => if str_eqb k k' then (k', v) :: n' else (k', v') :: ns_set k v n'
  end.

Record lstate := { ls_ns : ns; ls_npos : nat; ls_pend : list (str * doc) }.
Definition with_ns (st : lstate) (n : ns) : lstate :=
  {| ls_ns := n; ls_npos := ls_npos st; ls_pend := ls_pend st |}.
Definition with_pend (st : lstate) (p : list (str * doc)) : lstate :=
  {| ls_ns := ls_ns st; ls_npos := ls_npos st; ls_pend := p |}.
Definition next_pos (st : lstate) : lstate :=
  {| ls_ns := ls_ns st; ls_npos := S (ls_npos st); ls_pend := ls_pend st |}.

Record frame := { fr_ns : ns; fr_sub : option str }.

Definition check_required (args : list arg) (n : ns) : bool :=
  forallb (fun a => negb (a_req a) ||
                    match assoc (a_dest a) n with Some VNone | None => false | Some _ => true end) args.

Definition pending_for (m : str) (st : lstate) : list doc :=
  flat_map (fun p => if str_eqb (fst p) m then [snd p] else []) (ls_pend st).
Definition other_pending (m : str) (st : lstate) : bool :=
  existsb (fun p => negb (str_eqb (fst p) m)) (ls_pend st).

Section Cli.
  Variable conv : ty -> raw -> option value.   (* text / JSON value -> Python value of the declared type *)
  Variable pre : bool.                         (* true: the code before the round-2 repairs *)
  Variable as_pos : bool.                      (* auto_cli(as_positional=...) *)

  Definition level_args (lv : level) : list arg := args_of_sig pre as_pos (level_sig lv).

  (* does the level's parser have the --config option once it is built?
     auto_cli:91 / _add_subcommands:150,156 / _add_component_to_parser:188-193 *)
  Definition level_has_config (top : bool) (lv : level) : bool :=
    match lv with
    | LComp (CFn _ s) => top || nonempty (args_of_sig pre as_pos s)
    | LComp (CCls _ i ms) =>
        top || nonempty (args_of_sig pre as_pos i) || existsb (fun ms => nonempty (args_of_sig pre as_pos (snd ms))) ms
    | LComp (CGrp _) => true
    | LComp CHelp => false
    | LMeth s => negb (has_param s_config s) && nonempty (args_of_sig pre as_pos s)
    end.

  (* one --config document (or the section handed down by the parent) applied to a level *)
  Fixpoint apply_doc (args : list arg) (subs : list str) (d : doc) (st : lstate) : res lstate :=
    match d with
    | [] => Ok st
    | (k, nd) :: d' =>
        match find_arg k args with
        | Some a =>
            match nd with
            | CLeaf r =>
                match conv (a_ty a) r with
                | Some v => apply_doc args subs d' (with_ns st (ns_set k v (ls_ns st)))
                | None => Err EParse
                end
            | CSec _ => Err EParse
            end
        | None =>
            if mem_str k subs then
              match nd with
              | CSec kids => apply_doc args subs d' (with_pend st (ls_pend st ++ [(k, kids)]))
              | CLeaf _ => Err EUnmodelled
              end
            else if (nonempty subs && str_eqb k s_subcommand) || str_eqb k s_config then Err EUnmodelled
            else Err EParse
        end
    end.

  Fixpoint apply_docs (args : list arg) (subs : list str) (ds : list doc) (st : lstate) : res lstate :=
    match ds with
    | [] => Ok st
    | d :: ds' => bind (apply_doc args subs d st) (apply_docs args subs ds')
    end.

  (* defaults of the level, then what the parent's --config said about it *)
  Definition init_state (top : bool) (lv : level) (preset : list doc) : res lstate :=
    apply_docs (level_args lv) (sub_names lv) preset
      {| ls_ns := (if level_has_config top lv then [(s_config, VNone)] else [])
                  ++ map (fun a => (a_dest a, a_def a)) (level_args lv);
         ls_npos := 0; ls_pend := [] |}.

  (* parse_args: tokens left to right; a bare word fills the next positional, and once the
     positionals are filled it is the subcommand, which takes the rest of the line *)
  Fixpoint parse (top : bool) (lv : level) (st : lstate) (toks : list tok) (acc : list frame)
    : res (list frame) :=
    match toks with
    | [] =>
        match level_subs lv with
        | Some _ => match ls_pend st with [] => Err EParse | _ => Err EUnmodelled end
        | None =>
            if check_required (level_args lv) (ls_ns st)
            then Ok (rev ({| fr_ns := ls_ns st; fr_sub := None |} :: acc))
            else Err EParse
        end
    | KOpt n r :: toks' =>
        match find_arg n (filter (fun a => negb (a_pos a)) (level_args lv)) with
        | Some a =>
            match conv (a_ty a) r with
            | Some v => parse top lv (with_ns st (ns_set n v (ls_ns st))) toks' acc
            | None => Err EParse
            end
        | None => Err EParse
        end
    | KCfg d :: toks' =>
        if level_has_config top lv then
          match apply_doc (level_args lv) (sub_names lv) d st with
          | Ok st' => parse top lv st' toks' acc
          | Err e => Err e
          end
        else match lv with
             | LMeth s => if has_param s_config s then Err EUnmodelled (* --config=... is then the method's own parameter *)
                          else Err EParse
             | _ => Err EParse
             end
    | KPos r :: toks' =>
        match nth_error (filter a_pos (level_args lv)) (ls_npos st) with
        | Some a =>
            match conv (a_ty a) r with
            | Some v => parse top lv (next_pos (with_ns st (ns_set (a_dest a) v (ls_ns st)))) toks' acc
            | None => Err EParse
            end
        | None =>
            match level_subs lv, r with
            | Some subs, RStr m =>
                match assoc m subs with
                | Some lv' =>
                    if other_pending m st then Err EUnmodelled else
                    if check_required (level_args lv) (ls_ns st) then
                      match init_state false lv' (pending_for m st) with
                      | Ok st' => parse false lv' st' toks' ({| fr_ns := ls_ns st; fr_sub := Some m |} :: acc)
                      | Err e => Err e
                      end
                    else Err EParse
                | None => Err EParse
                end
            | _, _ => Err EParse
            end
        end
    end.
End Cli.

(* ---- the nested Namespace parse_args returns ------------------------------------------------- *)
Inductive cfgv := CV (v : value) | CN (n : list (str * cfgv)).
Definition cfg := list (str * cfgv).

Fixpoint nest (fs : list frame) : cfg :=
  match fs with
  | [] => []
  | f :: fs' =>
      map (fun kv => (fst kv, CV (snd kv))) (fr_ns f) ++
      match fr_sub f with
      | Some m => [(s_subcommand, CV (VStr m)); (m, CN (nest fs'))]
      | None => []
      end
  end.

(* init.get("a.b.c") *)
Fixpoint cfg_get (path : list str) (c : cfg) : option cfgv :=
  match path with
  | [] => None
  | k :: path' =>
      match path' with
      | [] => assoc k c
      | _ => match assoc k c with Some (CN n) => cfg_get path' n | _ => None end
      end
  end.

(* components_ns["a.b.c"] / "a.b.c" in components_ns *)
Fixpoint comps_get (path : list str) (kids : list (str * comp)) : option comp :=
  match path with
  | [] => None
  | k :: path' =>
      match path' with
      | [] => assoc k kids
      | _ => match assoc k kids with Some (CGrp kids') => comps_get path' kids' | _ => None end
      end
  end.

(* auto_cli:117-123 — the while loop that follows the chain of "subcommand" keys *)
Fixpoint dispatch_loop (fuel : nat) (kids : list (str * comp)) (init : cfg) (path : list str)
  : res (list str) :=
  match fuel with
  | O => Err EFuel
  | S fuel' =>
      match cfg_get path init with
      | Some (CN n) =>
          match assoc s_subcommand n with
          | Some (CV (VStr m)) =>
              match comps_get (path ++ [m]) kids with
              | Some _ => dispatch_loop fuel' kids init (path ++ [m])
              | None => Ok path
              end
          | _ => Ok path
          end
      | _ => Ok path
      end
  end.

(* ---- CPython's keyword call binding (trusted, simple): what the callee sees ------------------- *)
Fixpoint bind_params (ps : sig) (kw : list (str * value)) : res (list (str * value)) :=
  match ps with
  | [] => Ok []
  | p :: ps' =>
      match (match assoc (p_name p) kw with Some v => Some v | None => p_default p end) with
      | Some v => bind (bind_params ps' kw) (fun r => Ok ((p_name p, v) :: r))
      | None => Err ECrash     (* TypeError: missing required argument *)
      end
  end.

(* _run_component calls component( **cfg ): every value travels by keyword, whatever the kind of the parameter *)
Definition is_posonly (p : param) : bool := match p_kind p with PosOnly => true | _ => false end.
Definition posonly_given (s : sig) (kw : list (str * value)) : bool :=
  existsb (fun p => is_posonly p && match assoc (p_name p) kw with Some _ => true | None => false end) s.

Definition py_call (s : sig) (kw : list (str * value)) : res (list (str * value)) :=
  if existsb (fun kv => negb (has_param (fst kv) s)) kw
  then Err ECrash              (* TypeError: unexpected keyword argument *)
  else if posonly_given s kw
  then Err ECrash              (* TypeError: got some positional-only arguments passed as keyword arguments *)
  else bind_params s kw.

(* component( **cfg ) *)
Fixpoint kwargs_of (c : cfg) : res (list (str * value)) :=
  match c with
  | [] => Ok []
  | (k, CV v) :: c' => bind (kwargs_of c') (fun r => Ok ((k, v) :: r))
  | (_, CN _) :: _ => Err EUnmodelled
  end.

(* ---- _run_component (_cli.py:202-215) --------------------------------------------------------- *)
Definition truthy (v : value) : bool :=
  match v with
  | VInt z => negb (Z.eqb z 0) | VStr s => nonempty s | VBool b => b | VNone => false | VList l => nonempty l
  | VData _ _ => true
  end.

Definition run_component (pre : bool) (c : comp) (cf : cfg) : res (list call * retv) :=
  let cfg1 := remove_key s_config cf in                 (* cfg.pop("config", None) *)
  let sub := assoc s_subcommand cfg1 in                 (* subcommand = cfg.pop("subcommand") [if isclass(component)] *)
  let cfg2 := remove_key s_subcommand cfg1 in
  match c with
  | CFn n s =>
      bind (kwargs_of (if pre then cfg2 else cfg1)) (fun kw => bind (py_call s kw) (fun b => Ok ([([n], b)], RetCall 0)))
  | CCls n i ms =>
      match sub with
      | None =>
          bind (kwargs_of cfg2) (fun kw => bind (py_call i kw) (fun b =>
          Ok ([([n; s__init__], b)], RetInstance)))
      | Some (CV v) =>
          (* a class without methods: the key can only be the constructor's own parameter `subcommand`.
             Before /repo 4bb4764 it was popped all the same and, when truthy, taken for a method name (TypeError /
             AttributeError escapes); now "subcommand" is popped only for a class that has methods *)
          match ms with
          | [] => if pre then
                    if truthy v then Err ECrash
                    else bind (kwargs_of cfg2) (fun kw => bind (py_call i kw) (fun b =>
                         Ok ([([n; s__init__], b)], RetInstance)))
                  else bind (kwargs_of cfg1) (fun kw => bind (py_call i kw) (fun b =>
                       Ok ([([n; s__init__], b)], RetInstance)))
          | _ =>
          match v with
          | VStr m =>
          match assoc m ms with
          | None => Err EUnmodelled
          | Some msig =>
              bind (match assoc m cfg2 with             (* subcommand_cfg = cfg.pop(subcommand, {}) *)
                    | Some (CN x) => Ok x
                    | None => Ok []
                    | Some (CV _) => Err EUnmodelled
                    end) (fun mcfg =>
              let cfg3 := remove_key m cfg2 in
              (* [if not has_parameter(method, "config"):] subcommand_cfg.pop("config", None) *)
              let mcfg' := if pre || negb (has_param s_config msig) then remove_key s_config mcfg else mcfg in
              bind (kwargs_of cfg3) (fun kw => bind (py_call i kw) (fun b1 =>      (* component( **cfg ) *)
              bind (kwargs_of mcfg') (fun kw2 => bind (py_call msig kw2) (fun b2 => (* method( **subcommand_cfg ) *)
              Ok ([([n; s__init__], b1); ([n; m], b2)], RetCall 1))))))
          end
          | _ => Err EUnmodelled
          end
          end
      | Some (CN _) => Err EUnmodelled
      end
  | _ => Err ECrash
  end.

(* ---- what auto_cli refuses while building the parser ------------------------------------------ *)
Definition is_nil {A} (l : list A) : bool := match l with [] => true | _ => false end.

Definition sig_ok (s : sig) : bool :=
  nodup_str (names s) &&
  forallb (fun n => negb (is_nil n) && negb (str_eqb n s_print_shtab)) (names s).

Definition clash (reserved : list str) (s : sig) : bool :=
  existsb (fun n => mem_str n reserved) (names s).

(* _add_signature_arguments:281-288: "--"+name already an option of the parser => ValueError *)
Definition check_fn_sig (s : sig) : res unit :=
  if negb (sig_ok s) then Err EUnmodelled
  else if clash [s_help; s_config; s_print_config] s then Err EBuild
  else Ok tt.

(* a method's subparser gets --config (and --print_config) only if the method has no `config` parameter *)
Definition check_meth_sig (s : sig) : res unit :=
  if negb (sig_ok s) then Err EUnmodelled
  else if clash (s_help :: (if has_param s_config s then [] else [s_print_config])) s then Err EBuild
  else Ok tt.

Fixpoint check_meths (ms : list (str * sig)) : res unit :=
  match ms with
  | [] => Ok tt
  | (_, s) :: ms' => bind (check_meth_sig s) (fun _ => check_meths ms')
  end.

Definition meth_names_ok (i : sig) (ms : list (str * sig)) : bool :=
  nodup_str (map fst ms) &&
  forallb (fun m => negb (is_nil m) && negb (starts_underscore m) && negb (has_param m i)
                    && negb (str_eqb m s_config) && negb (str_eqb m s_subcommand)) (map fst ms).

Definition kid_names_ok (kids : list (str * comp)) : bool :=
  nodup_str (map fst kids) && nonempty (kid_levels kids) &&
  forallb (fun kc => negb (is_nil (fst kc)) && negb (str_eqb (fst kc) s_config) &&
                     Bool.eqb (str_eqb (fst kc) s__help) (match snd kc with CHelp => true | _ => false end)) kids.

Fixpoint build_check (c : comp) : res unit :=
  match c with
  | CFn _ s => check_fn_sig s
  | CCls _ i ms =>
      if negb (meth_names_ok i ms) || (has_param s_subcommand i && nonempty ms) then Err EUnmodelled
      else bind (check_fn_sig i) (fun _ => check_meths ms)
  | CGrp kids =>
      if negb (kid_names_ok kids) then Err EUnmodelled
      else if mem_str s_subcommand (map fst kids) then Err EBuild   (* "A subcommand name can't be the same as the subcommands dest" *)
      else (fix go (l : list (str * comp)) : res unit :=
              match l with
              | [] => Ok tt
              | (_, c') :: l' => bind (build_check c') (fun _ => go l')
              end) kids
  | CHelp => Ok tt      (* a "_help" string: skipped by _add_subcommands (kid_names_ok ties it to that key) *)
  end.

Definition comp_name (c : comp) : str :=
  match c with CFn n _ => n | CCls n _ _ => n | _ => [] end.
Definition is_leaf (c : comp) : bool :=
  match c with CFn _ _ | CCls _ _ _ => true | _ => false end.

(* auto_cli:74-88,104-105 *)
Definition normalize (cs : components) : res comp :=
  match cs with
  | One c => if is_leaf c then Ok c else Err EUnmodelled
  | Lst [] => Err EBuild
  | Lst [c] => if is_leaf c then Ok c else Err EUnmodelled
  | Lst l =>
      if forallb is_leaf l && nodup_str (map comp_name l)
      then Ok (CGrp (map (fun c => (comp_name c, c)) l)) else Err EUnmodelled
  | Dct [] => Err EBuild
  | Dct kids => if mem_str s__help (map fst kids) then Err EBuild else Ok (CGrp kids)
  end.

(* ---- auto_cli ------------------------------------------------------------------------------- *)
Definition auto_cli (pre : bool) (conv : ty -> raw -> option value) (as_pos : bool) (cs : components) (toks : list tok)
  : res (list call * retv) :=
  bind (normalize cs) (fun c =>
  bind (build_check c) (fun _ =>
  bind (init_state conv pre as_pos true (LComp c) []) (fun st0 =>
  bind (parse conv pre as_pos true (LComp c) st0 toks []) (fun frames =>
  let init := nest frames in                                   (* instantiate_classes: nothing to do *)
  match c with
  | CGrp kids =>
      match assoc s_subcommand init with
      | Some (CV (VStr m)) =>
          bind (dispatch_loop (S (length frames)) kids init [m]) (fun path =>
          match comps_get path kids, cfg_get path init with
          | Some comp', Some (CN sub) => run_component pre comp' sub
          | _, _ => Err ECrash
          end)
      | _ => Err ECrash
      end
  | _ => run_component pre c init
  end)))).

(* ---- the guards of round 1 (both defects are repaired in /repo now; kept for the regression witnesses) ----
   no function parameter is called `subcommand`, no method parameter is called `config` *)
Fixpoint guard_comp (c : comp) : bool :=
  match c with
  | CFn _ s => negb (has_param s_subcommand s)
  | CCls _ _ ms => forallb (fun ms => negb (has_param s_config (snd ms))) ms
  | CGrp kids => (fix go (l : list (str * comp)) : bool :=
                    match l with [] => true | (_, c') :: l' => guard_comp c' && go l' end) kids
  | CHelp => true
  end.

Definition no_reserved_param_names (cs : components) : bool :=
  match cs with
  | One c => guard_comp c
  | Lst l => forallb guard_comp l
  | Dct kids => forallb (fun kc => guard_comp (snd kc)) kids
  end.

(* second guard / finding class: no private (_x) parameter that is Optional and has no default *)
Definition priv_opt_nodefault (p : param) : bool :=
  starts_underscore (p_name p) && is_optional (p_ty p) &&
  match p_default p with None => true | Some _ => false end.
Definition sig_guard2 (s : sig) : bool := negb (existsb priv_opt_nodefault s).

Fixpoint guard2_comp (c : comp) : bool :=
  match c with
  | CFn _ s => sig_guard2 s
  | CCls _ i ms => sig_guard2 i && forallb (fun ms => sig_guard2 (snd ms)) ms
  | CGrp kids => (fix go (l : list (str * comp)) : bool :=
                    match l with [] => true | (_, c') :: l' => guard2_comp c' && go l' end) kids
  | CHelp => true
  end.

Definition no_private_optional_without_default (cs : components) : bool :=
  match cs with
  | One c => guard2_comp c
  | Lst l => forallb guard2_comp l
  | Dct kids => forallb (fun kc => guard2_comp (snd kc)) kids
  end.

(* ---- A: guard of round 3 (repaired in /repo 4bb4764; kept for the regression witness):
        no class whose constructor has a parameter called `subcommand` *)
Fixpoint guardA_comp (c : comp) : bool :=
  match c with
  | CFn _ _ => true
  | CCls _ i _ => negb (has_param s_subcommand i)
  | CGrp kids => (fix go (l : list (str * comp)) : bool :=
                    match l with [] => true | (_, c') :: l' => guardA_comp c' && go l' end) kids
  | CHelp => true
  end.

Definition no_class_subcommand_param (cs : components) : bool :=
  match cs with
  | One c => guardA_comp c
  | Lst l => forallb guardA_comp l
  | Dct kids => forallb (fun kc => guardA_comp (snd kc)) kids
  end.

(* ---- the guard of the theorem about the present code = the finding classes of the correspondence judge ----
   B: no Optional parameter whose default is a string that YAML reads as null (class 6);
   P: no positional-only parameter (class 9): the call is component( **cfg ) *)
Definition nullish_default (p : param) : bool :=
  match p_ty p, p_default p with
  | TOpt _, Some (VStr s) => nullish s
  | _, _ => false
  end.
Definition sig_nullish_free (s : sig) : bool := negb (existsb nullish_default s).
Definition sig_posonly_free (s : sig) : bool := negb (existsb is_posonly s).
Definition sig_guard3 (s : sig) : bool := sig_nullish_free s && sig_posonly_free s.

Section Guard.
  Variable sg : sig -> bool.
  Fixpoint guard_comp_by (c : comp) : bool :=
    match c with
    | CFn _ s => sg s
    | CCls _ i ms => sg i && forallb (fun ms => sg (snd ms)) ms
    | CGrp kids => (fix go (l : list (str * comp)) : bool :=
                      match l with [] => true | (_, c') :: l' => guard_comp_by c' && go l' end) kids
    | CHelp => true
    end.
  Definition guard_by (cs : components) : bool :=
    match cs with
    | One c => guard_comp_by c
    | Lst l => forallb guard_comp_by l
    | Dct kids => forallb (fun kc => guard_comp_by (snd kc)) kids
    end.
End Guard.

Fixpoint guardB_comp (c : comp) : bool :=
  match c with
  | CFn _ s => sig_guard3 s
  | CCls _ i ms => sig_guard3 i && forallb (fun ms => sig_guard3 (snd ms)) ms
  | CGrp kids => (fix go (l : list (str * comp)) : bool :=
                    match l with [] => true | (_, c') :: l' => guardB_comp c' && go l' end) kids
  | CHelp => true
  end.

(* the guard of C12_binds_exactly: every signature of the program is free of both finding classes *)
Definition in_guard (cs : components) : bool :=
  match cs with
  | One c => guardB_comp c
  | Lst l => forallb guardB_comp l
  | Dct kids => forallb (fun kc => guardB_comp (snd kc)) kids
  end.

(* the two finding classes one by one (which of them a program outside the guard belongs to) *)
Definition no_nullish_str_default (cs : components) : bool := guard_by sig_nullish_free cs.
Definition no_positional_only (cs : components) : bool := guard_by sig_posonly_free cs.

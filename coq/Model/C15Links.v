(* C15 — model of argument links applied on parse (jsonargparse/_link_arguments.py, _core.py).
   Executable Gallina only, written in the shape of the code:
     add_link      ActionLink.__init__  (_initial_input_checks, source/target action lookup, replacement of the
                   target action, removal from required_args, registration of linked_targets)
     gather/apply1 ActionLink.apply_parsing_links (skip rule, source value check, compute_fn)
     set_target    ActionLink.set_target_value for the three target kinds
     collect       defaults -> environment -> argv left to right (options, --cfg) / parse_object, with
                   ActionLink.__call__ rejecting the option of a replaced target action
     validate      ArgumentParser.validate as far as links can influence it (types, required)
     strip         ActionLink.strip_link_target_keys (dump / save)
   Compute functions are opaque: a Section variable  fn : nat -> list val -> option val  (None = raises). *)
From JV Require Import Lib.Base Lib.C15Val.

(* TDictInt: Dict[str, int] — a dict VALUE (not a group of arguments); Namespace.as_dict is the identity on [val], so
   the automatic Namespace -> dict conversion of apply_parsing_links (target / compute_fn parameter annotated as a
   mapping) shows in the model only through this type check: a Namespace left unconverted is no Dict[str, int] *)
Inductive ty := TInt | TStr | TListInt | TAny | TDictInt.
Inductive kind := KPlain (t : ty) | KClass | KClassList.

(* d_alias: the argument was declared with a second option string (add_argument("--b", "--b_alt") / ("--b", "-B")) *)
Record decl := { d_key : key; d_kind : kind; d_default : val; d_required : bool; d_alias : bool }.
(* a class of the generated module: name and __init__ parameters (None default = required parameter) *)
Record cls := { c_name : str; c_params : list (str * ty * option val) }.

Record link := { l_src : list key; l_tgt : key; l_fn : option nat }.

Inductive tkind :=
| TgtPlain                         (* target is an argument itself (plain or a whole class-typed one): the action is replaced *)
| TgtInit (dest child : key).      (* target = dest ++ child, child = init_args :: _, dest class-typed (or list of) *)

Record alink := { al_link : link; al_kind : tkind; al_srcs : list (key * list decl) }.

Record parser := { p_acts : list (decl * bool);   (* _actions in order; true = replaced by an ActionLink *)
                   p_req : list key;               (* required_args *)
                   p_links : list alink }.         (* _links_group._group_actions, apply_on == "parse" *)

Inductive err := ELinked | EOther | EUnmodelled.
Inductive res (A : Type) := Ok (a : A) | Err (e : err).
Arguments Ok {A} a. Arguments Err {A} e.

Definition init_args : str := [105;110;105;116;95;97;114;103;115]%N.
Definition class_path : str := [99;108;97;115;115;95;112;97;116;104]%N.

Definition al_tgt (a : alink) : key := l_tgt (al_link a).
Definition al_src (a : alink) : list key := l_src (al_link a).

(* ---------------------------------------------------------------- ActionLink.__init__ *)

(* _find_action with exclude=ActionLink: exact dest among the non-link actions *)
Definition find_exact (acts : list (decl * bool)) (k : key) : option decl :=
  match find (fun a => negb (snd a) && key_eqb (d_key (fst a)) k) acts with
  | Some a => Some (fst a)
  | None => None
  end.

Fixpoint find_parent_from (acts : list (decl * bool)) (k : key) (n : nat) : option decl :=
  match n with
  | 0 => None
  | S n' => match find_exact acts (firstn n k) with
            | Some d => Some d
            | None => find_parent_from acts k n'
            end
  end.

(* _find_parent_action: the action itself, else the nearest enclosing action *)
Definition find_parent (acts : list (decl * bool)) (k : key) : option decl :=
  match find_exact acts k with
  | Some d => Some d
  | None => find_parent_from acts k (length k - 1)
  end.

Definition strict_prefix (a b : key) : bool := is_prefix a b && negb (key_eqb a b).

(* find_parent_or_child_actions *)
Definition find_sources (acts : list (decl * bool)) (s : key) : option (list decl) :=
  match find_parent acts s with
  | Some d => Some [d]
  | None =>
      match map fst (filter (fun a => negb (snd a) && strict_prefix s (d_key (fst a))) acts) with
      | [] => None
      | l => Some l
      end
  end.

(* _initial_input_checks, apply_on == "parse" *)
Definition chk_fn (l : link) : bool :=
  match l_fn l with None => Nat.eqb (length (l_src l)) 1 | Some _ => true end.
Definition chk_double_target (prev : list alink) (l : link) : bool :=
  negb (mem_key (l_tgt l) (map al_tgt prev)).
Definition chk_source_is_target (prev : list alink) (l : link) : bool :=
  forallb (fun s => negb (mem_key s (map al_tgt prev))) (l_src l).
Definition chk_target_is_source (prev : list alink) (l : link) : bool :=
  negb (mem_key (l_tgt l) (flat_map al_src prev)).
Definition init_checks (prev : list alink) (l : link) : bool :=
  chk_fn l && chk_double_target prev l && chk_source_is_target prev l && chk_target_is_source prev l.

Fixpoint mark_linked (acts : list (decl * bool)) (k : key) : list (decl * bool) :=
  match acts with
  | [] => []
  | (d, b) :: acts' =>
      if negb b && key_eqb (d_key d) k then (d, true) :: acts' else (d, b) :: mark_linked acts' k
  end.

Definition remove_key (k : key) (l : list key) : list key := filter (fun x => negb (key_eqb x k)) l.

Definition is_class_kind (k : kind) : bool := match k with KPlain _ => false | _ => true end.

Definition add_link (p : parser) (l : link) : res parser :=
  if negb (init_checks (p_links p) l) then Err EOther else
  match mapM (fun s => option_map (pair s) (find_sources (p_acts p) s)) (l_src l) with
  | None => Err EOther                                     (* No action for key *)
  | Some srcs =>
      match find_parent (p_acts p) (l_tgt l) with
      | None => Err EOther
      | Some d =>
          let leaf := key_eqb (d_key d) (l_tgt l) in
          (* the target IS an argument (plain, or a whole class-typed argument: valid_target_leaf): its action is
             replaced by the link action; set_target_value assigns cfg[target] (for a class-typed one after
             target_action._check_type(value), whose verdict validate repeats) *)
          if leaf
          then Ok {| p_acts := mark_linked (p_acts p) (l_tgt l);
                     p_req := remove_key (l_tgt l) (p_req p);
                     p_links := p_links p ++ [{| al_link := l; al_kind := TgtPlain; al_srcs := srcs |}] |}
          else if is_class_kind (d_kind d) then
            if is_prefix (d_key d ++ [init_args]) (l_tgt l)
               && Nat.ltb (S (length (d_key d))) (length (l_tgt l))
            then Ok {| p_acts := p_acts p;
                       p_req := remove_key (l_tgt l) (p_req p);
                       p_links := p_links p ++ [{| al_link := l;
                                                   al_kind := TgtInit (d_key d) (skipn (length (d_key d)) (l_tgt l));
                                                   al_srcs := srcs |}] |}
            else Err EOther                                (* Target key expected to start with dest.init_args. *)
          else Err EUnmodelled                             (* key below a non-class argument: not modelled *)
      end
  end.

Definition init_parser (ds : list decl) : parser :=
  {| p_acts := map (fun d => (d, false)) ds;
     p_req := map d_key (filter d_required ds);
     p_links := [] |}.

(* link_arguments calls in order; a rejected call (ValueError) leaves the parser unchanged.
   Verdict per call: 0 accepted, 1 rejected, 2 outside the modelled space. *)
Fixpoint add_links (p : parser) (ls : list link) : parser * list N :=
  match ls with
  | [] => (p, [])
  | l :: ls' =>
      match add_link p l with
      | Ok p' => let '(q, vs) := add_links p' ls' in (q, 0%N :: vs)
      | Err EUnmodelled => let '(q, vs) := add_links p ls' in (q, 2%N :: vs)
      | Err _ => let '(q, vs) := add_links p ls' in (q, 1%N :: vs)
      end
  end.

Definition build (ds : list decl) (ls : list link) : parser * list N := add_links (init_parser ds) ls.

(* ---------------------------------------------------------------- type checks *)

Definition is_int (v : val) : bool := match v with VInt _ => true | _ => false end.

(* _check_value_key outside lenient mode, on the value space of the generators
   (ints, lower-case words that YAML reads as strings, lists of those, None) *)
(* Python booleans (Any-typed arguments only) are encoded as the reserved strings "<true>" / "<false>": they are no str *)
Definition s_true : str := [60;116;114;117;101;62]%N.
Definition s_false : str := [60;102;97;108;115;101;62]%N.
Definition is_boolenc (s : str) : bool := str_eqb s s_true || str_eqb s s_false.

Definition accepts (t : ty) (v : val) : bool :=
  match t, v with
  | TAny, _ => true
  | TInt, VInt _ => true
  | TStr, VStr s => negb (is_boolenc s)
  | TListInt, VList l => forallb is_int l
  | TDictInt, VMap m => forallb (fun kv => is_int (snd kv)) m
  | _, _ => false
  end.

Definition lenient (t : ty) (v : val) : bool := match v with VNone => true | _ => accepts t v end.

Section WithFn.
Variable fn : nat -> list val -> option val.
Variable classes : list cls.

Definition find_cls (n : str) : option cls := find (fun c => str_eqb (c_name c) n) classes.

(* what the class-type check lets through for one {class_path, init_args} value; [linked] = the
   registered linked_targets of this argument (parameter names that need not be given) *)
Definition accepts_class (linked : list str) (v : val) : bool :=
  match get v [class_path], get v [init_args] with
  | Some (VStr n), Some (VMap ia) =>
      match find_cls n with
      | None => false
      | Some c =>
          forallb (fun kv => match find (fun pr => str_eqb (fst (fst pr)) (fst kv)) (c_params c) with
                             | Some pr => lenient (snd (fst pr)) (snd kv)
                             | None => false
                             end) ia
          && forallb (fun pr => match snd pr with
                                | Some _ => true
                                | None => mem_str (fst (fst pr)) linked
                                          || match alookup (fst (fst pr)) ia with
                                             | Some VNone | None => false
                                             | Some _ => true
                                             end
                                end) (c_params c)
      end
  | _, _ => false
  end.

Definition linked_of (p : parser) (dest : key) : list str :=
  flat_map (fun a => match al_kind a with
                     | TgtInit d [_; sub] => if key_eqb d dest then [sub] else []
                     | _ => []
                     end) (p_links p).

(* ---------------------------------------------------------------- apply_parsing_links *)

Definition src_is_class (ds : list decl) : bool :=
  match ds with d :: _ => match d_kind d with KClass => true | _ => false end | [] => false end.

(* parser._check_value_key(source_action_n, cfg[dest], ...) — not lenient: None is rejected *)
Definition src_ok (cfg : val) (d : decl) : bool :=
  match get cfg (d_key d) with
  | None => true
  | Some v => match d_kind d with
              | KPlain t => accepts t v
              | _ => match v with VNone => false | _ => true end   (* "Not a valid subclass ... Got value: None" *)
              end
  end.

(* Ok None = link skipped ("source not found in namespace") *)
Fixpoint gather (cfg : val) (ss : list (key * list decl)) : res (option (list val)) :=
  match ss with
  | [] => Ok (Some [])
  | (s, ds) :: ss' =>
      if src_is_class ds && negb (has cfg s) then Ok None
      else if negb (forallb (src_ok cfg) ds) then Err EOther
      else match get cfg s with
           | None => Err EOther                      (* KeyError *)
           | Some v => match gather cfg ss' with
                       | Ok (Some vs) => Ok (Some (v :: vs))
                       | r => r
                       end
           end
  end.

Definition compute (l : link) (args : list val) : option val :=
  match l_fn l with
  | None => hd_error args
  | Some f => fn f args
  end.

Definition is_map (v : val) : bool := match v with VMap _ => true | _ => false end.

(* set_target_value *)
Definition set_target (a : alink) (value : val) (cfg : val) : val :=
  match al_kind a with
  | TgtPlain => set cfg (al_tgt a) value
  | TgtInit dest child =>
      match get cfg dest with
      | Some (VList items) =>
          if existsb (fun i => is_map i && has i child) items
          then set cfg dest (VList (map (fun i => if has i child then set i child value else i) items))
          else if has cfg (al_tgt a) then set cfg (al_tgt a) value else cfg
      | _ => if has cfg (al_tgt a) then set cfg (al_tgt a) value else cfg
      end
  end.

Definition apply1 (cfg : val) (a : alink) : res val :=
  match gather cfg (al_srcs a) with
  | Err e => Err e
  | Ok None => Ok cfg
  | Ok (Some args) =>
      match compute (al_link a) args with
      | None => Err EOther                           (* compute_fn raised *)
      | Some v => Ok (set_target a v cfg)
      end
  end.

Fixpoint apply_links (cfg : val) (ls : list alink) : res val :=
  match ls with
  | [] => Ok cfg
  | a :: ls' => match apply1 cfg a with Ok cfg' => apply_links cfg' ls' | Err e => Err e end
  end.

(* ---------------------------------------------------------------- validate *)

Definition value_ok (p : parser) (d : decl) (v : val) : bool :=
  match v with
  | VNone => true                                    (* skip_none *)
  | _ =>
      match d_kind d with
      | KPlain t => accepts t v
      | KClass => accepts_class (linked_of p (d_key d)) v
      | KClassList => match v with
                      | VList items => forallb (accepts_class (linked_of p (d_key d))) items
                      | _ => false
                      end
      end
  end.

Definition validate (p : parser) (cfg : val) : bool :=
  forallb (fun a => match get cfg (d_key (fst a)) with
                    | None => true
                    | Some v => value_ok p (fst a) v
                    end) (p_acts p)
  && forallb (fun k => match get cfg k with Some VNone | None => false | Some _ => true end) (p_req p).

(* _parse_common from apply_parsing_links on: what happens to the configuration collected from all sources *)
Definition finish (p : parser) (pre : val) : res val :=
  match apply_links pre (p_links p) with
  | Err e => Err e
  | Ok cfg => if validate p cfg then Ok cfg else Err EOther
  end.

(* ---------------------------------------------------------------- collecting the sources *)

(* Opt: the first option string of the argument with dest k; OptAlias: its second spelling *)
Inductive item := Opt (k : key) (v : val) | OptAlias (k : key) (v : val) | Cfg (m : val).
Inductive input :=
| InArgs (env : list (key * val)) (argv : list item)
| InObject (env : list (key * val)) (obj : val).

Definition find_act (acts : list (decl * bool)) (k : key) : option (decl * bool) :=
  find (fun a => key_eqb (d_key (fst a)) k) acts.

Definition plain_ty (d : decl) : option ty := match d_kind d with KPlain t => Some t | _ => None end.

(* get_defaults: an ActionLink has default SUPPRESS *)
Definition defaults (p : parser) : val :=
  fold_left (fun (cfg : val) (a : decl * bool) =>
               if snd a then cfg else set cfg (d_key (fst a)) (d_default (fst a))) (p_acts p) (VMap []).

Fixpoint leaves (pre : key) (v : val) {struct v} : list (key * val) :=
  match v with
  | VMap m =>
      (fix go (m : list (str * val)) : list (key * val) :=
         match m with
         | [] => []
         | (k, c) :: m' => leaves (pre ++ [k]) c ++ go m'
         end) m
  | _ => [(pre, v)]
  end.

(* Namespace.update: every leaf of [from] is assigned into [to] *)
Definition update (to from : val) : val :=
  fold_left (fun (c : val) (kv : key * val) => set c (fst kv) (snd kv)) (leaves [] from) to.

Fixpoint alookup_key (k : key) (m : list (key * val)) : option val :=
  match m with [] => None | (k', v) :: m' => if key_eqb k k' then Some v else alookup_key k m' end.

(* _load_env_vars: the link action answers for the env var of its target and checks with the target's type *)
Fixpoint load_env (acts : list (decl * bool)) (env : list (key * val)) (cfg : val) : res val :=
  match acts with
  | [] => Ok cfg
  | (d, _) :: acts' =>
      match alookup_key (d_key d) env with
      | None => load_env acts' env cfg
      | Some v =>
          match plain_ty d with
          | None => Err EUnmodelled
          | Some t => if accepts t v then load_env acts' env (set cfg (d_key d) v) else Err EOther
          end
      end
  end.

(* _apply_actions on a loaded config / object: every leaf goes through the action found for its key
   (lenient: None passes); a link action checks with the type of the target it replaced *)
Fixpoint check_leaves (acts : list (decl * bool)) (ls : list (key * val)) : res unit :=
  match ls with
  | [] => Ok tt
  | (k, v) :: ls' =>
      match find_act acts k with
      | None => Err EOther                           (* key not expected (fails in validate) *)
      | Some (d, _) =>
          match plain_ty d with
          | None => Err EUnmodelled
          | Some t => if lenient t v then check_leaves acts ls' else Err EOther
          end
      end
  end.

Definition apply_cfg (p : parser) (cfg m : val) : res val :=
  match check_leaves (p_acts p) (leaves [] m) with
  | Err e => Err e
  | Ok _ => Ok (update cfg m)
  end.

Fixpoint parse_argv (p : parser) (cfg : val) (argv : list item) : res val :=
  match argv with
  | [] => Ok cfg
  | Opt k v :: argv' =>
      match find_act (p_acts p) k with
      | None => Err EOther                           (* unrecognized argument *)
      | Some (_, true) => Err ELinked                (* ActionLink.__call__ *)
      | Some (d, false) =>
          match plain_ty d with
          | None => Err EUnmodelled
          | Some t => if accepts t v then parse_argv p (set cfg k v) argv' else Err EOther
          end
      end
  | OptAlias k v :: argv' =>
      (* ActionLink.__init__ re-points EVERY option string of the replaced target action at the link action *)
      match find_act (p_acts p) k with
      | None => Err EOther
      | Some (d, linked) =>
          if negb (d_alias d) then Err EOther          (* unrecognized argument *)
          else if linked then Err ELinked
          else match plain_ty d with
               | None => Err EUnmodelled
               | Some t => if accepts t v then parse_argv p (set cfg k v) argv' else Err EOther
               end
      end
  | Cfg m :: argv' =>
      match apply_cfg p cfg m with
      | Err e => Err e
      | Ok cfg' => parse_argv p cfg' argv'
      end
  end.

Definition defaults_and_env (p : parser) (env : list (key * val)) : res val :=
  match load_env (p_acts p) env (VMap []) with
  | Err e => Err e
  | Ok cfg_env => Ok (update (defaults p) cfg_env)
  end.

Definition collect (p : parser) (x : input) : res val :=
  match x with
  | InArgs env argv =>
      match defaults_and_env p env with
      | Err e => Err e
      | Ok cfg => parse_argv p cfg argv
      end
  | InObject env obj =>
      match defaults_and_env p env with
      | Err e => Err e
      | Ok cfg => apply_cfg p cfg obj
      end
  end.

Definition parse (p : parser) (x : input) : res val :=
  match collect p x with
  | Err e => Err e
  | Ok pre => finish p pre
  end.

(* Parsers with class-typed arguments: how a class value is normalised from its sources belongs to the
   class-type machinery (C14); the configuration at the entry of apply_parsing_links is an input here.
   What this model still decides before that point: the option of a replaced target is rejected. *)
Definition uses_linked_option (p : parser) (x : input) : bool :=
  match x with
  | InArgs _ argv =>
      existsb (fun it => match it with
                         | Opt k _ => match find_act (p_acts p) k with Some (_, true) => true | _ => false end
                         | OptAlias k _ => match find_act (p_acts p) k with Some (d, true) => d_alias d | _ => false end
                         | Cfg _ => false
                         end) argv
  | InObject _ _ => false
  end.

Definition parse_from (p : parser) (x : input) (pre : option val) : res val :=
  if uses_linked_option p x then Err ELinked
  else match pre with
       | Some c => finish p c
       | None => Err EUnmodelled
       end.

End WithFn.

(* ---------------------------------------------------------------- strip_link_target_keys *)

Definition falsy (v : val) : bool :=
  match v with
  | VNone | VMap [] | VList [] | VStr [] | VInt 0%Z => true
  | _ => false
  end.

Definition del_target_key (cfg : val) (k : key) : val :=
  let cfg' := pop cfg k in
  match k with
  | [] | [_] => cfg'
  | _ =>
      let parent := removelast k in
      match get cfg' parent with
      | Some v => if falsy v then pop cfg' parent else cfg'
      | None => cfg'
      end
  end.

(* first the link actions among _actions (plain targets, in action order), then the registered
   linked_targets of every class-typed action *)
Definition strip (p : parser) (cfg : val) : val :=
  let plain := map (fun a => d_key (fst a)) (filter (fun a => snd a) (p_acts p)) in
  let inits := flat_map (fun a => match al_kind a with TgtInit _ _ => [al_tgt a] | TgtPlain => [] end) (p_links p) in
  fold_left del_target_key (plain ++ inits) cfg.

(* ---------------------------------------------------------------- the guard of link_invariant
   _initial_input_checks compares keys for EQUALITY only. What it does not see: a target that lies strictly
   inside (or strictly above) a source or another target — a group-valued or class-valued source with a later
   target inside it — and a link whose target is (inside / above) one of its own sources. *)
Definition strictly_comparable (a b : key) : bool := comparable a b && negb (key_eqb a b).

Fixpoint overlap_free (ls : list link) : bool :=
  match ls with
  | [] => true
  | l :: ls' =>
      forallb (fun s => negb (comparable (l_tgt l) s)) (l_src l)
      && forallb (fun l' => negb (strictly_comparable (l_tgt l') (l_tgt l))
                            && forallb (fun s => negb (strictly_comparable (l_tgt l') s)) (l_src l)) ls'
      && overlap_free ls'
  end.

(* ---------------------------------------------------------------- links that were NOT applied
   apply_parsing_links skips a link whose class-valued source is absent ("source not found in namespace": the chosen
   class does not take that parameter); the target then keeps whatever the user / the defaults supplied, yet
   strip_link_target_keys drops it from dumps all the same (finding skipped-link-target-stripped). *)
Definition tgt_present (cfg : val) (a : alink) : bool :=
  has cfg (al_tgt a)
  || match al_kind a with
     | TgtInit d c => match get cfg d with
                      | Some (VList items) => existsb (fun i => has i c) items
                      | _ => false
                      end
     | TgtPlain => false
     end.

Definition skipped_target_present (ls : list alink) (cfg : val) : bool :=
  existsb (fun a => match mapM (get cfg) (al_src a) with None => tgt_present cfg a | Some _ => false end) ls.

(* ---------------------------------------------------------------- repaired behaviour (fixes/C15-*.patch)
   fixes/C15-link-key-prefix-overlap.patch: _initial_input_checks additionally rejects (ValueError) a link whose
   target is equal to, inside or above (a) the target of an earlier link, (b) a source of an earlier link,
   (c) one of its own sources. *)
Definition extra_checks (prev : list alink) (l : link) : bool :=
  forallb (fun t => negb (comparable (l_tgt l) t)) (map al_tgt prev)
  && forallb (fun s => negb (comparable (l_tgt l) s)) (flat_map al_src prev)
  && forallb (fun s => negb (comparable (l_tgt l) s)) (l_src l).

Definition add_link_fixed (p : parser) (l : link) : res parser :=
  if extra_checks (p_links p) l then add_link p l else Err EOther.

Fixpoint add_links_fixed (p : parser) (ls : list link) : parser * list N :=
  match ls with
  | [] => (p, [])
  | l :: ls' =>
      match add_link_fixed p l with
      | Ok p' => let '(q, vs) := add_links_fixed p' ls' in (q, 0%N :: vs)
      | Err EUnmodelled => let '(q, vs) := add_links_fixed p ls' in (q, 2%N :: vs)
      | Err _ => let '(q, vs) := add_links_fixed p ls' in (q, 1%N :: vs)
      end
  end.

Definition build_fixed (ds : list decl) (ls : list link) : parser * list N := add_links_fixed (init_parser ds) ls.

(* fixes/C15-list-item-target-in-dump.patch: strip_link_target_keys also applies del_target_key("init_args.<key>")
   to every Namespace item when the class-typed argument holds a list *)
Definition del_target_fixed (cfg : val) (a : alink) : val :=
  match al_kind a with
  | TgtPlain => cfg
  | TgtInit dest child =>
      let cfg' := del_target_key cfg (al_tgt a) in
      match get cfg' dest with
      | Some (VList items) =>
          set cfg' dest (VList (map (fun i => if is_map i then del_target_key i child else i) items))
      | _ => cfg'
      end
  end.

Definition strip_fixed (p : parser) (cfg : val) : val :=
  let plain := map (fun a => d_key (fst a)) (filter (fun a => snd a) (p_acts p)) in
  fold_left del_target_fixed (p_links p) (fold_left del_target_key plain cfg).

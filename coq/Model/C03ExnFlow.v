(* C03 — exception-flow IR, its nondeterministic big-step semantics (the spec of the analysis) and the
   escape analysis (executable).  Stdlib only.

   The IR is regenerated from jsonargparse/*.py by tie/translate_exn_ir.py (coq/Gen/C03ExnIR.v).
   A raise SITE is a number; every site has one fixed exception class (p_site_class).  Summaries of external
   callees that "raise C or a subclass" are expanded by the translator into one site per concrete class, so the
   semantics below only ever needs "site i raises exactly class (site_class i)".

   exit_on_error is the one piece of state the property distinguishes: `x : bool` is the flag of the parser
   whose method is running; IfX branches on it, WithX b sets it for a call on a freshly created parser
   (get_class_parser(...) creates parsers with exit_on_error=False, ArgumentParser(...) without the keyword
   with True). *)
From JV Require Import Lib.Base.
From Coq Require Import List Bool NArith.
Import ListNotations.
Open Scope N_scope.

Inductive stmt :=
| Skip
| Abrupt                                   (* return / break / continue: leaves the enclosing construct without raising *)
| Raise (site : N)
| Reraise (k : nat)                        (* `raise` / `raise ex` / `raise type(ex)(..)` in the k-th enclosing handler *)
| Call (f : N)
| Seq (a b : stmt)
| Choice (a b : stmt)
| Loop (a : stmt)
| Try (body : stmt) (handlers : list (list N * stmt)) (orelse fin : stmt)
| IfX (a b : stmt)                         (* if exit_on_error then a else b *)
| WithX (b : bool) (s : stmt).             (* run s with exit_on_error := b *)

Record prog := { p_funs : list stmt; p_site_class : list N; p_supers : list N }.

Definition fun_body (P : prog) (f : N) : stmt := nth (N.to_nat f) (p_funs P) Skip.
Definition site_class (P : prog) (i : N) : N := nth (N.to_nat i) (p_site_class P) 0.
(* class c is d or a subclass of d *)
Definition subclass (P : prog) (c d : N) : bool := N.testbit (nth (N.to_nat c) (p_supers P) 0) d.
(* does a handler for the classes cs catch an exception raised at site i? *)
Definition catches (P : prog) (cs : list N) (i : N) : bool := existsb (subclass P (site_class P i)) cs.

(* ------------------------------------------------------------------------------------------------
   Semantics.  outcome of running a statement; `stk` = sites of the exceptions being handled by the
   lexically enclosing handlers of the current function (innermost first). *)
Inductive outcome := ONormal | OAbrupt | ORaise (i : N).

Definition completes (o : outcome) : bool := match o with ORaise _ => false | _ => true end.

Inductive exec (P : prog) : bool -> list N -> stmt -> outcome -> Prop :=
| ESkip x stk : exec P x stk Skip ONormal
| EAbrupt x stk : exec P x stk Abrupt OAbrupt
| ERaise x stk i : exec P x stk (Raise i) (ORaise i)
| EReraise x stk k i : nth_error stk k = Some i -> exec P x stk (Reraise k) (ORaise i)
| ECall x stk f body o : nth_error (p_funs P) (N.to_nat f) = Some body -> exec P x [] body o ->
                    exec P x stk (Call f) (match o with ORaise i => ORaise i | _ => ONormal end)
| ESeqN x stk a b o : exec P x stk a ONormal -> exec P x stk b o -> exec P x stk (Seq a b) o
| ESeqA x stk a b : exec P x stk a OAbrupt -> exec P x stk (Seq a b) OAbrupt
| ESeqR x stk a b i : exec P x stk a (ORaise i) -> exec P x stk (Seq a b) (ORaise i)
| EChoiceL x stk a b o : exec P x stk a o -> exec P x stk (Choice a b) o
| EChoiceR x stk a b o : exec P x stk b o -> exec P x stk (Choice a b) o
| ELoopEnd x stk a : exec P x stk (Loop a) ONormal
| ELoopNext x stk a o o' : exec P x stk a o -> completes o = true -> exec P x stk (Loop a) o' ->
                           exec P x stk (Loop a) o'              (* normal end of the body, `continue`, or a `break`/`return` over-approximated *)
| ELoopAbrupt x stk a : exec P x stk a OAbrupt -> exec P x stk (Loop a) OAbrupt   (* `return` inside the loop *)
| ELoopRaise x stk a i : exec P x stk a (ORaise i) -> exec P x stk (Loop a) (ORaise i)
| ETry x stk b hs oe fin ob oh ofin :
    exec P x stk b ob ->
    handled P x stk hs oe ob oh ->
    exec P x stk fin ofin ->
    exec P x stk (Try b hs oe fin) (match ofin with ONormal => oh | _ => ofin end)
| EIfX x stk a b o : exec P x stk (if x then a else b) o -> exec P x stk (IfX a b) o
| EWithX x stk b s o : exec P b stk s o -> exec P x stk (WithX b s) o
(* what the handlers / else clause make of the outcome of the try body *)
with handled (P : prog) : bool -> list N -> list (list N * stmt) -> stmt -> outcome -> outcome -> Prop :=
| HNormal x stk hs oe o : exec P x stk oe o -> handled P x stk hs oe ONormal o
| HAbrupt x stk hs oe : handled P x stk hs oe OAbrupt OAbrupt
| HUncaught x stk oe i : handled P x stk [] oe (ORaise i) (ORaise i)
| HCaught x stk cs h hs oe i o : catches P cs i = true -> exec P x (i :: stk) h o ->
                                 handled P x stk ((cs, h) :: hs) oe (ORaise i) o
| HSkip x stk cs h hs oe i o : catches P cs i = false -> handled P x stk hs oe (ORaise i) o ->
                               handled P x stk ((cs, h) :: hs) oe (ORaise i) o.

Scheme exec_ind2 := Minimality for exec Sort Prop
  with handled_ind2 := Minimality for handled Sort Prop.
Combined Scheme exec_handled_ind from exec_ind2, handled_ind2.

(* ------------------------------------------------------------------------------------------------
   The analysis.  An abstract result is (set of sites that may escape, may complete normally, may
   complete abruptly).  Sets of sites are bit sets (N). *)
Definition eset := N.
Definition mem (i : N) (s : eset) : bool := N.testbit s i.
Definition single (i : N) : eset := N.shiftl 1 i.
Definition union (a b : eset) : eset := N.lor a b.

Record ares := { a_esc : eset; a_norm : bool; a_abr : bool }.
Definition ajoin (a b : ares) : ares :=
  {| a_esc := union (a_esc a) (a_esc b); a_norm := a_norm a || a_norm b; a_abr := a_abr a || a_abr b |}.
Definition bot : ares := {| a_esc := 0; a_norm := false; a_abr := false |}.

(* the sites of s below n that a handler for cs catches *)
Fixpoint caught_of (P : prog) (cs : list N) (n : nat) (s : eset) : eset :=
  match n with
  | O => 0
  | S n' =>
      let i := N.of_nat n' in
      let c := caught_of P cs n' s in
      if mem i s && catches P cs i then union c (single i) else c
  end.

(* handlers in order: first match wins; a handler nothing reaches is not analysed *)
Section Handlers.
  Variable P : prog.
  Variable nsites : nat.
  Variable f : stmt -> eset -> ares.      (* analysis of a handler body given the set it caught *)
  Fixpoint go_h (hs : list (list N * stmt)) (rem : eset) : ares * eset :=
    match hs with
    | [] => (bot, rem)
    | (cs, h) :: hs' =>
        let c := caught_of P cs nsites rem in
        let rh := if N.eqb c 0 then bot else f h c in
        let '(acc, r') := go_h hs' (N.ldiff rem c) in
        (ajoin rh acc, r')
    end.
End Handlers.

(* per-function summaries, one table per value of exit_on_error *)
Record table := { t_true : list ares; t_false : list ares }.
Definition lookup_nat (T : table) (x : bool) (k : nat) : ares := nth k (if x then t_true T else t_false T) bot.
Definition lookup (T : table) (x : bool) (f : N) : ares := lookup_nat T x (N.to_nat f).

Section Analysis.
  Variable P : prog.
  Variable nsites : nat.
  Variable T : table.

  Fixpoint esc (x : bool) (astk : list eset) (s : stmt) : ares :=
    match s with
    | Skip => {| a_esc := 0; a_norm := true; a_abr := false |}
    | Abrupt => {| a_esc := 0; a_norm := false; a_abr := true |}
    | Raise i => {| a_esc := single i; a_norm := false; a_abr := false |}
    | Reraise k => {| a_esc := nth k astk 0; a_norm := false; a_abr := false |}
    | Call f => let r := lookup T x f in {| a_esc := a_esc r; a_norm := a_norm r || a_abr r; a_abr := false |}
    | Seq a b => let ra := esc x astk a in
                 if a_norm ra then
                   let rb := esc x astk b in
                   {| a_esc := union (a_esc ra) (a_esc rb); a_norm := a_norm rb; a_abr := a_abr ra || a_abr rb |}
                 else ra
    | Choice a b => ajoin (esc x astk a) (esc x astk b)
    | Loop a => let ra := esc x astk a in {| a_esc := a_esc ra; a_norm := true; a_abr := a_abr ra |}
    | IfX a b => if x then esc x astk a else esc x astk b
    | WithX b s' => esc b astk s'
    | Try b hs oe fin =>
        let rb := esc x astk b in
        let roe := if a_norm rb then esc x astk oe else bot in
        let '(rh, rem) := go_h P nsites (fun h c => esc x (c :: astk) h) hs (a_esc rb) in
        let rfin := esc x astk fin in
        let oh_norm := a_norm roe || a_norm rh in
        let oh_abr := a_abr rb || a_abr roe || a_abr rh in
        {| a_esc := union (union (union rem (a_esc rh)) (a_esc roe)) (a_esc rfin);
           a_norm := a_norm rfin && oh_norm;
           a_abr := (a_norm rfin && oh_abr) || a_abr rfin |}
    end.

  (* T is a post-fixpoint: the analysis of every body is below its summary *)
  Definition subset (a b : eset) : bool := N.eqb (N.ldiff a b) 0.
  Definition ares_le (a b : ares) : bool :=
    subset (a_esc a) (a_esc b) && (negb (a_norm a) || a_norm b) && (negb (a_abr a) || a_abr b).

  Fixpoint check_funs (x : bool) (fs : list stmt) (k : nat) : bool :=
    match fs with
    | [] => true
    | body :: fs' => ares_le (esc x [] body) (lookup_nat T x k) && check_funs x fs' (S k)
    end.

  (* every raise site mentioned is below nsites (so that caught_of sees every member) *)
  Fixpoint sites_bounded (s : stmt) : bool :=
    match s with
    | Raise i => N.ltb i (N.of_nat nsites)
    | Seq a b | Choice a b | IfX a b => sites_bounded a && sites_bounded b
    | Loop a | WithX _ a => sites_bounded a
    | Try b hs oe fin =>
        sites_bounded b && forallb (fun ch => sites_bounded (snd ch)) hs && sites_bounded oe && sites_bounded fin
    | _ => true
    end.

  Definition postfix : bool :=
    check_funs true (p_funs P) O && check_funs false (p_funs P) O && forallb sites_bounded (p_funs P).
End Analysis.

(* Kleene iteration producing a candidate table; `postfix` then CHECKS it (the theorems only need the check) *)
Definition step_table (P : prog) (nsites : nat) (T : table) : table :=
  {| t_true := map (fun body => esc P nsites T true [] body) (p_funs P);
     t_false := map (fun body => esc P nsites T false [] body) (p_funs P) |}.

Fixpoint zip_join (a b : list ares) : list ares :=
  match a, b with x :: a', y :: b' => ajoin x y :: zip_join a' b' | _, _ => a end.
Definition join_table (A B : table) : table :=
  {| t_true := zip_join (t_true A) (t_true B); t_false := zip_join (t_false A) (t_false B) |}.

Fixpoint iterate (P : prog) (nsites : nat) (rounds : nat) (T : table) : table :=
  match rounds with
  | O => T
  | S r => iterate P nsites r (join_table T (step_table P nsites T))
  end.

Definition init_table (P : prog) : table :=
  {| t_true := map (fun _ => bot) (p_funs P); t_false := map (fun _ => bot) (p_funs P) |}.

(* members of a bit set below n, as a list *)
Fixpoint members (n : nat) (s : eset) : list N :=
  match n with
  | O => []
  | S n' => let i := N.of_nat n' in if mem i s then members n' s ++ [i] else members n' s
  end.

(* the escape set of an entry point *)
Definition escapes (P : prog) (nsites : nat) (T : table) (x : bool) (f : N) : eset := a_esc (lookup T x f).

(* ------------------------------------------------------------------------------------------------
   A deterministic interpreter driven by an oracle (one bit per Choice / Loop decision).  It only ever
   follows executions of `exec` (Proofs/C03ExnFlowProofs.run_sound), so a concrete oracle evaluated by
   vm_compute is a WITNESS that an execution exists — used for the refutations and the non-vacuity
   examples.  Choice a b: true = a.  Loop: false = leave, true = one more iteration. *)
Definition out_of_call (o : outcome) : outcome := match o with ORaise i => ORaise i | _ => ONormal end.

Fixpoint first_handler (P : prog) (hs : list (list N * stmt)) (i : N) : option stmt :=
  match hs with
  | [] => None
  | (cs, h) :: r => if catches P cs i then Some h else first_handler P r i
  end.

Fixpoint run (P : prog) (fuel : nat) (x : bool) (stk : list N) (s : stmt) (orc : list bool) : option (outcome * list bool) :=
  match fuel with
  | O => None
  | S fuel' =>
      match s with
      | Skip => Some (ONormal, orc)
      | Abrupt => Some (OAbrupt, orc)
      | Raise i => Some (ORaise i, orc)
      | Reraise k => match nth_error stk k with Some i => Some (ORaise i, orc) | None => None end
      | Call f =>
          match nth_error (p_funs P) (N.to_nat f) with
          | None => None
          | Some body =>
              match run P fuel' x [] body orc with
              | Some (o, orc') => Some (out_of_call o, orc')
              | None => None
              end
          end
      | Seq a b =>
          match run P fuel' x stk a orc with
          | Some (ONormal, orc') => run P fuel' x stk b orc'
          | r => r
          end
      | Choice a b =>
          match orc with
          | [] => None
          | c :: orc' => run P fuel' x stk (if c then a else b) orc'
          end
      | Loop a =>
          match orc with
          | [] => None
          | false :: orc' => Some (ONormal, orc')
          | true :: orc' =>
              match run P fuel' x stk a orc' with
              | Some (ONormal, orc'') => run P fuel' x stk (Loop a) orc''
              | r => r
              end
          end
      | Try b hs oe fin =>
          match run P fuel' x stk b orc with
          | None => None
          | Some (ob, orc1) =>
              let rh := match ob with
                        | ONormal => run P fuel' x stk oe orc1
                        | OAbrupt => Some (OAbrupt, orc1)
                        | ORaise i => match first_handler P hs i with
                                      | None => Some (ORaise i, orc1)
                                      | Some h => run P fuel' x (i :: stk) h orc1
                                      end
                        end in
              match rh with
              | None => None
              | Some (oh, orc2) =>
                  match run P fuel' x stk fin orc2 with
                  | None => None
                  | Some (ofin, orc3) => Some (match ofin with ONormal => oh | _ => ofin end, orc3)
                  end
              end
          end
      | IfX a b => run P fuel' x stk (if x then a else b) orc
      | WithX b s' => run P fuel' b stk s' orc
      end
  end.

(* Model of jsonargparse._namespace.Namespace in the shape of the code (bugs included).
   A Namespace object is an ordered association list from *stored* attribute names (clash-marked,
   exactly as add_clash_mark leaves them in __dict__) to values. The mutable object graph is
   represented by an immutable tree: "the parent object" returned by _parse_key becomes a walk
   verdict plus the path to it. Executable definitions only. *)
From JV Require Import Lib.Base.

Inductive val :=
| VInt (z : Z)
| VStr (s : str)
| VNone
| VList (l : list val)
| VTup (l : list val)
| VDict (d : list (str * val))
| VNs (d : list (str * val)).

Definition alist := list (str * val).

Fixpoint aget (k : str) (d : alist) : option val :=
  match d with
  | [] => None
  | (k', v) :: d' => if str_eqb k k' then Some v else aget k d'
  end.

(* dict/__dict__ assignment: replace in place, else append (insertion order is observable) *)
Fixpoint aset (k : str) (v : val) (d : alist) : alist :=
  match d with
  | [] => [(k, v)]
  | (k', v') :: d' => if str_eqb k k' then (k', v) :: d' else (k', v') :: aset k v d'
  end.

Fixpoint adel (k : str) (d : alist) : alist :=
  match d with
  | [] => []
  | (k', v') :: d' => if str_eqb k k' then d' else (k', v') :: adel k d'
  end.

Definition ahas (k : str) (d : alist) : bool :=
  match aget k d with Some _ => true | None => false end.

(* ---- keys ------------------------------------------------------------------------------- *)
Definition ZW : N := 8203.   (* clash_mark = "​" *)
Definition DOT : N := 46.
Definition SPACE : N := 32.

Fixpoint mem_N (x : N) (l : list N) : bool :=
  match l with [] => false | y :: l' => N.eqb x y || mem_N x l' end.

(* key.split(".") *)
Fixpoint split_dot_aux (s : str) (cur : str) : list str :=
  match s with
  | [] => [rev cur]
  | c :: s' => if N.eqb c DOT then rev cur :: split_dot_aux s' [] else split_dot_aux s' (c :: cur)
  end.
Definition split_key (s : str) : list str := split_dot_aux s [].

Definition is_empty (s : str) : bool := match s with [] => true | _ => false end.
Definition is_nil {A} (l : list A) : bool := match l with [] => true | _ => false end.

Inductive res (A : Type) := Ok (a : A) | Fail.
Arguments Ok {A}. Arguments Fail {A}.

Section WithClash.
Variable clash : list str.   (* clash_names = set(dir(Namespace)), from Gen/C11Clash.v *)

Definition mark (k : str) : str := if mem_str k clash then ZW :: k else k.

(* del_clash_mark: key[0] == clash_mark (an empty key would be an IndexError; never stored) *)
Definition unmark (k : str) : str :=
  match k with
  | c :: k' => if N.eqb c ZW then k' else k
  | [] => []
  end.

(* _parse_key, first half: None = NSKeyError (space / empty segment); else the marked segments *)
Definition parse_key (key : str) : option (list str) :=
  if mem_N SPACE key then None
  else let ks := split_key key in
       if existsb is_empty ks then None else Some (map mark ks).

(* _parse_key, second half: follow key_split[:-1] from `cur`. Result: the parent object
   (a VNs or VDict value), or None when the code returns parent_ns = None. `hasattr(dict, subkey)`
   is taken to be False: keys that are attribute names of dict but not of Namespace ('copy',
   'clear', ...) are outside the modelled key alphabet. *)
Fixpoint walk (ks : list str) (cur : val) : option val :=
  match ks with
  | [] => Some cur
  | k :: ks' =>
      let next (d : alist) :=
        match aget k d with
        | Some (VNs d') => walk ks' (VNs d')
        | Some (VDict d') => walk ks' (VDict d')
        | Some _ => None     (* a scalar/list: return None; a None value: falls out as None too *)
        | None => None
        end in
      match cur with
      | VNs d => next d
      | VDict d => next d
      | _ => None
      end
  end.

(* does the walk meet a dict (guard class: path through a dict-valued leaf)? *)
Fixpoint walk_meets_dict (ks : list str) (cur : val) : bool :=
  match ks with
  | [] => match cur with VDict _ => true | _ => false end
  | k :: ks' =>
      match cur with
      | VNs d => match aget k d with Some v => walk_meets_dict ks' v | None => false end
      | VDict _ => true
      | _ => false
      end
  end.

(* functional update of the object at path ks (which exists: walk succeeded) *)
Fixpoint update_at (ks : list str) (f : val -> val) (cur : val) : val :=
  match ks with
  | [] => f cur
  | k :: ks' =>
      match cur with
      | VNs d => match aget k d with Some v => VNs (aset k (update_at ks' f v) d) | None => cur end
      | VDict d => match aget k d with Some v => VDict (aset k (update_at ks' f v) d) | None => cur end
      | _ => cur
      end
  end.

(* _create_nested_namespace(parent_key): every segment that is not a Namespace is replaced by a
   fresh empty one *)
Fixpoint create_nested (ks : list str) (d : alist) : alist :=
  match ks with
  | [] => d
  | k :: ks' =>
      let sub := match aget k d with Some (VNs d') => d' | _ => [] end in
      aset k (VNs (create_nested ks' sub)) d
  end.

Definition split_last (ks : list str) : list str * str := (removelast ks, last ks []).

Definition put (leaf : str) (item : val) (parent : val) : val :=
  match parent with
  | VNs d => VNs (aset leaf item d)       (* setattr(parent_ns, leaf_key, item) *)
  | VDict d => VDict (aset leaf item d)   (* parent_ns[leaf_key] = item  (marked leaf key!) *)
  | v => v
  end.

(* __setitem__ *)
Definition ns_setitem (key : str) (item : val) (root : alist) : res alist :=
  match parse_key key with
  | None => Fail
  | Some ks =>
      let '(pks, leaf) := split_last ks in
      let root' := match walk pks (VNs root) with
                   | Some _ => root
                   | None => create_nested pks root
                   end in
      match update_at pks (put leaf item) (VNs root') with
      | VNs r => Ok r
      | _ => Fail
      end
  end.

(* __setattr__: "." in name -> __setitem__, else plain attribute with the clash mark, unchecked *)
Definition ns_setattr (name : str) (item : val) (root : alist) : res alist :=
  if mem_N DOT name then ns_setitem name item root
  else Ok (aset (mark name) item root).

(* _parse_required_key + getattr: a dict parent never "has" the attribute *)
Definition ns_getitem (key : str) (root : alist) : res val :=
  match parse_key key with
  | None => Fail
  | Some ks =>
      let '(pks, leaf) := split_last ks in
      match walk pks (VNs root) with
      | Some (VNs d) => match aget leaf d with Some v => Ok v | None => Fail end
      | _ => Fail
      end
  end.

Definition ns_contains (key : str) (root : alist) : bool :=
  match ns_getitem key root with Ok _ => true | Fail => false end.

Definition ns_get (key : str) (default : val) (root : alist) : val :=
  match ns_getitem key root with Ok v => v | Fail => default end.

(* __delitem__: del parent_ns.__dict__[leaf_key]; a None or dict parent raises, as does a
   missing leaf; the state is unchanged then *)
Definition ns_delitem (key : str) (root : alist) : res alist :=
  match parse_key key with
  | None => Fail
  | Some ks =>
      let '(pks, leaf) := split_last ks in
      match walk pks (VNs root) with
      | Some (VNs d) =>
          if ahas leaf d then
            match update_at pks (fun p => match p with VNs d' => VNs (adel leaf d') | v => v end) (VNs root) with
            | VNs r => Ok r
            | _ => Fail
            end
          else Fail
      | _ => Fail
      end
  end.

(* pop: `if not parent_ns: return default` (None, or an EMPTY namespace/dict);
   a non-empty dict parent raises AttributeError (no __dict__) *)
Definition ns_pop (key : str) (default : val) (root : alist) : res (val * alist) :=
  match parse_key key with
  | None => Fail
  | Some ks =>
      let '(pks, leaf) := split_last ks in
      match walk pks (VNs root) with
      | None => Ok (default, root)
      | Some (VNs []) => Ok (default, root)
      | Some (VDict []) => Ok (default, root)
      | Some (VDict _) => Fail
      | Some (VNs d) =>
          match aget leaf d with
          | None => Ok (default, root)
          | Some v =>
              match update_at pks (fun p => match p with VNs d' => VNs (adel leaf d') | x => x end) (VNs root) with
              | VNs r => Ok (v, r)
              | _ => Fail
              end
          end
      | Some _ => Fail
      end
  end.

(* items(branches): depth first, insertion order, branch before its children; keys unmarked
   (the joined sub-key is passed through del_clash_mark once more, as the code does).
   Structural recursion on the value tree: no fuel. *)
Definition join_dot (a b : str) : str := a ++ DOT :: b.

Fixpoint ns_items_v (branches : bool) (v : val) : list (str * val) :=
  match v with
  | VNs d =>
      flat_map (fun kv =>
        let key := unmark (fst kv) in
        match snd kv with
        | VNs d' =>
            (if branches then [(key, VNs d')] else []) ++
            map (fun sk => (join_dot key (unmark (fst sk)), snd sk)) (ns_items_v branches (snd kv))
        | x => [(key, x)]
        end) d
  | _ => []
  end.

Definition ns_items (branches : bool) (d : alist) : list (str * val) := ns_items_v branches (VNs d).

(* update(value, key, only_unset) *)
Definition ns_update_value (v : val) (key : option str) (only_unset : bool) (root : alist) : res alist :=
  match key with
  | None => Fail
  | Some [] => Fail                      (* `if not key` *)
  | Some k =>
      if only_unset && ns_contains k root then
        (* `key not in self` still parses the key: an invalid key is simply "not in" *)
        Ok root
      else ns_setitem k v root
  end.

Definition ns_update_ns (src : alist) (key : option str) (only_unset : bool) (root : alist)
  : res alist :=
  let prefix := match key with Some (c :: k) => (c :: k) ++ [DOT] | _ => [] end in
  fold_left (fun acc kv =>
    match acc with
    | Fail => Fail
    | Ok r =>
        let k := prefix ++ fst kv in
        if only_unset && ns_contains k r then Ok r else ns_setitem k (snd kv) r
    end) (ns_items false src) (Ok root).

(* as_dict *)
Fixpoint all_ns (l : list val) : bool :=
  match l with [] => true | VNs _ :: l' => all_ns l' | _ => false end.

Fixpoint ns_as_dict_v (v : val) : val :=
  match v with
  | VNs d =>
      VDict (map (fun kv =>
        (unmark (fst kv),
         match snd kv with
         | VNs _ => ns_as_dict_v (snd kv)
         | VDict dd =>
             if negb (is_nil dd) && all_ns (map snd dd)
             then VDict (map (fun kv' => (fst kv', match snd kv' with VNs _ => ns_as_dict_v (snd kv') | x => x end)) dd)
             else VDict dd
         | VList l =>
             if negb (is_nil l) && all_ns l
             then VList (map (fun x => match x with VNs _ => ns_as_dict_v x | y => y end) l) else VList l
         | x => x
         end)) d)
  | x => x
  end.

Definition ns_as_dict (d : alist) : val := ns_as_dict_v (VNs d).

(* Namespace(dict): for key, val in dict.items(): self[key] = val *)
Definition ns_init_from_dict (d : alist) : res alist :=
  fold_left (fun acc kv => match acc with Fail => Fail | Ok r => ns_setitem (fst kv) (snd kv) r end)
            d (Ok []).

(* step-by-step reading: functools.reduce(lambda o, seg: o[seg], key.split("."), ns). A Namespace is read with
   its __getitem__ (one segment, so the key checks and the clash mark apply), a dict with dict.__getitem__
   (plain user key); anything else cannot be subscripted with a string. *)
Fixpoint get_steps (segs : list str) (cur : val) : res val :=
  match segs with
  | [] => Ok cur
  | sg :: segs' =>
      match cur with
      | VNs d => match ns_getitem sg d with Ok v => get_steps segs' v | Fail => Fail end
      | VDict dd => match aget sg dd with Some v => get_steps segs' v | None => Fail end
      | _ => Fail
      end
  end.

Definition ns_get_steps (key : str) (root : alist) : res val := get_steps (split_key key) (VNs root).

(* dict_to_namespace(d) = expand_dict(recreate_branches(d)): every dict (all our keys are str) becomes
   Namespace-from-kwargs, dicts that are ELEMENTS of a list value too (one list level, as the code does);
   Namespace-from-kwargs is argparse's loop of setattr, i.e. Namespace.__setattr__ for every entry in order.
   setattr raises only for a dotted name with a space or an empty segment: then the whole call raises. *)
Definition kwarg_ok (k : str) : bool :=
  negb (mem_N DOT k) || match parse_key k with Some _ => true | None => false end.

Fixpoint dict_keys_ok (v : val) : bool :=
  match v with
  | VDict dd =>
      forallb (fun kv => kwarg_ok (fst kv) &&
                 match snd kv with
                 | VDict _ => dict_keys_ok (snd kv)
                 | VList l => forallb (fun e => match e with VDict _ => dict_keys_ok e | _ => true end) l
                 | _ => true
                 end) dd
  | _ => true
  end.

Fixpoint expand_dict (v : val) : val :=
  match v with
  | VDict dd =>
      let kw := map (fun kv => (fst kv,
                       match snd kv with
                       | VDict _ => expand_dict (snd kv)
                       | VList l => VList (map (fun e => match e with VDict _ => expand_dict e | _ => e end) l)
                       | x => x
                       end)) dd in
      VNs (fold_left (fun acc kv => match ns_setattr (fst kv) (snd kv) acc with Ok r => r | Fail => acc end) kw [])
  | x => x
  end.

Definition ns_from_dict (d : val) : res alist :=
  match d with
  | VDict _ => if dict_keys_ok d then match expand_dict d with VNs r => Ok r | _ => Fail end else Fail
  | _ => Fail
  end.

End WithClash.

(* Python's == on the modelled values. Namespace.__eq__ (argparse) is vars(self) == vars(other) for two
   Namespaces and False otherwise; dict equality does not depend on insertion order (keys are unique in a
   __dict__ / dict: same size + every entry of the left found equal in the right); list and tuple equality is
   element-wise in order; a list never equals a tuple. *)
Fixpoint py_eq (a b : val) {struct a} : bool :=
  let fix seq (x y : list val) {struct x} : bool :=
    match x, y with
    | [], [] => true
    | u :: x', w :: y' => py_eq u w && seq x' y'
    | _, _ => false
    end in
  let fix sub (x : list (str * val)) (y : list (str * val)) {struct x} : bool :=
    match x with
    | [] => true
    | (k, u) :: x' => match aget k y with Some w => py_eq u w | None => false end && sub x' y
    end in
  match a, b with
  | VInt x, VInt y => Z.eqb x y
  | VStr x, VStr y => str_eqb x y
  | VNone, VNone => true
  | VList x, VList y => seq x y
  | VTup x, VTup y => seq x y
  | VDict x, VDict y => Nat.eqb (length x) (length y) && sub x y
  | VNs x, VNs y => Nat.eqb (length x) (length y) && sub x y
  | _, _ => false
  end.

(* C09 — the parser as a state machine over the state it carries between calls.

   Carried state (what survives a call on the real objects, jsonargparse 4.38):
     per root parser   print_config request   parser.print_config           _actions.py:256-290
                       last argv              parser.args (and sub-parsers) _core.py:447, read at _actions.py:414
                       --print_shtab added    ShtabAction in parser._actions _completions.py:39-41
                       stored default of d    action.sub_add_kwargs["default"] of a dataclass-typed option that was
                                              added from a signature (non-empty sub_add_kwargs, handed to
                                              adapt_typehints by reference), written at _typehints.py:1052-1054
     process wide      parse_kwargs           ContextVar, set / never reset  _actions.py:676-680
                       subclass_arg_parser    ContextVar, set / never reset  _typehints.py:438-442
                       dump_kwargs            ContextVar, set / never reset  _typehints.py:1341-1344
                       help_skip              'skip' in the CLASS-level dict _ActionHelpClassPath.sub_add_kwargs
                                              (_actions.py:342, written at :410, read at :411)

   step s op = commit (writes) s, out   where (out, writes) = exec (view s op) op:
   `view` is everything an operation READS from the carried state before it has written it itself
   (request, shtab flag and stored default of d of the target parser, help_skip); `writes` is everything it
   leaves behind.
   parse_kwargs is read inside parse_args (sub-command call, _actions.py:673) but only after the same
   call has set it: it is threaded locally (cv_pk) and starts from the value written on entry.

   Everything else an answer depends on (the values themselves, help texts, messages) is a function
   of (declaration, op) only and is not represented: `out` records which path the call took — and the value of
   d, the one value that the carried state can change. *)
From JV Require Import Lib.Base.

Inductive kind := KInt | KStr.
(* a class-typed option: its name, the base class of its type, whether the type is Callable[[int], <base>], and the
   class of its default (None: the default is None; Some c: the default is a class spec of c WITH init_args) *)
Record copt := { co_name : str; co_base : str; co_callable : bool; co_default : option str }.
(* pd_dc: the parser has the option d : Optional[Data], Data a dataclass with fields a : int = 0, b : int = 0,
   added from a signature (add_class_arguments), so that the action's sub_add_kwargs is the non-empty dict that
   adapt_typehints receives by reference *)
Record pdecl := { pd_cfg : bool; pd_opts : list (str * kind); pd_req : list str; pd_cls : list copt; pd_dc : bool }.
Definition dv := (str * str)%type.   (* a value of d: fields a, b as decimal literals *)
Record decl := { d_root : pdecl; d_subreq : bool; d_subs : list (str * pdecl) }.

Inductive tok :=
| TOpt (n v : str)                 (* --n=v *)
| TFlag (n : str)                  (* --n *)
| TCfg (items : list (str * str))  (* --cfg=<JSON object rendered from dotted items> *)
| TPos (n : str).                  (* positional: sub-command name *)

Inductive opk :=
| PArgs (argv : list tok)
| PObject (items : list (str * str))
| PString (items : list (str * str))
| PEnv (items : list (str * str))
| GetDefaults
| Dump (d : option dv) (corrupt skip_none skip_default skip_validation : bool)   (* d: the value of d in cfg *)
| Validate (d : option dv) (corrupt : bool)
| Instantiate
| PArgsKw (env : option bool) (dflt : bool) (argv : list tok).   (* parse_args(argv, env=env, defaults=dflt) *)
Record op := { op_p : nat; op_k : opk }.

(* ---- which of the proposed repairs the tree under test contains (all false = the pinned tree) ----
   fx_pc  fixes/C09-print-config-pending.patch   parse_args drops a left-over request in a `finally`
   fx_sh  fixes/C09-lazy-print-shtab-key.patch   the lazily added --print_shtab action is no configuration key
                                                 (filter_default_actions hides it, like --help / --print_config)
   fx_hs  fixes/C09-class-help-skip-shared.patch the class help works on a copy of sub_add_kwargs
   fx_dd  fixes/C09-dataclass-default-carried.patch  the dataclass branch of adapt_typehints passes prev_val as
                                                 default through a copy instead of writing it into the action's dict *)
Record fixes := { fx_pc : bool; fx_sh : bool; fx_hs : bool; fx_dd : bool }.
Definition pinned : fixes := {| fx_pc := false; fx_sh := false; fx_hs := false; fx_dd := false |}.
Definition repaired : fixes := {| fx_pc := true; fx_sh := true; fx_hs := true; fx_dd := true |}.

(* ---- carried state ---- *)
Record flags := { f_sn : bool; f_sd : bool; f_yc : bool }.
Inductive pending := PNone | PFull (key : option str) (fl : flags) | PBroken (fl : flags).
Inductive label := LP (i : nat) (sub : str) | LInner.
(* ps_ddef: sub_add_kwargs["default"] of the action of d (written at _typehints.py:1052-1054) *)
Record pstate := { ps_pending : pending; ps_args : list (str * list tok); ps_shtab : bool; ps_ddef : option dv }.
Record state := { st_ps : list pstate;
                  st_pk : option (option bool * bool);
                  st_sap : option label;
                  st_dk : option (bool * bool);
                  st_help_skip : bool }.

Definition ps0 := {| ps_pending := PNone; ps_args := []; ps_shtab := false; ps_ddef := None |}.
Definition init (n : nat) : state :=
  {| st_ps := repeat ps0 n; st_pk := None; st_sap := None; st_dk := None; st_help_skip := false |}.

(* ---- outcomes: the path a call took ---- *)
Inductive errk := EPre | EStaleKey | EBroken | EPrintFail | EPost | EHelpArgs | EUnknown (k : str).
Inductive out :=
| OOk (shtab_key : bool) (d : option dv) (subkw : option (option bool * bool))
    (* d: the value of d in the result; subkw: the (env, defaults) keywords the sub-command parser was called
       with when the command line named a sub-command — READ from the parse_kwargs context variable
       (_actions.py:680), they decide which defaults / environment values the sub-command namespace holds *)
| OErr (e : errk)
| OExc
| OExit2
| OHelp (sub : str)
| OHelpCls (skip : bool)
| OPrint (key : option str) (fl : flags) (nested : bool) (d : option dv).   (* d: the value of d printed *)

(* ---- strings ---- *)
Definition s_help : str := [104;101;108;112]%N.
Definition s_print_config : str := [112;114;105;110;116;95;99;111;110;102;105;103]%N.
Definition s_print_shtab : str := [112;114;105;110;116;95;115;104;116;97;98]%N.
Definition s_bash : str := [98;97;115;104]%N.
Definition s_Base : str := [66;97;115;101]%N.
Definition s_SubA : str := [83;117;98;65]%N.
Definition s_SubB : str := [83;117;98;66]%N.
Definition s_a : str := [97]%N.
Definition s_b : str := [98]%N.
Definition s_c : str := [99]%N.
Definition s_d : str := [100]%N.
Definition s_z : str := [122]%N.
Definition s_0 : str := [48]%N.
Definition s_Fac : str := [99;48;57;95;99;108;97;115;115;101;115;46;70;97;99]%N.   (* c09_classes.Fac *)
Definition dv0 : dv := (s_0, s_0).
Definition s_LBase : str := [76;66;97;115;101]%N.
Definition s_WD : str := [87;68]%N.
Definition s_WO : str := [87;79]%N.
Definition s_x : str := [120]%N.
Definition s_SubX : str := [99;48;57;95;101;120;116;114;97;46;83;117;98;88]%N.   (* c09_extra.SubX *)
Definition s_comments : str := [99;111;109;109;101;110;116;115]%N.
Definition s_skip_default : str := [115;107;105;112;95;100;101;102;97;117;108;116]%N.
Definition s_skip_null : str := [115;107;105;112;95;110;117;108;108]%N.

Definition is_digit (c : N) : bool := (48 <=? c)%N && (c <=? 57)%N.
Definition is_int (s : str) : bool :=
  match s with
  | [] => false
  | c :: r => if N.eqb c 45 then (match r with [] => false | _ => forallb is_digit r end)
              else forallb is_digit s
  end.
Definition val_ok (k : kind) (v : str) : bool := match k with KInt => is_int v | KStr => true end.

(* split at the first '.' *)
Fixpoint split_dot (s : str) : str * option str :=
  match s with
  | [] => ([], None)
  | c :: r => if N.eqb c 46 then ([], Some r)
              else let '(h, t) := split_dot r in (c :: h, t)
  end.
(* split at every ',' *)
Fixpoint split_comma (s : str) (cur : str) : list str :=
  match s with
  | [] => [rev cur]
  | c :: r => if N.eqb c 44 then rev cur :: split_comma r [] else split_comma r (c :: cur)
  end.

Fixpoint alookup {A} (k : str) (l : list (str * A)) : option A :=
  match l with [] => None | (k', v) :: r => if str_eqb k k' then Some v else alookup k r end.
Fixpoint aset {A} (k : str) (v : A) (l : list (str * A)) : list (str * A) :=
  match l with
  | [] => [(k, v)]
  | (k', v') :: r => if str_eqb k k' then (k, v) :: r else (k', v') :: aset k v r
  end.
Definition find_cls (n : str) (pd : pdecl) : option copt :=
  find (fun c => str_eqb (co_name c) n) (pd_cls pd).

(* the component classes of the harness (tie/impl/c09_classes.py): name, (base it belongs to, is it a subclass of
   that base, settable __init__ parameters).
   Fac is a callable class that is no Base: fine for Callable[[int], Base] (all its parameters, nothing skipped),
   rejected for Base and by the class help.
   WD(o: dict, a: int = 1) and WO(o: Data, a: int = 1) are the subclasses of LBase; their parameter o is the target
   of a parse-time link from the group g (link_arguments("g", "lm.init_args.o"), no compute_fn) and not listed.
   LBase itself takes no parameter and is not listed: init_args without a class are rejected. *)
Definition class_table : list (str * (str * bool * list (str * kind))) :=
  [ (s_Base, (s_Base, true, [(s_a, KInt)]));
    (s_SubA, (s_Base, true, [(s_a, KInt); (s_c, KInt)]));
    (s_SubB, (s_Base, true, [(s_a, KInt); (s_b, KStr)]));
    (s_Fac, (s_Base, false, [(s_a, KInt); (s_z, KInt)]));
    (s_SubX, (s_Base, true, [(s_a, KInt); (s_x, KInt)]));   (* lives in a module imported only through its class_path *)
    (s_WD, (s_LBase, true, [(s_a, KInt)]));
    (s_WO, (s_LBase, true, [(s_a, KInt)])) ].
(* parameters settable through an option of type <base> (callable = false) or Callable[[int], <base>] (true): for a
   subclass of the base the first positional parameter is supplied by the caller and skipped *)
Definition cls_for_opt (base : str) (callable : bool) (c : str) : option (list (str * kind)) :=
  match alookup c class_table with
  | None => None
  | Some (b, sub, ps) =>
      if negb (str_eqb b base) then None
      else if sub then Some (if callable then tl ps else ps) else if callable then Some ps else None
  end.
(* the class help only knows subclasses of the base *)
Definition cls_for_help (base : str) (skip : bool) (c : str) : option (list (str * kind)) :=
  match alookup c class_table with
  | Some (b, true, ps) => if str_eqb b base then Some (if skip then tl ps else ps) else None
  | _ => None
  end.

(* print_config flags: "", comments, skip_default, skip_null separated by commas (_actions.py:258-265) *)
Fixpoint parse_flags (fs : list str) (acc : flags) : option flags :=
  match fs with
  | [] => Some acc
  | f :: r =>
      if str_eqb f [] then parse_flags r acc
      else if str_eqb f s_comments then parse_flags r {| f_sn := f_sn acc; f_sd := f_sd acc; f_yc := true |}
      else if str_eqb f s_skip_default then parse_flags r {| f_sn := f_sn acc; f_sd := true; f_yc := f_yc acc |}
      else if str_eqb f s_skip_null then parse_flags r {| f_sn := true; f_sd := f_sd acc; f_yc := f_yc acc |}
      else None
  end.
Definition no_flags := {| f_sn := false; f_sd := false; f_yc := false |}.

Definition key_is_d (k : str) : bool := str_eqb (fst (split_dot k)) s_d.
Definition items_mention_d (items : list (str * str)) : bool := existsb (fun kv => key_is_d (fst kv)) items.

(* ---- what one parse has seen so far (local to a call) ---- *)
Record ictx := { ic_sel : list (str * str);   (* class option -> selected class *)
                 ic_given : list str;          (* dotted names that received a value *)
                 ic_mention : list str;        (* sub-commands addressed through dotted keys *)
                 ic_shtab_key : bool;          (* the key print_shtab was accepted *)
                 ic_unknown : option str;      (* a dict-like source had a key no action claims: kept in the
                                                  namespace, rejected by check_values ("Key ... is not expected") *)
                 ic_d : option dv;             (* the value of d in the namespace of this call *)
                 ic_dw : option dv }.          (* the last value this call wrote into sub_add_kwargs["default"] *)
Definition ic0 := {| ic_sel := []; ic_given := []; ic_mention := []; ic_shtab_key := false; ic_unknown := None;
                     ic_d := None; ic_dw := None |}.

Definition is_unk (c : ictx) : bool := match ic_unknown c with Some _ => true | None => false end.

Definition with_sel (x : list (str * str)) (c : ictx) : ictx :=
  {| ic_sel := x; ic_given := ic_given c; ic_mention := ic_mention c; ic_shtab_key := ic_shtab_key c;
     ic_unknown := ic_unknown c; ic_d := ic_d c; ic_dw := ic_dw c |}.
Definition give (n : str) (c : ictx) : ictx :=
  {| ic_sel := ic_sel c; ic_given := n :: ic_given c; ic_mention := ic_mention c; ic_shtab_key := ic_shtab_key c;
     ic_unknown := ic_unknown c; ic_d := ic_d c; ic_dw := ic_dw c |}.
Definition mention (h : str) (c : ictx) : ictx :=
  {| ic_sel := ic_sel c; ic_given := ic_given c; ic_mention := h :: ic_mention c; ic_shtab_key := ic_shtab_key c;
     ic_unknown := ic_unknown c; ic_d := ic_d c; ic_dw := ic_dw c |}.
Definition with_shtab_key (c : ictx) : ictx :=
  {| ic_sel := ic_sel c; ic_given := ic_given c; ic_mention := ic_mention c; ic_shtab_key := true;
     ic_unknown := ic_unknown c; ic_d := ic_d c; ic_dw := ic_dw c |}.
Definition with_unknown (k : str) (c : ictx) : ictx :=
  {| ic_sel := ic_sel c; ic_given := ic_given c; ic_mention := ic_mention c; ic_shtab_key := ic_shtab_key c;
     ic_unknown := match ic_unknown c with Some x => Some x | None => Some k end; ic_d := ic_d c; ic_dw := ic_dw c |}.
Definition with_d (x : option dv) (c : ictx) : ictx :=
  {| ic_sel := ic_sel c; ic_given := ic_given c; ic_mention := ic_mention c; ic_shtab_key := ic_shtab_key c;
     ic_unknown := ic_unknown c; ic_d := x; ic_dw := ic_dw c |}.
Definition with_dw (x : option dv) (c : ictx) : ictx :=
  {| ic_sel := ic_sel c; ic_given := ic_given c; ic_mention := ic_mention c; ic_shtab_key := ic_shtab_key c;
     ic_unknown := ic_unknown c; ic_d := ic_d c; ic_dw := x |}.

(* IBad carries the context at the point of failure: what the call wrote before failing stays written *)
Inductive ires := IOk (c : ictx) | IBad (c : ictx) | IUnknown.

(* a value for d (one field from argv, or a mapping with one or both fields from a dict-like source), adapted by the
   dataclass branch of adapt_typehints (_typehints.py:1050-1066) with prev_val = the value of d in the namespace:
     pinned    prev_val a namespace: sub_add_kwargs["default"] := prev_val (the object), WRITTEN into the action's own dict;
               the fields not given come from sub_add_kwargs["default"] — whoever wrote it, dd0 = as carried in —
               else from the dataclass;
     repaired  the default travels in a copy: fields not given come from prev_val, else from the dataclass.
   bad: the value names a field Data does not have. *)
Definition d_assign (fx : fixes) (dd0 : option dv) (inplace : bool) (c : ictx) (fa fb : option str) (bad : bool) : ires :=
  let base := match ic_d c with
              | Some cur => cur
              | None => if fx_dd fx then dv0 else match dd0 with Some w => w | None => dv0 end
              end in
  let ok f := match f with Some x => is_int x | None => true end in
  let upd (f : option str) (x : str) := match f with Some y => y | None => x end in
  let new := (upd fa (fst base), upd fb (snd base)) in
  (* what the action's dict holds afterwards: the OBJECT prev_val.  A single field from argv is set on that very
     object (the stored default follows); a mapping from a dict-like source gives a new object (it keeps the old) *)
  let wr (x : dv) := match ic_d c with
                     | Some cur => if fx_dd fx then c else with_dw (Some (if inplace then x else cur)) c
                     | None => c
                     end in
  if bad || negb (ok fa && ok fb)
  then IBad (match ic_d c with Some cur => wr cur | None => c end)
  else IOk (with_d (Some new) (wr new)).
Definition opt_field (f : str) : option str := match f with [] => None | _ => Some f end.

(* one key/value against one parser's declaration (no sub-commands): _check_value_key / ActionTypeHint.
   dd0 = sub_add_kwargs["default"] of d as carried into the call: READ only by d_assign *)
Definition apply_local (fx : fixes) (dd0 : option dv) (pd : pdecl) (prefix : str) (c : ictx) (k v : str) : ires :=
  let '(h, rest) := split_dot k in
  if pd_dc pd && str_eqb h s_d then
    match rest with
    | None => match split_comma v [] with           (* dict-like source: d = "<a>,<b>", empty = field not given *)
              | [fa; fb] => d_assign fx dd0 false c (opt_field fa) (opt_field fb) false
              | _ => IBad c
              end
    | Some param =>                                  (* argv: --d.<field>=<v> *)
        if str_eqb param s_a then d_assign fx dd0 true c (Some v) None false
        else if str_eqb param s_b then d_assign fx dd0 true c None (Some v) false
        else d_assign fx dd0 true c None None true
    end
  else
  match alookup k (pd_opts pd) with   (* plain options; the fields g.a, g.b of a group under their dotted names *)
  | Some kd => if val_ok kd v then IOk (give (prefix ++ k) c) else IBad c
  | None =>
  match rest with
  | None =>
      match find_cls h pd with
      | Some co =>
          match cls_for_opt (co_base co) (co_callable co) v with
          | Some _ => IOk (with_sel (aset h v (ic_sel c)) c)
          | None => IBad c
          end
      | None => IUnknown
      end
  | Some param =>
      match find_cls h pd with
      | Some co =>
          (* init_args without a class: the class selected so far, else the class of the default, else the base *)
          let cl := match alookup h (ic_sel c) with
                    | Some x => x
                    | None => match co_default co with Some dc => dc | None => co_base co end
                    end in
          match cls_for_opt (co_base co) (co_callable co) cl with
          | Some ps =>
              match alookup param ps with
              | Some kd => if val_ok kd v then IOk (with_sel (aset h cl (ic_sel c)) c) else IBad c
              | None => IBad c
              end
          | None => IBad c
          end
      | None => IUnknown
      end
  end
  end.

(* one key/value of a dict-like source (object, string, config content, environment) against the
   root declaration; READS shtab: once --print_shtab has been added, print_shtab is a real key. *)
Definition apply_item (fx : fixes) (dd0 : option dv) (D : decl) (shtab : bool) (c : ictx) (k v : str) : ires :=
  if str_eqb k s_print_shtab then
    (if shtab then (if str_eqb v s_bash then IOk (with_shtab_key c) else IBad c)
     else IUnknown)
  else
  match apply_local fx dd0 (d_root D) [] c k v with
  | IUnknown =>
      let '(h, rest) := split_dot k in
      match rest, alookup h (d_subs D) with
      | Some k', Some spd =>
          match apply_local fx None spd (h ++ [46%N]) c k' v with
          | IOk c' => IOk (mention h c')
          | r => r
          end
      | _, _ => IUnknown
      end
  | r => r
  end.

(* what happens to a key nobody claims: argv-like strictness is handled by the scans; dict-like sources keep
   it and fail validation later (UKeep); the environment never sees it (UIgnore) *)
Inductive umode := UKeep | UIgnore.
Inductive ares := AOk (c : ictx) | AFail (c : ictx).   (* AFail: the context when an item was rejected *)
Fixpoint apply_items (f : ictx -> str -> str -> ires) (u : umode) (c : ictx) (items : list (str * str))
  : ares :=
  match items with
  | [] => AOk c
  | (k, v) :: r =>
      match f c k v with
      | IOk c' => apply_items f u c' r
      | IBad c' => AFail c'
      | IUnknown =>
          match u with
          | UIgnore => apply_items f u c r
          | UKeep => apply_items f u (with_unknown k c) r
          end
      end
  end.

(* _apply_actions walks a mapping breadth first: the top-level keys in their order, then the keys inside the
   sub-command sections *)
Definition is_sub_item (D : decl) (kv : str * str) : bool :=
  let '(h, rest) := split_dot (fst kv) in
  match rest, alookup h (d_subs D) with Some _, Some _ => true | _, _ => false end.
Definition bfs (D : decl) (items : list (str * str)) : list (str * str) :=
  filter (fun kv => negb (is_sub_item D kv)) items ++ filter (is_sub_item D) items.

(* the sub-command a configuration selects (get_subcommands): explicit choice, else the first declared
   sub-command that has settings *)
Definition selected (D : decl) (chosen : option str) (c : ictx) : option str :=
  match chosen with
  | Some x => Some x
  | None => match find (fun sp => mem_str (fst sp) (ic_mention c)) (d_subs D) with
            | Some sp => Some (fst sp) | None => None end
  end.

Definition req_ok (D : decl) (sel : option str) (c : ictx) : bool :=
  negb (is_unk c) &&
  forallb (fun r => mem_str r (ic_given c)) (pd_req (d_root D)) &&
  match sel with
  | Some x => match alookup x (d_subs D) with
              | Some spd => forallb (fun r => mem_str (x ++ [46%N] ++ r) (ic_given c)) (pd_req spd)
              | None => true end
  | None => true
  end.

(* how validation ends: the first key no action claims is named (check_values walks the keys in order) before
   missing required keys are looked at *)
Definition final_out (D : decl) (sel : option str) (c : ictx) : out :=
  match ic_unknown c with
  | Some k => OErr (EUnknown k)
  | None => if req_ok D sel c then OOk (ic_shtab_key c) (ic_d c) None else OErr EPost
  end.
(* did the call get as far as re-checking the values (check_values reaches d: no unknown key before it) *)
Definition validated (o : out) : bool :=
  match o with OOk _ _ _ | OErr EPost => true | _ => false end.
(* sub_add_kwargs["default"] of d after a call that ended in context c: the value of d re-checked by the final
   validation (prev_val = the value itself), else the last write of the call, else what was there *)
Definition dd_after (fx : fixes) (old : option dv) (c : ictx) (o : out) : option dv :=
  if fx_dd fx then old
  else match (if validated o then ic_d c else None) with
       | Some w => Some w
       | None => match ic_dw c with Some w => Some w | None => old end
       end.

Definition has_default (pd : pdecl) : bool :=
  existsb (fun o => negb (mem_str (fst o) (pd_req pd))) (pd_opts pd).

(* dump_kwargs left behind by parser.dump (ActionTypeHint.serialize -> dump_kwargs_context, never reset);
   with skip_default the defaults are cleaned in a second pass with skip_validation=True (_core.py:801) *)
Definition dk_after (pd : pdecl) (skip_validation skip_none skip_default : bool) (old : option (bool * bool))
  : option (bool * bool) :=
  if has_default pd then Some (if skip_default then true else skip_validation, skip_none) else old.

(* process-wide variables as threaded through one call *)
Record cvars := { cv_pk : option (option bool * bool); cv_sap : option label; cv_dk : option (bool * bool) }.

(* a field of d given on the command line goes through the throw-away class parser of Data, by ITS parse_args:
   subclass_arg_parser is left pointing at it and parse_kwargs holds the keywords of that inner call (env=None,
   defaults=True) — a sub-command named later on the same command line is parsed with those *)
Definition sap_inner (cv : cvars) : cvars := {| cv_pk := Some (None, true); cv_sap := Some LInner; cv_dk := cv_dk cv |}.

(* print_config_if_requested (_actions.py:280-290) on the ROOT parser; `has x` says whether cfg has a
   namespace for sub-command x, `sel` whether cfg selects a sub-command.  None = nothing requested, go on.
   The dump of the whole configuration (key None) fails with a KeyError when a sub-command is required and
   cfg selects none (validate -> get_subcommands); by then both pops are done and the attribute is still there.
   (Until fix e6822fd skip_default failed likewise on the defaults, which never select a sub-command.)  The same happens when cfg holds a key no action claims (unk): dump validates
   and check_values raises NSKeyError, which lenient_check does not swallow. *)
Definition consume (D : decl) (pend : pending) (has : str -> bool) (sel : bool) (unk : bool) (nested : bool)
  (empty : bool) (dp : option dv) (cv : cvars) : option (out * pending * cvars) :=
  (* dp: the value of d in the configuration dumped (only the whole configuration shows it) *)
  (* empty: the configuration dumped has no entry at all (a --cfg={} consumed inside parse_args): nothing is
     serialised, dump_kwargs stays as it was *)
  let dk_after pd sv sn sd old := if empty then old else dk_after pd sv sn sd old in
  match pend with
  | PNone => None
  | PBroken fl => Some (OErr EBroken, PBroken fl, cv)            (* pop("key") raises KeyError *)
  | PFull key fl =>
      match key with
      | Some x =>
          if has x then
            let pd := match alookup x (d_subs D) with Some spd => spd | None => d_root D end in
            Some (OPrint key fl nested None, PNone,
                  {| cv_pk := cv_pk cv; cv_sap := cv_sap cv; cv_dk := dk_after pd false (f_sn fl) (f_sd fl) (cv_dk cv) |})
          else Some (OErr EStaleKey, PBroken fl, cv)              (* cfg[key] raises after both pops *)
      | None =>
          let req := d_subreq D && negb (match d_subs D with [] => true | _ => false end) in
          (* since fix e6822fd skip_default no longer fails on the defaults of a parser with a required sub-command
             (the KeyError of strip_link_target_keys(defaults) is suppressed, _core.py:818) *)
          if unk || (req && negb sel) then Some (OErr EPrintFail, PBroken fl, cv)
          else
            Some (OPrint key fl nested dp, PNone,
                  {| cv_pk := cv_pk cv; cv_sap := cv_sap cv;
                     cv_dk := dk_after (d_root D) false (f_sn fl) (f_sd fl) (cv_dk cv) |})
      end
  end.

(* scan of a sub-command parser's argv (sub-parser.parse_args with _skip_validation) *)
Inductive sres := SGo | SStop (o : out).

Fixpoint scan_sub (fx : fixes) (name : str) (pd : pdecl) (toks : list tok) (c : ictx) (unk : bool) (pend : pending)
  : sres * ictx * bool * pending :=
  match toks with
  | [] => (SGo, c, unk, pend)
  | t :: r =>
      match t with
      | TFlag n =>
          if str_eqb n s_help then (SStop (OHelp name), c, unk, pend)
          else if str_eqb n s_print_config && pd_cfg pd
               then scan_sub fx name pd r c unk (PFull (Some name) no_flags)
               else scan_sub fx name pd r c true pend
      | TOpt n v =>
          if str_eqb n s_print_config && pd_cfg pd then
            match parse_flags (split_comma v []) no_flags with
            | Some fl => scan_sub fx name pd r c unk (PFull (Some name) fl)
            | None => (SStop (OErr EPre), c, unk, pend)
            end
          else
            match apply_local fx None pd (name ++ [46%N]) c n v with
            | IOk c' => scan_sub fx name pd r c' unk pend
            | IBad c' => (SStop (OErr EPre), c', unk, pend)
            | IUnknown => scan_sub fx name pd r c true pend
            end
      | TCfg items =>
          if pd_cfg pd then
            match apply_items (apply_local fx None pd (name ++ [46%N])) UKeep c items with
            | AOk c' => scan_sub fx name pd r c' unk pend
            | AFail c' => (SStop (OErr EPre), c', unk, pend)
            end
          else scan_sub fx name pd r c true pend
      | TPos _ => scan_sub fx name pd r c true pend
      end
  end.

Definition is_suffix_help (n : str) : option str :=
  (* n = <cls>.help ? *)
  let '(h, rest) := split_dot n in
  match rest with Some r => if str_eqb r s_help then Some h else None | None => None end.

(* the tokens after --<cls>.help=<class> are parsed by a throw-away parser of that class (exit_on_error as the
   calling parser, i.e. False here): all of them must be --<cls>.<param>=<valid>, else ITS error surfaces
   (EHelpArgs) instead of "Expected a nested --*.help option" (EPre) *)
Definition help_rest_ok (cname : str) (ps : list (str * kind)) (rest : list tok) : bool :=
  forallb (fun t => match t with
                    | TOpt n v => let '(h, p) := split_dot n in
                                  match p with
                                  | Some p' => str_eqb h cname &&
                                               match alookup p' ps with Some kd => val_ok kd v | None => false end
                                  | None => false end
                    | _ => false end) rest.

(* scan of the root parser's argv.  i = index of the parser (for labels); hs = help_skip as READ.
   Returns: how the scan ended, local context, unknown-arguments flag, request, explicit sub-command,
   process-wide variables, sub-parser argv written, help_skip written. *)
Record scan_out := { so_res : sres; so_c : ictx; so_unk : bool; so_pend : pending; so_chosen : option str;
                     so_cv : cvars; so_subargs : option (str * list tok); so_hs : bool;
                     so_subkw : option (option bool * bool) }.   (* parse_kwargs as READ by the sub-command action *)

Fixpoint scan_root (fx : fixes) (dd0 : option dv) (D : decl) (i : nat) (hs : bool) (toks : list tok) (c : ictx)
  (unk : bool) (pend : pending) (cv : cvars) : scan_out :=
  let stopc cx cvx o := {| so_res := SStop o; so_c := cx; so_unk := unk; so_pend := pend; so_chosen := None;
                           so_cv := cvx; so_subargs := None; so_hs := hs; so_subkw := None |} in
  let stop o := stopc c cv o in
  match toks with
  | [] => {| so_res := SGo; so_c := c; so_unk := unk; so_pend := pend; so_chosen := None;
             so_cv := cv; so_subargs := None; so_hs := hs; so_subkw := None |}
  | t :: r =>
      let pd := d_root D in
      match t with
      | TFlag n =>
          if str_eqb n s_help then stop (OHelp [])
          else if str_eqb n s_print_config && pd_cfg pd
               then scan_root fx dd0 D i hs r c unk (PFull None no_flags) cv
               else
          match is_suffix_help n, (match is_suffix_help n with Some h => find_cls h pd | None => None end) with
          | Some h, Some co =>
              (* --<cls>.help WITHOUT a value (nargs "?"): the help of the type itself (_actions.py:403-404).  A
                 Callable type is no class: rejected by the subclass test before anything is written.
                 get_args_after_opt (_actions.py:429-437) takes the item after a bare --<cls>.help for its value
                 and drops it, whatever it is *)
              if co_callable co then stop (OErr EPre)
              else
                let sk := if fx_hs fx then false else hs in
                let ps := match cls_for_help (co_base co) sk (co_base co) with Some x => x | None => [] end in
                match tl r with
                | [] => {| so_res := SStop (OHelpCls sk); so_c := c; so_unk := unk; so_pend := pend;
                           so_chosen := None; so_cv := cv; so_subargs := None; so_hs := hs; so_subkw := None |}
                | r' =>
                    let cv' := {| cv_pk := Some (None, true); cv_sap := Some LInner; cv_dk := cv_dk cv |} in
                    {| so_res := SStop (if help_rest_ok h ps r' then OErr EPre else OErr EHelpArgs);
                       so_c := c; so_unk := unk; so_pend := pend; so_chosen := None; so_cv := cv';
                       so_subargs := None; so_hs := hs; so_subkw := None |}
                end
          | _, _ => scan_root fx dd0 D i hs r c true pend cv
          end
      | TOpt n v =>
          if str_eqb n s_print_config && pd_cfg pd then
            match parse_flags (split_comma v []) no_flags with
            | Some fl => scan_root fx dd0 D i hs r c unk (PFull None fl) cv
            | None => stop (OErr EPre)
            end
          else
          match is_suffix_help n, (match is_suffix_help n with Some h => find_cls h pd | None => None end) with
          | Some h, Some co =>
              (* _ActionHelpClassPath.print_help; READS help_skip through the class-level dict and WRITES it
                 there; repaired: works on a copy, nothing shared is read or written *)
              let sk := if fx_hs fx then co_callable co else hs || co_callable co in
              let hs' := if fx_hs fx then hs else sk in
              match cls_for_help (co_base co) sk v with
              | None => stop (OErr EPre)
              | Some ps =>
                  match r with
                  | [] => {| so_res := SStop (OHelpCls sk); so_c := c; so_unk := unk; so_pend := pend;
                             so_chosen := None; so_cv := cv; so_subargs := None; so_hs := hs'; so_subkw := None |}
                  | _ =>
                      (* uses parser.args; the throw-away parser's parse_args sets the context variables *)
                      let cv' := {| cv_pk := Some (None, true); cv_sap := Some LInner; cv_dk := cv_dk cv |} in
                      {| so_res := SStop (if help_rest_ok h ps r then OErr EPre else OErr EHelpArgs);
                         so_c := c; so_unk := unk; so_pend := pend; so_chosen := None; so_cv := cv';
                         so_subargs := None; so_hs := hs'; so_subkw := None |}
                  end
              end
          | _, _ =>
              let cvd := if pd_dc pd && key_is_d n then sap_inner cv else cv in
              match apply_local fx dd0 pd [] c n v with
              | IOk c' => scan_root fx dd0 D i hs r c' unk pend cvd
              | IBad c' => stopc c' cvd (OErr EPre)
              | IUnknown => scan_root fx dd0 D i hs r c true pend cv
              end
          end
      | TCfg items =>
          if pd_cfg pd then
            (* ActionConfigFile.apply_config -> parser.parse_string(defaults=False, _skip_validation)
               -> _parse_common -> print_config_if_requested: the request is consumed HERE, with the
               content of the config alone.  Inside parse_args --print_shtab exists already (repaired: it is
               no configuration key). *)
            match apply_items (apply_item fx dd0 D (negb (fx_sh fx))) UKeep c (bfs D items) with
            | AFail c' => stopc c' cv (OErr EPre)
            | AOk c' =>
                let hc := match apply_items (apply_item fx dd0 D (negb (fx_sh fx))) UKeep ic0 (bfs D items) with
                          | AOk x => x | AFail _ => ic0 end in
                let here := ic_mention hc in
                (* the content is loaded with prev_cfg = the namespace so far: the d printed is the merged one *)
                match consume D pend (fun x => mem_str x here)
                              (match here with [] => false | _ => true end) (is_unk hc) true
                              (match items with [] => true | _ => false end)
                              (match ic_d hc with Some _ => ic_d c' | None => None end) cv with
                | Some (o, pend', cv') =>
                    {| so_res := SStop o; so_c := c'; so_unk := unk; so_pend := pend'; so_chosen := None;
                       so_cv := cv'; so_subargs := None; so_hs := hs; so_subkw := None |}
                | None => scan_root fx dd0 D i hs r c' unk pend cv
                end
            end
          else scan_root fx dd0 D i hs r c true pend cv
      | TPos n =>
          match d_subs D with
          | [] => scan_root fx dd0 D i hs r c true pend cv
          | _ =>
              match alookup n (d_subs D) with
              | None => stop (OErr EPre)                      (* invalid choice *)
              | Some spd =>
                  (* _ActionSubCommands.__call__: READS parse_kwargs (set by this very call),
                     sub-parser.parse_args sets args, parse_kwargs, subclass_arg_parser *)
                  let cv' := {| cv_pk := cv_pk cv; cv_sap := Some (LP i n); cv_dk := cv_dk cv |} in
                  let '(res, c', unk', pend') := scan_sub fx n spd r c false pend in
                  let res' := match res with
                              | SGo => if unk' then SStop (OErr EPre) else SGo
                              | x => x end in
                  {| so_res := res'; so_c := c'; so_unk := unk; so_pend := pend'; so_chosen := Some n;
                     so_cv := cv'; so_subargs := Some (n, r); so_hs := hs; so_subkw := cv_pk cv |}
              end
          end
      end
  end.

(* ---- what a call reads and writes ---- *)
Record view := { v_pending : pending; v_shtab : bool; v_help_skip : bool; v_ddef : option dv;
                 v_cv : cvars }.   (* v_cv: carried in, never read before written (see the header) *)
Record writes := { w_pending : pending; w_shtab : bool; w_help_skip : bool; w_ddef : option dv; w_cv : cvars;
                   w_args : list (str * list tok) }.   (* argv to store: "" = root *)

Definition keep (v : view) : writes :=
  {| w_pending := v_pending v; w_shtab := v_shtab v; w_help_skip := v_help_skip v; w_ddef := v_ddef v;
     w_cv := v_cv v; w_args := [] |}.

(* _parse_common for the root parser after the sources have been merged *)
Definition parse_common (D : decl) (pend : pending) (chosen : option str) (c : ictx) (cv : cvars)
  : out * pending * cvars :=
  let sel := selected D chosen c in
  match d_subs D, sel with
  | _ :: _, None => if d_subreq D then (OErr EPre, pend, cv) else
      match consume D pend (fun _ => false) false (is_unk c) false false (ic_d c) cv with
      | Some r => r
      | None => (final_out D sel c, pend, cv)
      end
  | _, _ =>
      match consume D pend (fun x => match sel with Some y => str_eqb x y | None => false end)
                    (match sel with Some _ => true | None => false end) (is_unk c) false false (ic_d c) cv with
      | Some r => r
      | None => (final_out D sel c, pend, cv)
      end
  end.

Definition exec_items (fx : fixes) (D : decl) (v : view) (unknown_ok : umode) (items : list (str * str)) : out * writes :=
  match apply_items (apply_item fx (v_ddef v) D (v_shtab v && negb (fx_sh fx))) unknown_ok ic0 (bfs D items) with
  | AFail c =>
      (OErr EPre, {| w_pending := v_pending v; w_shtab := v_shtab v; w_help_skip := v_help_skip v;
                     w_ddef := dd_after fx (v_ddef v) c (OErr EPre);
                     w_cv := v_cv v; w_args := [] |})
  | AOk c =>
      let '(o, pend, cv) := parse_common D (v_pending v) None c (v_cv v) in
      (o, {| w_pending := pend; w_shtab := v_shtab v; w_help_skip := v_help_skip v;
             w_ddef := dd_after fx (v_ddef v) c o; w_cv := cv; w_args := [] |})
  end.
(* validate(cfg) and the validation inside dump(cfg) re-check d with prev_val = its own value *)
Definition dd_checked (fx : fixes) (old d : option dv) : option dv :=
  if fx_dd fx then old else match d with Some w => Some w | None => old end.

(* fx_pc: whatever way parse_args is left, no request survives it (on a normal return there is none anyway:
   _parse_common has consumed it).  fx = pinned is the pinned tree. *)
(* the keywords of the sub-command call show in a result *)
Definition with_subkw (x : option (option bool * bool)) (o : out) : out :=
  match o with OOk a b _ => OOk a b x | _ => o end.

(* parse_args(argv, env=env, defaults=dflt); kw = (env, dflt), (None, true) when not given *)
Definition exec_args (fx : fixes) (D : decl) (i : nat) (v : view) (kw : option bool * bool) (argv : list tok)
  : out * writes :=
      (* handle_completions adds --print_shtab; self.args = argv; parse_kwargs and subclass_arg_parser set *)
      let cv0 := {| cv_pk := Some kw; cv_sap := Some (LP i []); cv_dk := cv_dk (v_cv v) |} in
      let so := scan_root fx (v_ddef v) D i (v_help_skip v) argv ic0 false (v_pending v) cv0 in
      let args := ([], argv) :: match so_subargs so with Some sa => [sa] | None => [] end in
      let fin o pend cv :=
        (with_subkw (so_subkw so) o, {| w_pending := if fx_pc fx then PNone else pend; w_shtab := true; w_help_skip := so_hs so;
               w_ddef := dd_after fx (v_ddef v) (so_c so) o;
               w_cv := cv; w_args := args |}) in
      match so_res so with
      | SStop o => fin o (so_pend so) (so_cv so)
      | SGo =>
          if so_unk so then fin (OErr EPre) (so_pend so) (so_cv so)
          else
            let '(o, pend, cv) := parse_common D (so_pend so) (so_chosen so) (so_c so) (so_cv so) in
            fin o pend cv
      end.

Definition exec (fx : fixes) (D : decl) (i : nat) (v : view) (k : opk) : out * writes :=
  match k with
  | PArgs argv => exec_args fx D i v (None, true) argv
  | PArgsKw env dflt argv => exec_args fx D i v (env, dflt) argv
  | PObject items => exec_items fx D v UKeep items
  | PString items => exec_items fx D v UKeep items
  | PEnv items => exec_items fx D v UIgnore items
  | GetDefaults => (OOk false None None, keep v)
  | Dump d corrupt sn sd sv =>
      let cvd f := {| cv_pk := cv_pk (v_cv v); cv_sap := cv_sap (v_cv v); cv_dk := f (cv_dk (v_cv v)) |} in
      let w cv := {| w_pending := v_pending v; w_shtab := v_shtab v; w_help_skip := v_help_skip v;
                     w_ddef := if sv then v_ddef v else dd_checked fx (v_ddef v) d; w_cv := cv; w_args := [] |} in
      if corrupt && negb sv then (OExc, keep v)     (* k is re-checked (and rejected) before d *)
      else (OOk false None None, w (cvd (dk_after (d_root D) sv sn sd)))
  | Validate d corrupt =>
      if corrupt then (OExc, keep v)
      else (OOk false None None,
            {| w_pending := v_pending v; w_shtab := v_shtab v; w_help_skip := v_help_skip v;
               w_ddef := dd_checked fx (v_ddef v) d; w_cv := v_cv v; w_args := [] |})
  | Instantiate => (OOk false None None, keep v)
  end.

(* ---- the state machine ---- *)
Definition get_ps (s : state) (i : nat) : pstate := nth i (st_ps s) ps0.

Fixpoint set_nth {A} (i : nat) (x : A) (l : list A) : list A :=
  match l, i with
  | [], _ => []
  | _ :: r, 0 => x :: r
  | y :: r, S j => y :: set_nth j x r
  end.

Definition view_of (s : state) (i : nat) : view :=
  let ps := get_ps s i in
  {| v_pending := ps_pending ps; v_shtab := ps_shtab ps; v_help_skip := st_help_skip s; v_ddef := ps_ddef ps;
     v_cv := {| cv_pk := st_pk s; cv_sap := st_sap s; cv_dk := st_dk s |} |}.

Definition commit (s : state) (i : nat) (w : writes) : state :=
  let ps := get_ps s i in
  {| st_ps := set_nth i {| ps_pending := w_pending w;
                           ps_args := fold_left (fun a kv => aset (fst kv) (snd kv) a) (w_args w) (ps_args ps);
                           ps_shtab := w_shtab w; ps_ddef := w_ddef w |} (st_ps s);
     st_pk := cv_pk (w_cv w); st_sap := cv_sap (w_cv w); st_dk := cv_dk (w_cv w);
     st_help_skip := w_help_skip w |}.

Definition decl_of (Ds : list decl) (i : nat) : decl :=
  nth i Ds {| d_root := {| pd_cfg := false; pd_opts := []; pd_req := []; pd_cls := []; pd_dc := false |};
              d_subreq := false; d_subs := [] |}.

Definition step (fx : fixes) (Ds : list decl) (s : state) (o : op) : state * out :=
  let '(r, w) := exec fx (decl_of Ds (op_p o)) (op_p o) (view_of s (op_p o)) (op_k o) in
  (commit s (op_p o) w, r).

Definition run (fx : fixes) (Ds : list decl) (s : state) (ops : list op) : state :=
  fold_left (fun s o => fst (step fx Ds s o)) ops s.

(* ---- the guard: which part of the carried state the next call would read and find changed ---- *)
Definition is_pnone (p : pending) : bool := match p with PNone => true | _ => false end.

Definition items_mention_shtab (items : list (str * str)) : bool :=
  existsb (fun kv => str_eqb (fst kv) s_print_shtab) items.
Definition op_mentions_shtab (k : opk) : bool :=
  match k with
  | PObject items | PString items | PEnv items => items_mention_shtab items
  | _ => false
  end.
Definition tok_mentions_d (t : tok) : bool :=
  match t with TOpt n _ => key_is_d n | TCfg items => items_mention_d items | _ => false end.
Definition op_mentions_d (k : opk) : bool :=
  match k with
  | PArgs argv | PArgsKw _ _ argv => existsb tok_mentions_d argv
  | PObject items | PString items | PEnv items => items_mention_d items
  | _ => false
  end.
Definition is_some {A} (x : option A) : bool := match x with Some _ => true | None => false end.
Definition tok_is_clshelp (t : tok) : bool :=
  match t with
  | TOpt n _ | TFlag n => match is_suffix_help n with Some _ => true | None => false end
  | _ => false end.
Definition op_has_clshelp (k : opk) : bool :=
  match k with PArgs argv | PArgsKw _ _ argv => existsb tok_is_clshelp argv | _ => false end.

(* 0 = inside the guard; 1 = a print_config request is pending on the target parser;
   2 = the call names the key print_shtab on a parser that has acquired --print_shtab (and the key is read);
   3 = a class help is requested after a Callable-typed class help wrote the class-level dict (and it is read);
   4 = the call gives (part of) a value for d on a parser whose d action holds a stored default (and it is read) *)
Definition guard_class (fx : fixes) (s : state) (o : op) : N :=
  if negb (is_pnone (ps_pending (get_ps s (op_p o)))) then 1%N
  else if negb (fx_sh fx) && ps_shtab (get_ps s (op_p o)) && op_mentions_shtab (op_k o) then 2%N
  else if negb (fx_hs fx) && st_help_skip s && op_has_clshelp (op_k o) then 3%N
  else if negb (fx_dd fx) && is_some (ps_ddef (get_ps s (op_p o))) && op_mentions_d (op_k o) then 4%N
  else 0%N.
Definition in_guard (fx : fixes) (s : state) (o : op) : bool := N.eqb (guard_class fx s o) 0.

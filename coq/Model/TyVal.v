(* Python values as seen by the type-hint machinery (C01, C02, C05, C10). *)
From JV Require Import Lib.Base.

(* floats are identified with normalised decimals m * 10^e (m not divisible by 10, or m = e = 0);
   generators keep to <= 15 significant digits, where this is faithful to binary64 equality *)
Inductive fl := FFin (m e : Z) | FInf (neg : bool) | FNan.

Inductive val :=
| VNone
| VBool (b : bool)
| VInt (z : Z)
| VFloat (f : fl)
| VStr (s : str)
| VList (l : list val)
| VTuple (l : list val)
| VSet (l : list val)              (* canonical (sorted) element order is imposed by the harness *)
| VDict (d : list (val * val))     (* insertion order *)
| VEnum (cls member : str)
| VOpaque (kind : str) (repr : str).   (* anything else: registered-type instances, paths, ... *)

Definition fl_eqb (a b : fl) : bool :=
  match a, b with
  | FFin m e, FFin m' e' => Z.eqb m m' && Z.eqb e e'
  | FInf a, FInf b => Bool.eqb a b
  | FNan, FNan => true
  | _, _ => false
  end.

Fixpoint val_eqb (a b : val) {struct a} : bool :=
  match a, b with
  | VNone, VNone => true
  | VBool x, VBool y => Bool.eqb x y
  | VInt x, VInt y => Z.eqb x y
  | VFloat x, VFloat y => fl_eqb x y
  | VStr x, VStr y => str_eqb x y
  | VList x, VList y | VTuple x, VTuple y | VSet x, VSet y =>
      (fix go (x y : list val) : bool :=
         match x, y with
         | [], [] => true
         | a :: x', b :: y' => val_eqb a b && go x' y'
         | _, _ => false
         end) x y
  | VDict x, VDict y =>
      (fix go (x y : list (val * val)) : bool :=
         match x, y with
         | [], [] => true
         | (k, a) :: x', (k', b) :: y' => val_eqb k k' && val_eqb a b && go x' y'
         | _, _ => false
         end) x y
  | VEnum c m, VEnum c' m' => str_eqb c c' && str_eqb m m'
  | VOpaque k r, VOpaque k' r' => str_eqb k k' && str_eqb r r'
  | _, _ => false
  end.

(* normalise m * 10^e: strip factors of ten from m (fuel = number of digits bound) *)
Fixpoint norm_dec (fuel : nat) (m e : Z) : fl :=
  match fuel with
  | 0 => FFin m e
  | S f => if Z.eqb m 0 then FFin 0 0
           else if Z.eqb (Z.rem m 10) 0 then norm_dec f (Z.quot m 10) (e + 1) else FFin m e
  end.

Definition float_of_int (z : Z) : fl := norm_dec 400 z 0.

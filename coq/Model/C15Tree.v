(* C15 — one level of subcommands: a top-level parser [p] and the parser [q] of the chosen subcommand [n], whose
   configuration lives under the key n of the top-level configuration.
     finish_tree  ArgumentParser._parse_common of the TOP parser from apply_parsing_links on:
                  apply_parsing_links(top, cfg) first recurses into the chosen subcommand
                  (ActionLink.apply_parsing_links(subparser, cfg[subcommand])), then applies the top parser's own links;
                  validate checks the top-level keys and the subcommand's keys.
     strip_tree   ActionLink.strip_link_target_keys(top, cfg): the top parser's own targets, then the recursion into
                  every subcommand present in cfg — whether or not the top parser has links of its own.
   (The subcommand's own parse_args has already applied its links once when argv is parsed; applying them again on the
   merged configuration is what the top-level call does, and what decides the final values.) *)
From JV Require Import Lib.Base Lib.C15Val Model.C15Links.

Section WithFn.
Variable fn : nat -> list val -> option val.
Variable classes : list cls.

Definition apply_sub (q : parser) (n : str) (pre : val) : res val :=
  match get pre [n] with
  | Some subcfg =>
      match apply_links fn subcfg (p_links q) with
      | Ok s' => Ok (set pre [n] s')
      | Err e => Err e
      end
  | None => Ok pre
  end.

Definition validate_tree (p q : parser) (n : str) (cfg : val) : bool :=
  validate classes p cfg
  && match get cfg [n] with Some s => validate classes q s | None => true end.

Definition finish_tree (p q : parser) (n : str) (pre : val) : res val :=
  match apply_sub q n pre with
  | Err e => Err e
  | Ok c1 =>
      match apply_links fn c1 (p_links p) with
      | Err e => Err e
      | Ok cfg => if validate_tree p q n cfg then Ok cfg else Err EOther
      end
  end.

End WithFn.

(* [strip1] = strip or strip_fixed *)
Definition strip_tree (strip1 : parser -> val -> val) (p q : parser) (n : str) (cfg : val) : val :=
  let c := strip1 p cfg in
  match get c [n] with
  | Some s => set c [n] (strip1 q s)
  | None => c
  end.

(* C15 — one level of subcommands: a top-level parser [p] and the parser [q] of the chosen subcommand [n], whose
   configuration lives under the key n of the top-level configuration.
     finish_tree  ArgumentParser._parse_common of the TOP parser from apply_parsing_links on:
                  apply_parsing_links(top, cfg) first recurses into the chosen subcommand
                  (ActionLink.apply_parsing_links(subparser, cfg[subcommand])), then applies the top parser's own links;
                  validate checks the top-level keys and the subcommand's keys.
     strip_tree   ActionLink.strip_link_target_keys(top, cfg): the top parser's own targets, then the recursion into
                  every subcommand present in cfg — whether or not the top parser has links of its own.
   (The subcommand's own parse_args has already applied its links once when argv is parsed; applying them again on the
   merged configuration is what the top-level call does, and what decides the final values.) *)
From JV Require Import Lib.Base Lib.C15Val Model.C15Links.

Section WithFn.
Variable fn : nat -> list val -> option val.
Variable classes : list cls.

Definition apply_sub (q : parser) (n : str) (pre : val) : res val :=
  match get pre [n] with
  | Some subcfg =>
      match apply_links fn subcfg (p_links q) with
      | Ok s' => Ok (set pre [n] s')
      | Err e => Err e
      end
  | None => Ok pre
  end.

Definition validate_tree (p q : parser) (n : str) (cfg : val) : bool :=
  validate classes p cfg
  && match get cfg [n] with Some s => validate classes q s | None => true end.

Definition finish_tree (p q : parser) (n : str) (pre : val) : res val :=
  match apply_sub q n pre with
  | Err e => Err e
  | Ok c1 =>
      match apply_links fn c1 (p_links p) with
      | Err e => Err e
      | Ok cfg => if validate_tree p q n cfg then Ok cfg else Err EOther
      end
  end.

(* ---------------------------------------------------------------- re-loading a configuration through the TOP parser
   _ActionSubCommands.handle_subcommands with env=True (default_env): the subcommand's part of the configuration is
   merged OVER subparser.parse_env(defaults, _skip_validation=True), i.e. over the subcommand's defaults with ITS links
   already applied and not validated. A dump holds no target, so the target computed from the DEFAULT sources survives
   the merge; add_sub_defaults -> _apply_actions then checks every leaf with its action (a link action checks with the
   type of the target it replaced) before apply_parsing_links could recompute it
   (finding subcommand-env-defaults-stale-target; [fixed] = fixes/C15-subcommand-env-defaults-stale-target.patch: the
   defaults/environment stage runs under skip_apply_links). Plain-argument subcommand parsers only. *)
Definition reload_sub (fixed : bool) (q : parser) (sub : val) : res val :=
  match (if fixed then Ok (defaults q) else apply_links fn (defaults q) (p_links q)) with
  | Err e => Err e
  | Ok dflt =>
      let merged := update dflt sub in
      (* _apply_actions: the value found at every argument's key is checked (leniently: None passes) with its type *)
      if forallb (fun a => match plain_ty (fst a), get merged (d_key (fst a)) with
                           | Some t, Some v => lenient t v
                           | _, _ => true
                           end) (p_acts q)
      then Ok merged else Err EOther
  end.

Definition types_ok (p : parser) (cfg : val) : bool :=
  forallb (fun a => match get cfg (d_key (fst a)) with
                    | None => true
                    | Some v => value_ok classes p (fst a) v
                    end) (p_acts p).

(* guard of that finding: the subcommand parser's own defaults, pushed through its links, give some argument a value
   its type rejects (the parser only works when the user overrides those sources) *)
Definition stale_default_target (q : parser) : bool :=
  match apply_links fn (defaults q) (p_links q) with
  | Ok c => negb (types_ok q c)
  | Err _ => false
  end.

End WithFn.

(* [strip1] = strip or strip_fixed *)
Definition strip_tree (strip1 : parser -> val -> val) (p q : parser) (n : str) (cfg : val) : val :=
  let c := strip1 p cfg in
  match get c [n] with
  | Some s => set c [n] (strip1 q s)
  | None => c
  end.

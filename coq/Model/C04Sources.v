(* C04 — model of the source-merging pipeline of jsonargparse, written in the shape of the code
   (jsonargparse/_core.py, _actions.py, _namespace.py, _typehints.py), bugs included.
   Executable Gallina only; the proofs are in Proofs/C04Proofs.v.

   The nested namespace is a small ordered tree of our own (not Model/Ns.v): a Namespace is a branch
   whose children are kept in insertion order, exactly like the __dict__ of the Python object. *)
From JV Require Import Lib.Base Lib.C04Base.

Inductive node :=
| Leaf (v : val)
| Br (f : forest)
with forest :=
| FNil
| FCons (n : name) (c : node) (r : forest).

(* ---- __dict__ of one Namespace ---------------------------------------------------------------- *)
Fixpoint f_get (a : name) (f : forest) : option node :=
  match f with
  | FNil => None
  | FCons n c r => if name_eqb a n then Some c else f_get a r
  end.

(* setattr: replace in place, or add at the end *)
Fixpoint f_set (a : name) (x : node) (f : forest) : forest :=
  match f with
  | FNil => FCons a x FNil
  | FCons n c r => if name_eqb a n then FCons n x r else FCons n c (f_set a x r)
  end.

(* __dict__.pop(name, default) *)
Fixpoint f_del (a : name) (f : forest) : forest :=
  match f with
  | FNil => FNil
  | FCons n c r => if name_eqb a n then r else FCons n c (f_del a r)
  end.

Definition kids (t : node) : forest := match t with Br f => f | Leaf _ => FNil end.

(* ---- Namespace (jsonargparse/_namespace.py) ----------------------------------------------------- *)
(* cfg.get(key) for a leaf key *)
Fixpoint lget (k : tpath) (t : node) : option val :=
  match k, t with
  | [], Leaf v => Some v
  | a :: k', Br f => match f_get a f with Some c => lget k' c | None => None end
  | _, _ => None
  end.

(* __setitem__: _parse_key walks existing Namespace parents; a missing parent, or a parent that is
   not a Namespace, makes _create_nested_namespace put fresh Namespaces on the way (in place). *)
Fixpoint ns_set (k : tpath) (x : node) (t : node) : node :=
  match k with
  | [] => x
  | a :: k' =>
      let f := kids t in
      let c := match f_get a f with Some c => c | None => Br FNil end in
      Br (f_set a (ns_set k' x c) f)
  end.

(* pop(key): parent_ns.__dict__.pop(leaf_key, default); nothing happens when a parent is missing *)
Fixpoint ns_pop (k : tpath) (t : node) : node :=
  match k, t with
  | [a], Br f => Br (f_del a f)
  | a :: k', Br f => match f_get a f with Some c => Br (f_set a (ns_pop k' c) f) | None => t end
  | _, _ => t
  end.

(* items(): all leaves, depth first, insertion order, dotted keys *)
Fixpoint items (t : node) : list (tpath * val) :=
  match t with
  | Leaf v => [([], v)]
  | Br f => items_f f
  end
with items_f (f : forest) : list (tpath * val) :=
  match f with
  | FNil => []
  | FCons a c r => map (fun kv => (a :: fst kv, snd kv)) (items c) ++ items_f r
  end.

Definition keys (t : node) : list tpath := map fst (items t).

Definition clone (t : node) : node := t.       (* recreate_branches: same value, nothing shared *)

(* update(value): for key, val in value.items(): self[key] = val *)
Definition update (to from : node) : node :=
  fold_left (fun t kv => ns_set (fst kv) (Leaf (snd kv)) t) (items from) to.

(* ---- actions -------------------------------------------------------------------------------------- *)
Definition find_action (p : parser) (dest : tpath) : option decl :=
  find (fun d => path_eqb (d_key d) dest) p.

Definition supports_append (d : decl) : bool := match d_kind d with KList => true | _ => false end.

(* _find_parent_action: the longest proper prefix of the key that is a declared argument,
   together with the rest of the key (NestedArg.key) *)
Fixpoint find_parent_from (p : parser) (pre_rev : tpath) (rest : tpath) : option (decl * tpath) :=
  match pre_rev with
  | [] => None
  | a :: pre_rev' =>
      match find_action p (rev pre_rev) with
      | Some d => Some (d, rest)
      | None => find_parent_from p pre_rev' (a :: rest)
      end
  end.

Definition find_parent_action (p : parser) (k : tpath) : option (decl * tpath) :=
  match rev k with
  | [] => None
  | last :: pre_rev => find_parent_from p pre_rev [last]
  end.

(* ---- ActionTypeHint._check_type / adapt_typehints for the three kinds of keys ---------------------- *)
Definition prev_val (d : decl) (cfg : node) : val :=
  match lget (d_key d) cfg with Some v => v | None => VNone end.

(* append=True, List branch: prev None -> []; prev not a list -> [prev] if it adapts as an element,
   else []; then prev + (val if it is a list else [val]) *)
Definition prev_as_list (prev : val) : list Z :=
  match prev with
  | VList l => l
  | VTok z => [z]
  | VNone | VDict _ => []
  end.

Definition val_as_items (v : val) : list Z :=
  match v with
  | VList l => l
  | VTok z => [z]
  | VNone | VDict _ => []       (* not a List[int] item: rejected by the code; excluded by wf *)
  end.

Definition check_append (prev v : val) : val := VList (prev_as_list prev ++ val_as_items v).

(* NestedArg, Dict branch: {**prev_val, key: val} if prev_val is a dict else {key: val} *)
Definition check_nested (prev : val) (i : str) (z : Z) : val :=
  match prev with
  | VDict m => VDict (dict_set i z m)
  | _ => VDict [(i, z)]
  end.

(* ActionTypeHint.apply_appends *)
Definition apply_appends (p : parser) (cfg : node) : node :=
  fold_left
    (fun cfg key =>
       match find_action p (strip key) with
       | Some d =>
           if supports_append d then
             match lget key cfg with
             | Some v =>
                 let val := check_append (prev_val d cfg) v in
                 ns_pop key (ns_set (strip key) (Leaf val) cfg)
             | None => cfg      (* cfg[key] of a key just listed from cfg: unreachable *)
             end
           else cfg
       | None => cfg
       end)
    (filter is_plus (keys cfg)) cfg.

(* ArgumentParser.merge_config(cfg_from, cfg_to) *)
Definition merge_config (p : parser) (cfg_from cfg_to : node) : node :=
  let cfg_from := clone cfg_from in
  let cfg_to := clone cfg_to in
  let cfg_to := update cfg_to cfg_from in
  apply_appends p cfg_to.

(* ---- loading a config document ------------------------------------------------------------------- *)
(* The document the harness writes for a list of assignments: a nested mapping built by inserting
   the assignments in order, "key+" for an append.  load_value + _apply_actions turn it into the
   Namespace with the same shape (typed tokens are left as they are; "key+" has no action and is
   kept verbatim). *)
Definition asg_key (a : assignment) : tpath :=
  match snd a with Append _ => mark (fst a) | _ => fst a end.

Definition asg_val (a : assignment) : val :=
  match snd a with Set_ v => v | Append v => v | DictItem _ z => VTok z end.

Definition load_config (d : doc) : node :=
  fold_left (fun t a => ns_set (asg_key a) (Leaf (asg_val a)) t) d (Br FNil).

(* ---- get_defaults ------------------------------------------------------------------------------------ *)
Definition declared_defaults (p : parser) : node :=
  fold_left (fun cfg d => ns_set (d_key d) (Leaf (d_default d)) cfg) p (Br FNil).

(* _get_default_config_files: for pattern in listed order: sorted(glob(pattern)) *)
Definition default_config_files (pats : list (list (str * doc))) : list doc :=
  concat (map (fun m => map snd (sort_matches m)) pats).

Definition get_defaults (p : parser) (pats : list (list (str * doc))) : node :=
  let cfg := declared_defaults p in
  fold_left
    (fun cfg file =>
       match file with
       | [] => cfg                                    (* if not content.strip(): continue *)
       | _ => merge_config p (load_config file) cfg   (* cfg = merge_config(cfg_file, cfg) *)
       end)
    (default_config_files pats) cfg.

(* ---- ActionConfigFile.apply_config ------------------------------------------------------------------- *)
(* cfg.__dict__.update(cfg_merged.__dict__) *)
Fixpoint f_update (f g : forest) : forest :=
  match g with
  | FNil => f
  | FCons n c r => f_update (f_set n c f) r
  end.

Definition apply_config (p : parser) (cfg : node) (d : doc) : node :=
  let cfg_file := load_config d in                    (* parse_path / parse_string, no defaults, no env *)
  let cfg_merged := merge_config p cfg_file cfg in
  Br (f_update (kids cfg) (kids cfg_merged)).

(* ---- _load_env_vars ------------------------------------------------------------------------------------ *)
Definition load_env_vars (p : parser) (envcfg : option doc) (envvars : list (tpath * val)) : node :=
  let cfg := Br FNil in
  (* for action in actions: if env_var in env and isinstance(action, ActionConfigFile) *)
  let cfg := match envcfg with Some d => apply_config p cfg d | None => cfg end in
  (* for action in actions: if env_var in env and not config/subcommand *)
  fold_left
    (fun cfg d =>
       match alist_get (d_key d) envvars with
       | Some v => ns_set (d_key d) (Leaf v) cfg      (* cfg[action.dest] = _check_value_key(...) *)
       | None => cfg
       end)
    p cfg.

(* default_env setter + `if env or (env is None and self._default_env)` *)
Definition default_env_effective (c : call) : bool :=
  match c_os_default_env c with Some b => b | None => c_default_env c end.

Definition env_enabled (c : call) : bool :=
  match c_entry c with
  | EEnv => true
  | _ => match c_env_arg c with Some b => b | None => default_env_effective c end
  end.

(* _parse_defaults_and_environ *)
Definition defaults_and_environ (c : call) : node :=
  let p := c_parser c in
  let cfg := get_defaults p (c_patterns c) in
  if env_enabled c then
    let cfg_env := load_env_vars p (c_envcfg c) (c_envvars c) in
    merge_config p cfg_env cfg
  else cfg.

(* ---- the command line --------------------------------------------------------------------------------- *)
Inductive res (A : Type) := Ok (a : A) | Unrecognized.
Arguments Ok {A} a.
Arguments Unrecognized {A}.

(* how the harness writes an assignment as an option: --key=v, --key+=v, --key.item=v *)
Definition render_arg (a : assignment) : tpath * val :=
  match snd a with
  | Set_ v => (fst a, v)
  | Append v => (mark (fst a), v)
  | DictItem i z => (fst a ++ [(i, false)], VTok z)
  end.

(* one option: argparse looks up the option string; ActionTypeHint.parse_argv_item finds the parent
   action of a dotted option that is not registered; ActionTypeHint.__call__ *)
Definition option_step (p : parser) (cfg : node) (opt : tpath) (v : val) : res node :=
  match find_action p opt with
  | Some d => Ok (ns_set (d_key d) (Leaf v) cfg)                       (* cfg.update(val, self.dest) *)
  | None =>
      if is_plus opt then
        match find_action p (strip opt) with
        | Some d =>
            if supports_append d                                       (* "--dest+" is registered *)
            then Ok (ns_set (d_key d) (Leaf (check_append (prev_val d cfg) v)) cfg)
            else Unrecognized
        | None => Unrecognized
        end
      else
        match find_parent_action p opt with
        | Some (d, [(i, false)]) =>
            match d_kind d, v with
            | KDict, VTok z => Ok (ns_set (d_key d) (Leaf (check_nested (prev_val d cfg) i z)) cfg)
            | _, _ => Unrecognized
            end
        | _ => Unrecognized
        end
  end.

Definition argv_step (p : parser) (cfg : node) (a : arg) : res node :=
  match a with
  | ACfg d => Ok (apply_config p cfg d)                                (* ActionConfigFile.__call__ *)
  | AAsg x => let (opt, v) := render_arg x in option_step p cfg opt v
  end.

Fixpoint argv_fold (p : parser) (cfg : node) (argv : list arg) : res node :=
  match argv with
  | [] => Ok cfg
  | a :: argv' =>
      match argv_step p cfg a with
      | Ok cfg' => argv_fold p cfg' argv'
      | Unrecognized => Unrecognized
      end
  end.

(* ---- the four parse methods --------------------------------------------------------------------------- *)
Definition pipeline (c : call) : res node :=
  let p := c_parser c in
  match c_entry c with
  | EArgs argv =>                       (* parse_args: seed argparse with the merged namespace *)
      argv_fold p (defaults_and_environ c) argv
  | EEnv =>                             (* parse_env *)
      Ok (defaults_and_environ c)
  | EString d =>                        (* parse_string: cfg = load; merge_config(cfg, cfg_base) *)
      let cfg := load_config d in
      let cfg_base := defaults_and_environ c in
      Ok (merge_config p cfg cfg_base)
  | EObject d =>                        (* parse_object: merge_config(cfg_apply, cfg) *)
      let cfg := defaults_and_environ c in
      let cfg_apply := load_config d in
      Ok (merge_config p cfg_apply cfg)
  end.

(* ---- what is observed: the value of every declared key, and whether anything else is left ---------- *)
Definition declared (p : parser) (k : tpath) : bool := existsb (fun d => path_eqb (d_key d) k) p.

Definition observe_values (p : parser) (t : node) : list val :=
  map (fun d => match lget (d_key d) t with Some v => v | None => VNone end) p.

Definition observe_extra (p : parser) (t : node) : bool :=
  existsb (fun k => negb (declared p k)) (keys t).

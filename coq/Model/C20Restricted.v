(* C20 — model of jsonargparse/typing.py: extend_base_type.__new__, restricted_number_type's
   validation_fn, and the retry of ActionTypeHint._check_type, written in the shape of the code.
   The operator table is regenerated from the source (Gen/C20Operators.v). *)
From JV Require Import Lib.Base Lib.C20Text Model.C20Base Gen.C20Operators.
Local Open Scope Z_scope.

Record rtype := { r_base : base; r_restr : list (str * num); r_join : join }.

Definition million : Z := 1000000.

(* ---- Python's int(v) / float(v); None = the call raises ------------------------------------ *)
Definition py_int (v : pyval) : option Z :=
  match v with
  | PInt z => Some z
  | PBool b => Some (if b then 1 else 0)
  | PFloat (FFin m) => Some (Z.quot m million)          (* truncation towards zero *)
  | PFloat _ => None                                     (* OverflowError / ValueError *)
  | PStr s => parse_int_str s
  | PNone | POther => None                               (* TypeError *)
  end.

Definition py_float (v : pyval) : option fl :=
  match v with
  | PInt z => float_of_int z                              (* rounds beyond 2^53; OverflowError *)
  | PBool b => Some (FFin (if b then million else 0))
  | PFloat f => Some f
  | PStr s => parse_float_str s
  | PNone | POther => None
  end.

Definition cast (b : base) (v : pyval) : option num :=    (* cls._type(v) *)
  match b with
  | BInt => option_map NI (py_int v)
  | BFloat => option_map NF (py_float v)
  end.

(* ---- comparisons of Python numbers (int/float mixed comparisons are exact in Python) -------- *)
Definition fl_of_num (n : num) : fl := match n with NI z => FFin (z * million) | NF f => f end.

Definition fl_compare (a b : fl) : option comparison :=    (* None: unordered (NaN) *)
  match a, b with
  | FNan, _ | _, FNan => None
  | FFin x, FFin y => Some (x ?= y)
  | FInf true, FInf true | FInf false, FInf false => Some Eq
  | FInf true, _ => Some Lt
  | _, FInf true => Some Gt
  | FInf false, _ => Some Gt
  | _, FInf false => Some Lt
  end.

Definition apply_op (o : opfn) (a b : num) : bool :=
  match fl_compare (fl_of_num a) (fl_of_num b) with
  | None => match o with OpNe => true | _ => false end
  | Some c =>
      match o, c with
      | OpGt, Gt | OpGe, Gt | OpGe, Eq | OpLt, Lt | OpLe, Lt | OpLe, Eq | OpEq, Eq
      | OpNe, Lt | OpNe, Gt => true
      | _, _ => false
      end
  end.

(* _operators2 = {v: k for k, v in _operators1.items()}  — later entries win *)
Definition operators2 (sym : str) : option opfn :=
  fold_left (fun acc kv => if str_eqb (snd kv) sym then Some (fst kv) else acc) operators1 None.

(* restrictions = [(_operators2[x[0]], x[1]) for x in restrictions]; None = creation raises *)
Fixpoint resolve (rs : list (str * num)) : option (list (opfn * num)) :=
  match rs with
  | [] => Some []
  | (sym, ref) :: rs' =>
      match operators2 sym, resolve rs' with
      | Some o, Some l => Some ((o, ref) :: l)
      | _, _ => None
      end
  end.

Definition is_integer (v : pyval) : bool :=                (* float.is_integer *)
  match v with PFloat (FFin m) => Z.eqb (m mod million) 0 | _ => false end.
Definition is_float (v : pyval) : bool := match v with PFloat _ => true | _ => false end.
Definition is_bool (v : pyval) : bool := match v with PBool _ => true | _ => false end.

(* validation_fn(cls, v): true = returns, false = raises *)
Definition validation_fn (b : base) (ops : list (opfn * num)) (j : join) (v : pyval) : bool :=
  if is_bool v then false
  else if (match b with BInt => true | BFloat => false end) && is_float v && negb (is_integer v) then false
  else match cast b v with
       | None => false
       | Some vv =>
           let check := map (fun cr => apply_op (fst cr) vv (snd cr)) ops in
           negb ((match j with JAnd => true | JOr => false end) && negb (forallb (fun x => x) check)
                 || (match j with JOr => true | JAnd => false end) && negb (existsb (fun x => x) check))
       end.

(* TypeCore.__new__: validate, then cast. None = raises. *)
Definition construct (t : rtype) (v : pyval) : option num :=
  match resolve (r_restr t) with
  | None => None
  | Some ops => if validation_fn (r_base t) ops (r_join t) v then cast (r_base t) v else None
  end.

(* ActionTypeHint._check_type for a restricted-number argument: adapt the loaded value; on
   ValueError retry with the original value when that is a str. *)
Definition check_type (t : rtype) (loaded : pyval) (orig : pyval) : option num :=
  match construct t loaded with
  | Some b => Some b
  | None => match orig with PStr s => construct t (PStr s) | _ => None end
  end.

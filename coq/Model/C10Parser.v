(* C10 — namespace level: ArgumentParser.parse_object over a parser with typed arguments under
   (possibly nested, dotted) keys, in the shape of _core.py:499-515 (parse_object),
   _core.py:1319-1377 (_apply_actions), _core.py:1381-1397 (merge_config), _core.py:1079-1163 (validate).
     cfg        = defaults, each non-None default passed through its action (_apply_actions(cfg))
     cfg_apply  = the object's leaves, each non-None one passed through its action
     cfg        = merge (object over defaults), every declared key present
     validate   : every non-None value re-checked by its action; an undeclared key is an error
   Not modelled here: environment, config-file arguments, subcommands, links, append (`key+`),
   class-typed arguments, a scalar given for a group key. *)
From JV Require Import Lib.Base Model.C10Adapt.

Record decl := { d_key : str; d_ty : ty; d_default : val }.     (* d_key is the dotted destination *)
Definition parser := list decl.

Fixpoint find_decl (p : parser) (key : str) : option decl :=
  match p with
  | [] => None
  | d :: p' => if str_eqb (d_key d) key then Some d else find_decl p' key
  end.

Fixpoint has_prefix (pre s : str) : bool :=
  match pre, s with
  | [], _ => true
  | x :: pre', y :: s' => N.eqb x y && has_prefix pre' s'
  | _, [] => false
  end.

Definition dot : N := 46%N.
Definition join (prefix k : str) : str := match prefix with [] => k | _ => prefix ++ dot :: k end.
Definition is_branch (p : parser) (key : str) : bool := existsb (fun d => has_prefix (key ++ [dot]) (d_key d)) p.

(* _apply_actions walks the object: a key with an action is a leaf (its whole value goes to the action),
   a key without one is expanded when its value is a dict; anything else is left for validate to refuse *)
Fixpoint flatten (p : parser) (prefix : str) (x : val) {struct x} : option (list (str * val)) :=
  match x with
  | VDict d =>
      (fix go (d : list (val * val)) : option (list (str * val)) :=
         match d with
         | [] => Some []
         | (VStr k, y) :: d' =>
             let key := join prefix k in
             match find_decl p key with
             | Some _ => option_map (cons (key, y)) (go d')
             | None => if is_branch p key
                       then match flatten p key y, go d' with
                            | Some a, Some b => Some (a ++ b)
                            | _, _ => None
                            end
                       else None
             end
         | _ => None
         end) d
  | _ => None
  end.

Fixpoint lookup (asg : list (str * val)) (key : str) : option val :=
  match asg with
  | [] => None
  | (k, v) :: asg' => if str_eqb k key then Some v else lookup asg' key
  end.

Fixpoint mapM {A B} (f : A -> option B) (l : list A) : option (list B) :=
  match l with
  | [] => Some []
  | x :: l' => match f x, mapM f l' with Some y, Some r => Some (y :: r) | _, _ => None end
  end.

Definition is_none (v : val) : bool := match v with VNone => true | _ => false end.

Section Parser.
Variable jload : str -> lres.
Variable pval : bool -> str -> lres.
Variable ikey : str -> option Z.

(* _check_value_key under lenient_check: None is passed through, anything else goes to _check_type *)
Definition apply_action (d : decl) (y : val) : option val :=
  if is_none y then Some VNone
  else match check_type jload pval ikey (d_default d) (d_ty d) y with AOk w => Some w | AErr _ => None end.

(* ActionTypeHint.add_sub_defaults = _apply_actions restricted to values that are str (or Namespace /
   subclass specs, not modelled).  It runs inside get_defaults (on the declared defaults) and again in
   _parse_common (on the merged configuration, before validation): a str is passed through its action
   one more time there. *)
Definition sub_defaults (d : decl) (w : val) : option val :=
  if is_str w
  then match check_type jload pval ikey (d_default d) (d_ty d) w with AOk x => Some x | AErr _ => None end
  else Some w.

(* get_defaults, then _apply_actions(cfg) in parse_object *)
Definition default_value (d : decl) : option val :=
  match sub_defaults d (d_default d) with
  | None => None
  | Some d1 => apply_action d d1
  end.

(* the value a declared key ends up with: the adapted default, overridden by the adapted object leaf,
   then add_sub_defaults of _parse_common *)
Definition key_value (asg : list (str * val)) (d : decl) : option val :=
  match default_value d with
  | None => None                       (* a default its own action refuses fails every parse *)
  | Some dv => match lookup asg (d_key d) with
               | None => sub_defaults d dv
               | Some y => match apply_action d y with
                           | None => None
                           | Some w => sub_defaults d w
                           end
               end
  end.

Fixpoint validate_all (p : parser) (cfg : list val) : bool :=
  match p, cfg with
  | d :: p', w :: cfg' => validate_key jload pval ikey (d_default d) (d_ty d) w && validate_all p' cfg'
  | [], [] => true
  | _, _ => false
  end.

(* parse_object on the leaves of the object; the configuration is listed in declaration order *)
Definition parse_flat (p : parser) (asg : list (str * val)) : option (list val) :=
  if negb (forallb (fun kv => match find_decl p (fst kv) with Some _ => true | None => false end) asg) then None
  else match mapM (key_value asg) p with
       | None => None
       | Some cfg => if validate_all p cfg then Some cfg else None
       end.

Definition parse_obj (p : parser) (obj : val) : option (list val) :=
  match flatten p [] obj with
  | None => None
  | Some asg => parse_flat p asg
  end.

(* a configuration handed back as an object: every declared key with its value *)
Definition as_assignments (p : parser) (cfg : list val) : list (str * val) := combine (map d_key p) cfg.

(* the guard: every _check_type call that produced a value of the result is inside the key-level guard *)
Definition decl_guard (asg : list (str * val)) (d : decl) : bool :=
  match lookup asg (d_key d) with
  | Some y => is_none y || key_guard jload pval ikey (d_default d) (d_ty d) y
  | None => match sub_defaults d (d_default d) with
            | Some d1 => is_none d1 || key_guard jload pval ikey (d_default d) (d_ty d) d1
            | None => true
            end
  end.

Definition ns_guard (p : parser) (asg : list (str * val)) : bool := forallb (decl_guard asg) p.

Fixpoint nodup_keys (p : parser) : bool :=
  match p with
  | [] => true
  | d :: p' => negb (existsb (fun d' => str_eqb (d_key d') (d_key d)) p') && nodup_keys p'
  end.

End Parser.

(* C11, patched code: the hypotheses of the refinement theorem for Model/C11NsFixed.v as ONE executable classifier.
   hist_class_fx clash ops = 0 is, literally, the hypothesis of Properties/C11.v:ns_refines_dict, and the judge
   (Corr/C11Judge.v:judge_fixed) uses the same function for v_class. There is no path-through-dict class any more. *)
From JV Require Import Lib.Base Model.Ns Model.NsRun Model.NsGuard Model.C11NsFixed.

Section WithClash.
Variable clash : list str.

(* a value in stored form along every PATH: every Namespace reachable through Namespaces and dicts has stored_ok
   attribute names (dotted keys now walk through dict values, so a Namespace stored inside a dict is addressable);
   Namespaces hidden below a list / tuple are not constrained; keys of a dict are the user's and not constrained *)
Fixpoint wf2 (v : val) : bool :=
  match v with
  | VNs d => forallb (fun kv => stored_ok clash (fst kv) && wf2 (snd kv)) d
  | VDict d => forallb (fun kv => wf2 (snd kv)) d
  | _ => true
  end.

(* the prefix update(namespace, key) puts in front of every item key: `key + "." if key else ""` *)
Definition upd_prefix (k : option str) : str :=
  match k with Some (c :: k') => (c :: k') ++ [DOT] | _ => [] end.

(* update(namespace, key, only_unset) assigns self[prefix + item_key] for every leaf item of the source: each of
   those keys must be a key of user-visible names (as for ns[k] = v; keys the code rejects are included) *)
Definition upd_keys_ok (src : val) (k : option str) : bool :=
  match src with
  | VNs sd => forallb (fun kv => wf_key (upd_prefix k ++ fst kv)) (ns_items false sd)
  | _ => true
  end.

Definition wf_op_fx (o : op) : bool :=
  match o with
  | OSet k v => wf_key k && wf2 v
  | OSetAttr k v =>
      wf_key k && wf2 v && (mem_N DOT k || (negb (mem_N SPACE k) && negb (is_empty k)))
  | OGet k | OContains k | ODel k | OGetSteps k => wf_key k
  | OGetD k _ | OPop k _ => wf_key k
  | OUpdV v k _ => wf2 v && wf_okey k
  | OUpdNs src k _ => wf2 src && upd_keys_ok src k
  | OClone | OItems _ | OAsDict => true
  | OEq v => wf2 v
  | OInitDict d =>
      match d with
      | VDict dd => forallb (fun kv => wf_key (fst kv) && wf2 (snd kv)) dd
      | _ => true
      end
  | OFromDict _ => true
  end.

(* operations covered by the proved refinement of the current code: the core of Model/NsGuard.v AND
   update(namespace, key, only_unset) *)
Definition core_op_fx (o : op) : bool :=
  match o with
  | OUpdNs _ _ _ => true
  | _ => core_op o
  end.

(* 0 = inside the theorem; 2 = ill-formed key or value; 3 = an operation outside the proved core
   (Namespace(dict), dict_to_namespace, ==, step-by-step get as a history step) *)
Definition hist_class_fx (ops : list op) : N :=
  if negb (forallb wf_op_fx ops) then 2%N
  else if negb (forallb core_op_fx ops) then 3%N
  else 0%N.

End WithClash.

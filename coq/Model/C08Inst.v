(* C08, second sentence — "Instantiating classes twice from one configuration builds, for every class
   given by a class_path/init_args spec (including specs derived from signature defaults), two distinct
   fresh objects."

   Model of ArgumentParser.instantiate_classes / ActionTypeHint.instantiate_classes / adapt_class_type
   (_core.py instantiate_classes, _typehints.py adapt_class_type) restricted to what decides object
   identity.  The configuration is described INDEPENDENTLY of the parser's output: a tree of scalars,
   lists, tuples and class specs, where a spec lists ALL parameters of its class in signature order —
   those written in the configuration and those that come from a signature default or a parser
   default (`dflt = true`: lazy_instance(...) defaults, which normalize_default / the sub-defaults
   pass turn into class_path/init_args specs).  A spec is instantiated by first instantiating its
   init_args in order and then calling instantiator_fn(val_class, **init_args), which builds a NEW
   object; nothing is cached between specs or between calls.  Object identity is a counter (the n-th
   object built); identity 0 stands for "an object that existed before the call".

   `fx` selects the tree:
     fx = false  the current tree: ActionTypeHint.add_sub_defaults skips a value that is a TUPLE
                 (skip_sub_defaults_apply looks for specs in str / Namespace / list / dict values only),
                 and adapt_class_type calls parse_object(init_args, defaults=sub_defaults.get()); so for a
                 spec anywhere below a tuple the parameters left at a lazy_instance signature default
                 are NOT turned into specs: the class is called with its Python default, the one live
                 lazy object of the signature — an object that existed before and is the same in every
                 instantiation;
     fx = true   with fixes/C08-default-below-tuple-shared.patch (the sub-defaults pass also visits specs
                 below tuples). *)
From JV Require Import Lib.Base.

Inductive ival :=
| IInt (z : Z)
| ISpec (dflt : bool) (cls : str) (args : ivals)   (* dflt: not written in the configuration, derived from a default *)
| IList (xs : ivals)
| ITup (xs : ivals)
with ivals := INil | ICons (x : ival) (r : ivals).

(* what is built: objects carry the identity they were given *)
Inductive oinst :=
| BInt (z : Z)
| BObj (id : nat) (cls : str) (args : oinsts)
| BList (xs : oinsts)
with oinsts := BNil | BCons (x : oinst) (r : oinsts).

Fixpoint inst (fx below : bool) (c : nat) (v : ival) : oinst * nat :=
  match v with
  | IInt z => (BInt z, c)
  | ISpec dflt cls args =>
      if negb fx && below && dflt then (BObj 0 cls BNil, c)   (* the live default object of the signature: nothing is built *)
      else let '(ys, c1) := inst_list fx below c args in (BObj c1 cls ys, S c1)   (* init_args first, then the object *)
  | IList xs => let '(ys, c1) := inst_list fx below c xs in (BList ys, c1)
  | ITup xs => let '(ys, c1) := inst_list fx true c xs in (BList ys, c1)
  end
with inst_list (fx below : bool) (c : nat) (xs : ivals) : oinsts * nat :=
  match xs with
  | INil => (BNil, c)
  | ICons x r => let '(y, c1) := inst fx below c x in let '(ys, c2) := inst_list fx below c1 r in (BCons y ys, c2)
  end.

(* identities in the order in which the objects were finished (post-order) *)
Fixpoint ids (o : oinst) : list nat :=
  match o with
  | BInt _ => []
  | BObj id _ args => ids_list args ++ [id]
  | BList xs => ids_list xs
  end
with ids_list (xs : oinsts) : list nat :=
  match xs with BNil => [] | BCons x r => ids x ++ ids_list r end.

(* number of class specs = number of objects the property wants built per call *)
Fixpoint count (v : ival) : nat :=
  match v with
  | IInt _ => 0
  | ISpec _ _ args => S (count_list args)
  | IList xs | ITup xs => count_list xs
  end
with count_list (xs : ivals) : nat :=
  match xs with INil => 0 | ICons x r => count x + count_list r end.

(* the guard of the theorem for the current tree (= finding class of the judge): no default-derived
   spec anywhere below a tuple *)
Fixpoint okv (below : bool) (v : ival) : bool :=
  match v with
  | IInt _ => true
  | ISpec dflt _ args => negb (below && dflt) && okv_list below args
  | IList xs => okv_list below xs
  | ITup xs => okv_list true xs
  end
with okv_list (below : bool) (xs : ivals) : bool :=
  match xs with INil => true | ICons x r => okv below x && okv_list below r end.
Definition inst_guard (cfg : ivals) : bool := okv_list false cfg.

(* instantiate_classes(cfg) twice in one process: the second call continues the counter *)
Definition inst_twice (fx : bool) (c : nat) (cfg : ivals) : list nat * list nat :=
  let '(r1, c1) := inst_list fx false c cfg in
  let '(r2, _) := inst_list fx false c1 cfg in
  (ids_list r1, ids_list r2).

(* a (wrong) instantiate_classes that keeps the objects of the first call and hands them out again *)
Definition inst_twice_cached (c : nat) (cfg : ivals) : list nat * list nat :=
  let '(r1, _) := inst_list true false c cfg in (ids_list r1, ids_list r1).

(* ---- executable spec: all identities of the two runs are pairwise distinct, none existed before
   (>= the counter at the start), and each run built one object per spec *)
Fixpoint nodupb (xs : list nat) : bool :=
  match xs with [] => true | x :: r => negb (mem_nat x r) && nodupb r end.
Definition fresh_twice_ok (c : nat) (cfg : ivals) (ids1 ids2 : list nat) : bool :=
  nodupb (ids1 ++ ids2) && forallb (fun i => c <=? i) (ids1 ++ ids2)
  && Nat.eqb (length ids1) (count_list cfg) && Nat.eqb (length ids2) (count_list cfg).

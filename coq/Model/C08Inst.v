(* C08, second sentence — "Instantiating classes twice from one configuration builds, for every class
   given by a class_path/init_args spec (including specs derived from signature defaults), two distinct
   fresh objects."

   Model of ArgumentParser.instantiate_classes / ActionTypeHint.instantiate_classes / adapt_class_type
   (_core.py:1200-1256, _typehints.py:619-633, 1372-1415) restricted to what decides object identity:
   the configuration is a tree of scalars, lists and class specs; a spec is instantiated by first
   instantiating its init_args (parser.instantiate_classes(init_args)) in key order and then calling
   instantiator_fn(val_class, **init_args), which builds a NEW object; nothing is cached between
   specs or between calls.  Object identity is a counter (the n-th object built by the process). *)
From JV Require Import Lib.Base.

Inductive ival :=
| IInt (z : Z)
| ISpec (cls : str) (args : ivals)          (* class_path + the values of init_args, in key order *)
| IList (xs : ivals)
with ivals := INil | ICons (x : ival) (r : ivals).

(* what is built: objects carry the identity they were given *)
Inductive oinst :=
| BInt (z : Z)
| BObj (id : nat) (cls : str) (args : oinsts)
| BList (xs : oinsts)
with oinsts := BNil | BCons (x : oinst) (r : oinsts).

Fixpoint inst (c : nat) (v : ival) : oinst * nat :=
  match v with
  | IInt z => (BInt z, c)
  | ISpec cls args => let '(ys, c1) := inst_list c args in (BObj c1 cls ys, S c1)   (* init_args first, then the object *)
  | IList xs => let '(ys, c1) := inst_list c xs in (BList ys, c1)
  end
with inst_list (c : nat) (xs : ivals) : oinsts * nat :=
  match xs with
  | INil => (BNil, c)
  | ICons x r => let '(y, c1) := inst c x in let '(ys, c2) := inst_list c1 r in (BCons y ys, c2)
  end.

(* identities in the order in which the objects were finished (post-order) *)
Fixpoint ids (o : oinst) : list nat :=
  match o with
  | BInt _ => []
  | BObj id _ args => ids_list args ++ [id]
  | BList xs => ids_list xs
  end
with ids_list (xs : oinsts) : list nat :=
  match xs with BNil => [] | BCons x r => ids x ++ ids_list r end.

Fixpoint count (v : ival) : nat :=
  match v with
  | IInt _ => 0
  | ISpec _ args => S (count_list args)
  | IList xs => count_list xs
  end
with count_list (xs : ivals) : nat :=
  match xs with INil => 0 | ICons x r => count x + count_list r end.

(* instantiate_classes(cfg) twice in one process: the second call continues the counter *)
Definition inst_twice (c : nat) (cfg : ivals) : list nat * list nat :=
  let '(r1, c1) := inst_list c cfg in
  let '(r2, _) := inst_list c1 cfg in
  (ids_list r1, ids_list r2).

(* a (wrong) instantiate_classes that keeps the objects of the first call and hands them out again *)
Definition inst_twice_cached (c : nat) (cfg : ivals) : list nat * list nat :=
  let '(r1, _) := inst_list c cfg in (ids_list r1, ids_list r1).

(* ---- executable spec: all identities of the two runs are pairwise distinct, none existed before
   (>= the counter at the start), and each run built one object per spec *)
Fixpoint nodupb (xs : list nat) : bool :=
  match xs with [] => true | x :: r => negb (mem_nat x r) && nodupb r end.
Definition fresh_twice_ok (c : nat) (cfg : ivals) (ids1 ids2 : list nat) : bool :=
  nodupb (ids1 ++ ids2) && forallb (fun i => c <=? i) (ids1 ++ ids2)
  && Nat.eqb (length ids1) (count_list cfg) && Nat.eqb (length ids2) (count_list cfg).

(* C13 — model of the **kwargs parameter resolver of jsonargparse/_parameter_resolvers.py, in the
   shape of the code (bugs included), over a small DSL of Python programs.
   Executable definitions only; proofs live in Proofs/KwargsProofs.v.

   DSL (what tie/props/c13.py prints both as Gallina and as real Python source):
     program  = functions f0.. and classes C0..
     class    = bases (indices, multiple inheritance allowed), optional own __init__, own methods m<k>
     callable = typed parameters (name, type tag, default or required), optional **kwargs, body
     body     = list of   v = kwargs.pop("n", d) | v = kwargs.get("n", d)
                        | super().__init__(a.., h=.., **kwargs) | f<i>(a.., h=.., **kwargs)
                        | C<i>(a.., h=.., **kwargs)             | self.m<k>(a.., h=.., **kwargs)
   Code modelled (line numbers of the pinned tree):
     get_signature_parameters 1094-1134 (AST resolver, fall back to the assumptions resolver when the
       AST resolver raises), ParametersVisitor.get_parameters 867-883,
     get_parameters_args_and_kwargs 763-818, get_kwargs_pop_or_get_parameter 741-761,
     remove_given_parameters 266-274, get_mro_parameters / mro_context 457-483 (the MRO position is a
       context variable: the component of a class that inherits __init__ is the inherited function
       but the walk starts at position 0), get_node_component 645-673 (self.m is looked up on the
       class the visitor runs for, not on the instance's class), replace_args_and_kwargs 398-409,
       group_parameters 412-445 (incl. the `.startswith` on a tuple origin, which raises),
     get_parameters_by_assumptions 1074-1091. *)
From JV Require Import Lib.Base.

(* ---- programs --------------------------------------------------------------------------- *)
Inductive dflt := DReq | DVal (k : N) (z : Z).   (* k: kind of the literal (0 int, 1 float, 2 str) *)
Record sparam := { sp_name : str; sp_ty : N; sp_def : dflt;
                   sp_kwonly : bool }.   (* declared after a bare `*`; keyword-only parameters come last *)
Inductive callee := KSuper | KFunc (i : nat) | KClass (i : nat) | KMeth (m : nat)
                  | KSuperOf (c : nat).   (* super(C<c>, self).__init__(..): continue after C<c> in the MRO *)
Inductive stmt :=
| SPG (pop : bool) (n : str) (k : N) (z : Z)            (* v = kwargs.pop/get("n", literal) *)
| SCall (c : callee) (npos : nat) (given : list str).   (* callee(1,..,npos, g=.. for g in given, **kwargs) *)
Record fn := { f_params : list sparam; f_kw : bool; f_body : list stmt }.
Record cls := { c_bases : list nat; c_init : option fn; c_meths : list (nat * fn) }.
Record prog := { p_funcs : list fn; p_classes : list cls }.

Inductive rerr := EFuel | ECrash | EBad.
Inductive res (A : Type) := Ok (a : A) | Err (e : rerr).
Arguments Ok {A} a. Arguments Err {A} e.

(* ---- C3 linearisation (type.mro), object left out ----------------------------------------- *)
Fixpoint in_tails (x : nat) (seqs : list (list nat)) : bool :=
  match seqs with
  | [] => false
  | s :: r => (match s with [] => false | _ :: t => mem_nat x t end) || in_tails x r
  end.

Fixpoint pick (seqs all : list (list nat)) : option nat :=
  match seqs with
  | [] => None
  | s :: r => match s with
              | [] => pick r all
              | h :: _ => if in_tails h all then pick r all else Some h
              end
  end.

Definition drop_head (x : nat) (s : list nat) : list nat :=
  match s with h :: t => if Nat.eqb h x then t else s | [] => [] end.

Definition is_nil {A} (l : list A) : bool := match l with [] => true | _ => false end.

Fixpoint c3_merge (fuel : nat) (seqs : list (list nat)) : option (list nat) :=
  match fuel with
  | 0 => None
  | S f =>
      let seqs' := filter (fun s => negb (is_nil s)) seqs in
      match seqs' with
      | [] => Some []
      | _ => match pick seqs' seqs' with
             | None => None
             | Some h => option_map (cons h) (c3_merge f (map (drop_head h) seqs'))
             end
      end
  end.

Fixpoint mapM {A B} (f : A -> option B) (l : list A) : option (list B) :=
  match l with
  | [] => Some []
  | x :: r => match f x, mapM f r with Some y, Some ys => Some (y :: ys) | _, _ => None end
  end.

Fixpoint c3 (fuel : nat) (P : prog) (c : nat) : option (list nat) :=
  match fuel with
  | 0 => None
  | S f =>
      match nth_error (p_classes P) c with
      | None => None
      | Some k =>
          match mapM (c3 f P) (c_bases k) with
          | None => None
          | Some ms =>
              let seqs := ms ++ [c_bases k] in
              option_map (cons c) (c3_merge (S (length (concat seqs))) seqs)
          end
      end
  end.

(* ---- who defines a method ------------------------------------------------------------------ *)
Fixpoint assoc_nat {A} (m : nat) (l : list (nat * A)) : option A :=
  match l with [] => None | (k, v) :: r => if Nat.eqb k m then Some v else assoc_nat m r end.

(* mn = None: __init__;  Some m: method m<m> *)
Definition own_def (P : prog) (mn : option nat) (ci : nat) : option fn :=
  match nth_error (p_classes P) ci with
  | None => None
  | Some k => match mn with None => c_init k | Some m => assoc_nat m (c_meths k) end
  end.

Fixpoint find_def (P : prog) (mn : option nat) (l : list nat) (pos : nat) : option (nat * fn) :=
  match l with
  | [] => None
  | ci :: r => match own_def P mn ci with
               | Some f => Some (pos, f)
               | None => find_def P mn r (S pos)
               end
  end.

(* get_mro_parameters: the first class after position idx that has its own definition *)
Definition next_definer (P : prog) (mn : option nat) (classes : list nat) (start : nat) :=
  find_def P mn (skipn start classes) start.

(* position of class c in the MRO, at or after position start (ast_is_supported_super_call searches
   classes[idx:]; the interpreter searches the whole MRO of type(self)) *)
Fixpoint pos_from (c : nat) (l : list nat) (pos start : nat) : option nat :=
  match l with
  | [] => None
  | x :: r => if (start <=? pos) && Nat.eqb x c then Some pos else pos_from c r (S pos) start
  end.

(* ---- frames: a callable being analysed / executed, with its MRO context ---------------------- *)
Record frame := { fr_fn : fn; fr_mn : option nat; fr_ctx : option (list nat * nat) }.

Inductive mode := Resolver | Interp.

(* Resolver: get_component_and_parent + mro_context: the component is the __init__ found through the
   MRO, the context starts at position 0.   Interp: the position of the class that defines it. *)
Definition class_frame (md : mode) (fuel : nat) (P : prog) (c : nat) : res (option frame) :=
  match c3 fuel P c with
  | None => Err EBad
  | Some mro =>
      match find_def P None mro 0 with
      | None => Ok None
      | Some (j, f) =>
          Ok (Some {| fr_fn := f; fr_mn := None;
                      fr_ctx := Some (mro, match md with Resolver => 0 | Interp => j end) |})
      end
  end.

Definition callee_frame (md : mode) (fuel : nat) (P : prog) (fr : frame) (k : callee)
  : res (option frame) :=
  match k with
  | KFunc i => match nth_error (p_funcs P) i with
               | Some f => Ok (Some {| fr_fn := f; fr_mn := None; fr_ctx := None |})
               | None => Ok None
               end
  | KClass c => class_frame md fuel P c
  | KSuper =>
      match fr_ctx fr with
      | None => Ok None
      | Some (mro, idx) =>
          match next_definer P (fr_mn fr) mro (S idx) with
          | None => Ok None
          | Some (num, f) => Ok (Some {| fr_fn := f; fr_mn := fr_mn fr; fr_ctx := Some (mro, num) |})
          end
      end
  | KSuperOf c =>
      match fr_ctx fr with
      | None => Ok None
      | Some (mro, idx) =>
          match pos_from c mro 0 (match md with Resolver => idx | Interp => 0 end) with
          | None => match md with Resolver => Ok None   (* "unsupported super parameters": nothing resolved *)
                                | Interp => Err EBad    (* TypeError: obj must be an instance or subtype of type *)
                    end
          | Some p =>
              match next_definer P (fr_mn fr) mro (S p) with
              | None => Ok None
              | Some (num, f) => Ok (Some {| fr_fn := f; fr_mn := fr_mn fr; fr_ctx := Some (mro, num) |})
              end
          end
      end
  | KMeth m =>
      match fr_ctx fr with
      | None => Ok None
      | Some (mro, idx) =>
          match md with
          | Interp =>
              match find_def P (Some m) mro 0 with
              | None => Ok None
              | Some (j, f) => Ok (Some {| fr_fn := f; fr_mn := Some m; fr_ctx := Some (mro, j) |})
              end
          | Resolver =>
              (* get_node_component: function_or_class = self.parent = classes[idx] *)
              match nth_error mro idx with
              | None => Ok None
              | Some parent =>
                  match c3 fuel P parent with
                  | None => Err EBad
                  | Some pm =>
                      match find_def P (Some m) pm 0 with
                      | None => Ok None
                      | Some (_, f) =>
                          Ok (Some {| fr_fn := f; fr_mn := Some m; fr_ctx := Some (mro, idx) |})
                      end
                  end
              end
          end
      end
  end.

(* ---- resolved parameters (ParamData as far as it is observable) ---------------------------- *)
Inductive rdflt := RReq | RVal (k : N) (z : Z) | RCond.   (* RCond: ConditionalDefault *)
Record rparam := { r_name : str; r_ann : list N;   (* [] = inspect._empty, [t] = t, longer = Union *)
                   r_def : rdflt; r_kwonly : bool;
                   r_otup : bool }.                (* origin is a tuple *)

Definition of_dflt (d : dflt) : rdflt := match d with DReq => RReq | DVal k z => RVal k z end.

Definition own_rparams (f : fn) : list rparam :=
  map (fun p => {| r_name := sp_name p; r_ann := [sp_ty p]; r_def := of_dflt (sp_def p);
                   r_kwonly := sp_kwonly p; r_otup := false |}) (f_params f).

(* how many arguments the signature can take positionally *)
Definition npos_cap (f : fn) : nat := length (filter (fun p => negb (sp_kwonly p)) (f_params f)).

Definition pg_param (n : str) (k : N) (z : Z) : rparam :=
  {| r_name := n; r_ann := []; r_def := RVal k z; r_kwonly := true; r_otup := false |}.

Definition names (ps : list rparam) : list str := map r_name ps.

(* remove_given_parameters: positional indexes 0..npos-1, then keyword names *)
Definition remove_given (npos : nat) (given : list str) (ps : list rparam) : list rparam :=
  filter (fun p => negb (mem_str (r_name p) given)) (skipn npos ps).

(* names recorded in removed_params *)
Definition removed_of (given : list str) (ps : list rparam) : list str :=
  filter (fun n => mem_str n given) (names ps).

(* replace_args_and_kwargs for a signature whose **kwargs comes last *)
Definition replace_kwargs (own K : list rparam) : list rparam :=
  own ++ filter (fun p => negb (mem_str (r_name p) (names own))) K.

(* ---- group_parameters ---------------------------------------------------------------------- *)
Fixpoint nodup_by {A} (eqb : A -> A -> bool) (l : list A) (seen : list A) : list A :=
  match l with
  | [] => []
  | x :: r => if existsb (eqb x) seen then nodup_by eqb r seen else x :: nodup_by eqb r (x :: seen)
  end.

Definition rdflt_eqb (a b : rdflt) : bool :=
  match a, b with
  | RVal k z, RVal k' z' => N.eqb k k' && Z.eqb z z'
  | _, _ => false          (* ConditionalDefault objects hash by identity: never merged *)
  end.

Definition is_req (d : rdflt) : bool := match d with RReq => true | _ => false end.

Definition merge_occ (ncalls : nat) (ps : list rparam) : rparam :=
  match ps with
  | [] => pg_param [] 0 0  (* unreachable *)
  | g :: _ =>
      let types := nodup_by (list_eqb N.eqb) (filter (fun a => negb (is_nil a)) (map r_ann ps)) [] in
      let defs := nodup_by rdflt_eqb (filter (fun d => negb (is_req d)) (map r_def ps)) [] in
      if (ncalls <=? length ps) && (length types <=? 1) && (length defs <=? 1)
      then {| r_name := r_name g; r_ann := r_ann g; r_def := r_def g; r_kwonly := r_kwonly g;
              r_otup := false |}
      else {| r_name := r_name g;
              r_ann := if 1 <? length types then nodup_by N.eqb (concat types) [] else r_ann g;
              r_def := RCond; r_kwonly := r_kwonly g; r_otup := true |}
  end.

Definition head_otup (l : list rparam) : bool := match l with p :: _ => r_otup p | [] => false end.

(* lists: (is a call list, params) in the order the uses of **kwargs were found *)
Definition group (lists : list (bool * list rparam)) : res (list rparam) :=
  match lists with
  | [(_, l)] => Ok l
  | _ =>
      if existsb (fun bl => head_otup (snd bl)) lists then Err ECrash  (* tuple.startswith *)
      else
        let ncalls := length (filter fst lists) in
        let all := concat (map snd lists) in
        let keys := nodup_by str_eqb (names all) [] in
        Ok (map (fun k => merge_occ ncalls (filter (fun p => str_eqb (r_name p) k) all)) keys)
  end.

(* ---- get_parameters_args_and_kwargs: one pass over the uses of **kwargs --------------------- *)
Fixpoint collect (rec : frame -> res (list rparam)) (cf : callee -> res (option frame))
         (body : list stmt) : res (list (bool * list rparam) * list str) :=
  match body with
  | [] => Ok ([], [])
  | s :: body' =>
      match s with
      | SPG _ n k z =>
          match collect rec cf body' with
          | Ok (ls, rm) => Ok ((false, [pg_param n k z]) :: ls, rm)
          | Err e => Err e
          end
      | SCall c npos given =>
          let ps := match cf c with
                    | Err e => Err e
                    | Ok None => Ok []
                    | Ok (Some fr') => rec fr'
                    end in
          match ps with
          | Err e => Err e
          | Ok ps =>
              match collect rec cf body' with
              | Err e => Err e
              | Ok (ls, rm) =>
                  let ps' := remove_given npos given ps in
                  Ok ((if is_nil ps' then ls else (true, ps') :: ls), removed_of given ps ++ rm)
              end
          end
      end
  end.

(* ParametersVisitor.get_parameters; rec = get_signature_parameters on the callee *)
Definition ast_step (rec : frame -> res (list rparam)) (cf : callee -> res (option frame))
           (fr : frame) : res (list rparam) :=
  let f := fr_fn fr in
  let own := own_rparams f in
  if negb (f_kw f) then Ok own
  else match collect rec cf (f_body f) with
       | Err e => Err e
       | Ok (lists, removed) =>
           match group lists with
           | Err e => Err e
           | Ok g => Ok (replace_kwargs own (filter (fun p => negb (mem_str (r_name p) removed)) g))
           end
       end.

(* get_parameters_by_assumptions *)
Fixpoint assume (fuel : nat) (P : prog) (fr : frame) : res (list rparam) :=
  match fuel with
  | 0 => Err EFuel
  | S f' =>
      let own := own_rparams (fr_fn fr) in
      if negb (f_kw (fr_fn fr)) then Ok own
      else match fr_ctx fr with
           | None => Ok own
           | Some (mro, idx) =>
               match next_definer P (fr_mn fr) mro (S idx) with
               | None => Ok own
               | Some (num, f) =>
                   match assume f' P {| fr_fn := f; fr_mn := fr_mn fr; fr_ctx := Some (mro, num) |} with
                   | Ok sub => Ok (replace_kwargs own sub)
                   | Err e => Err e
                   end
               end
           end
  end.

(* get_signature_parameters: AST resolver; if it raises, (stubs: nothing), assumptions *)
Fixpoint resolve_frame (fuel : nat) (P : prog) (fr : frame) : res (list rparam) :=
  match fuel with
  | 0 => Err EFuel
  | S f' =>
      match ast_step (resolve_frame f' P) (callee_frame Resolver f' P fr) fr with
      | Err ECrash => assume (S f') P fr
      | r => r
      end
  end.

Definition resolve (fuel : nat) (P : prog) (c : nat) : res (list rparam) :=
  match class_frame Resolver fuel P c with
  | Err e => Err e
  | Ok None => Ok []
  | Ok (Some fr) => resolve_frame fuel P fr
  end.

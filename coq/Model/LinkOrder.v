(* Model of the link-ordering half of C16, in the shape of the code:
     ActionLink.instantiation_order   jsonargparse/_link_arguments.py:409-434
     ActionLink.reorder               jsonargparse/_link_arguments.py:437-447
     cycle check at link creation     jsonargparse/_link_arguments.py:193-198
     apply_instantiation_links        jsonargparse/_link_arguments.py:327-370
     ArgumentParser.instantiate_classes (depth sort, reorder, component loop)  jsonargparse/_core.py:1214-1256
   Keys are dotted strings exactly as in the code (str = list of code points); the string operations used by the code
   (split("."), rsplit(".",1), re.sub(r"\.init_args$",""), startswith(key+"."), replace("init_args.","init_args|"))
   are written out below.  Executable definitions only; proofs live in Proofs/C16LinkProofs.v (general) and Proofs/C16SmallSpace.v (kernel-evaluated product). *)
From JV Require Import Lib.Base Model.Graph.

Definition dot : N := 46%N.
Definition s_init_args : str := [105;110;105;116;95;97;114;103;115]%N.   (* "init_args" *)
Definition s_child : str := [99;104;105;108;100]%N.                       (* "child" *)
Definition s_sub : str := [115;117;98]%N.                                 (* "sub" *)

(* ---- string operations ------------------------------------------------------------------ *)

Fixpoint prefix_b (p s : str) : bool :=          (* s.startswith(p) *)
  match p, s with
  | [], _ => true
  | a :: p', b :: s' => N.eqb a b && prefix_b p' s'
  | _ :: _, [] => false
  end.

Fixpoint split_aux (cur : str) (s : str) : list str :=   (* cur: current segment, reversed *)
  match s with
  | [] => [rev cur]
  | c :: s' => if N.eqb c dot then rev cur :: split_aux [] s' else split_aux (c :: cur) s'
  end.
Definition split_key (s : str) : list str := split_aux [] s.           (* s.split(".") *)

Definition join_dot (l : list str) : str :=                             (* ".".join(l) *)
  match l with [] => [] | x :: l' => x ++ flat_map (fun y => dot :: y) l' end.

Definition depth (s : str) : nat := length (split_key s).               (* len(split_key(s)) *)

(* split_key_leaf(k)[0] = k.rsplit(".", 1)[0] *)
Definition key_parent (k : str) : str :=
  match split_key k with
  | [] | [_] => k
  | segs => join_dot (removelast segs)
  end.

(* re.sub(r"\.init_args$", "", s) *)
Definition strip_init_args (s : str) : str :=
  match split_key s with
  | [] | [_] => s
  | segs => if str_eqb (last segs []) s_init_args then join_dot (removelast segs) else s
  end.

(* key == dest or dest.startswith(key + ".")   (the test of `reorder`; with the arguments swapped it is also the
   test `target_key == target or target_key.startswith(target + ".")` of apply_instantiation_links) *)
Definition matches (key dest : str) : bool := str_eqb key dest || prefix_b (key ++ [dot]) dest.

Definition ends_init_args (x : str) : bool := prefix_b (rev s_init_args) (rev x).

(* parts = [x.replace("|", ".") for x in target.replace("init_args.", "init_args|").split(".")]
   "init_args." occurs exactly where a non-final segment ends in "init_args" (a segment contains no dot), so the
   replace/split/replace sequence glues every such segment to its successor.  (Keys are assumed free of "|".) *)
Fixpoint glue (segs : list str) : list str :=
  match segs with
  | [] => []
  | x :: rest =>
      match glue rest with
      | [] => [x]
      | y :: ps => if ends_init_args x then (x ++ dot :: y) :: ps else x :: y :: ps
      end
  end.

(* [".".join(parts[:num+1]) for num in range(len(parts)-1)] *)
Definition target_prefixes (t : str) : list str :=
  let parts := glue (split_key t) in
  map (fun n => join_dot (firstn (S n) parts)) (seq 0 (pred (length parts))).

(* ---- declarations, components, links ---------------------------------------------------- *)

(* How a class enters the parser (see tie/impl/c16_links.py):
     G   add_class_arguments(C, n)                C flat                 group n
     S   add_argument("--n", type=C)              C flat                 typehint action n
     SN  add_argument("--n", type=C)              C(sub: D)              typehint action n; D built inside it
     SNN add_argument("--n", type=C)              C(sub: D(sub: E))      typehint action n
     GN  add_class_arguments(C, n)                C(child: D)            typehint action n.child + group n
     GNN add_class_arguments(C, n)                C(child: D(sub: E))    typehint action n.child + group n *)
Inductive shape := ShG | ShS | ShSN | ShSNN | ShGN | ShGNN
                 | ShGI    (* add_class_arguments(C, n, instantiate=False): never constructed, not a component, cannot be a source;
                              its parameters are plain cfg entries, link targets that only the FINAL pass can fill *)
                 | ShTI.   (* add_argument("--n", type=Optional[Base]) given no value: a WHOLE class-typed argument that is a link
                              target (link(src, "n")): link_arguments replaces its action by the link action, so it is no
                              component, nothing is constructed for it, never a source; the final pass type-checks the value
                              (target_action._check_type) and writes it to cfg["n"] *)
Record decl := { d_name : str; d_shape : shape }.

Inductive ckind := KType | KGroup.
(* c_units: the objects the component constructs, in construction order (nested class-typed values first) *)
Record comp := { c_dest : str; c_kind : ckind; c_units : list str }.

Definition dotted (l : list str) : str := join_dot l.

Definition type_comps (d : decl) : list comp :=
  let n := d_name d in
  match d_shape d with
  | ShG | ShGI | ShTI => []
  | ShS => [{| c_dest := n; c_kind := KType; c_units := [n] |}]
  | ShSN => [{| c_dest := n; c_kind := KType; c_units := [dotted [n; s_init_args; s_sub]; n] |}]
  | ShSNN => [{| c_dest := n; c_kind := KType;
               c_units := [dotted [n; s_init_args; s_sub; s_init_args; s_sub]; dotted [n; s_init_args; s_sub]; n] |}]
  | ShGN => [{| c_dest := dotted [n; s_child]; c_kind := KType; c_units := [dotted [n; s_child]] |}]
  | ShGNN => [{| c_dest := dotted [n; s_child]; c_kind := KType;
               c_units := [dotted [n; s_child; s_init_args; s_sub]; dotted [n; s_child]] |}]
  end.

Definition group_comps (d : decl) : list comp :=
  match d_shape d with
  | ShG | ShGN | ShGNN => [{| c_dest := d_name d; c_kind := KGroup; c_units := [d_name d] |}]   (* ShGI: no instantiate_class *)
  | _ => []
  end.

(* instantiate_classes: ActionTypeHint actions in parser._actions order, then the class groups *)
Definition components (ds : list decl) : list comp := flat_map type_comps ds ++ flat_map group_comps ds.

(* components.sort(key=lambda x: -len(split_key(x.dest)))   — list.sort is stable *)
Fixpoint insert_desc (c : comp) (l : list comp) : list comp :=
  match l with
  | [] => [c]
  | x :: l' => if Nat.leb (depth (c_dest x)) (depth (c_dest c)) then c :: l else x :: insert_desc c l'
  end.
Definition depth_sort (cs : list comp) : list comp := fold_right insert_desc [] cs.

Record link := { l_id : nat;               (* identity of the link action (= index of the target parameter) *)
                 l_srcs : list str;        (* source keys *)
                 l_target : str;           (* target key = ActionLink.dest *)
                 l_fn : bool }.            (* compute_fn given *)

(* find_subclass_action_or_class_group(parser, key).dest: the class-typed action whose dest is key or the nearest
   parent of key, else the class group whose dest is key or key's parent. *)
Definition is_type (c : comp) : bool := match c_kind c with KType => true | KGroup => false end.

Fixpoint deepest (best : option comp) (cs : list comp) : option comp :=
  match cs with
  | [] => best
  | c :: cs' =>
      deepest (match best with
               | None => Some c
               | Some b => if Nat.ltb (depth (c_dest b)) (depth (c_dest c)) then Some c else best
               end) cs'
  end.

Definition resolve_src (cs : list comp) (k : str) : option comp :=
  match deepest None (filter (fun c => is_type c && matches (c_dest c) k) cs) with
  | Some c => Some c
  | None => find (fun c => negb (is_type c) && (str_eqb (c_dest c) k || str_eqb (c_dest c) (key_parent k))) cs
  end.

Definition src_dests (cs : list comp) (l : link) : list str :=
  flat_map (fun k => match resolve_src cs k with Some c => [c_dest c] | None => [] end) (l_srcs l).

(* is_nested_instantiation_link(action), with action.target[1] = the class-typed action owning the target key *)
Definition target_action (cs : list comp) (l : link) : option comp :=
  deepest None (filter (fun c => is_type c && matches (c_dest c) (l_target l)) cs).
Definition is_nested (cs : list comp) (l : link) : bool :=
  match target_action cs l with
  | None => false
  | Some c =>
      prefix_b (c_dest c ++ dot :: s_init_args ++ [dot]) (l_target l)
      && forallb (fun k => match resolve_src cs k with
                           | Some c' => str_eqb (c_dest c') (c_dest c) && prefix_b (c_dest c ++ [dot]) k
                           | None => false
                           end) (l_srcs l)
  end.

(* ---- variants of the code ------------------------------------------------------------------
   The model is written once for the pinned code and for the code after the two proposed repairs:
     fx_order  = fixes/C16-nested-target-order.patch (instantiation_order: prefix edges to every linked component)
     fx_source = fixes/C16-source-under-group.patch   (instantiated class-typed sources are looked up in a record)
   `nofix` is the pinned tree.  Everything from here to the end of the file lives in a Section over `fx`. *)
Record fixes := { fx_order : bool; fx_source : bool }.
Definition nofix : fixes := {| fx_order := false; fx_source := false |}.
Definition allfix : fixes := {| fx_order := true; fx_source := true |}.

(* ---- instantiation_order ----------------------------------------------------------------- *)

Definition target_node (l : link) : str := strip_init_args (key_parent (l_target l)).

Definition phase1 (cs : list comp) (ls : list link) : list (str * str) :=
  flat_map (fun l => map (fun s => (s, target_node l)) (src_dests cs l)) ls.

Definition dedup (l : list str) : list str :=     (* the set `targets`, in first-seen order *)
  fold_left (fun acc x => if mem_str x acc then acc else acc ++ [x]) l [].

(* sorted(targets, key=lambda x: len(split_key(x)))  — stable; the iteration order of the set only decides ties, and a
   tie cannot change the edges added below (a prefix is strictly shallower than the target it is a prefix of) *)
Fixpoint insert_asc (x : str) (l : list str) : list str :=
  match l with
  | [] => [x]
  | y :: l' => if Nat.leb (depth x) (depth y) then x :: l else y :: insert_asc x l'
  end.
Definition sort_targets (ts : list str) : list str := fold_right insert_asc [] ts.

Fixpoint phase2_loop (ts : list str) (seen : list str) : list (str * str) :=
  match ts with
  | [] => []
  | t :: ts' =>
      map (fun p => (t, p)) (filter (fun p => mem_str p seen) (target_prefixes t))
      ++ phase2_loop ts' (t :: seen)
  end.

Definition phase2 (ls : list link) : list (str * str) :=
  match sort_targets (dedup (map target_node ls)) with
  | [] => []
  | t0 :: rest => phase2_loop rest [t0]
  end.

(* after fixes/C16-nested-target-order.patch: `linked` = targets | sources of the links that are not nested; every target,
   the shallowest included, gets an edge to each of its prefixes that is linked *)
Definition linked_nodes (cs : list comp) (ls : list link) : list str :=
  map target_node ls ++ flat_map (fun l => if is_nested cs l then [] else src_dests cs l) ls.
Definition phase2_fixed (cs : list comp) (ls : list link) : list (str * str) :=
  let linked := linked_nodes cs ls in
  flat_map (fun t => map (fun p => (t, p)) (filter (fun p => mem_str p linked) (target_prefixes t)))
           (sort_targets (dedup (map target_node ls))).

Section Variant.
Variable fx : fixes.

Definition link_edges (cs : list comp) (ls : list link) : list (str * str) :=
  phase1 cs ls ++ (if fx_order fx then phase2_fixed cs ls else phase2 ls).

Definition inst_order (cs : list comp) (ls : list link) : topo_out :=
  match ls with
  | [] => Order []
  | _ => topo (build (link_edges cs ls))
  end.

(* ---- reorder ------------------------------------------------------------------------------ *)

Section Reorder.
  Context {A : Type} (dest : A -> str).
  Fixpoint reorder (order : list str) (cs : list A) : list A :=
    match order with
    | [] => cs
    | k :: order' =>
        filter (fun c => matches k (dest c)) cs
        ++ reorder order' (filter (fun c => negb (matches k (dest c))) cs)
    end.
End Reorder.

(* ---- link_arguments: the cycle check after each added link -------------------------------- *)

(* None: all links accepted; Some k: the k-th call (0-based) raised ValueError (graph has cycles) *)
Fixpoint add_links_from (cs : list comp) (done : list link) (todo : list link) (k : nat) : option nat :=
  match todo with
  | [] => None
  | l :: todo' =>
      match inst_order cs (done ++ [l]) with
      | Order _ => add_links_from cs (done ++ [l]) todo' (S k)
      | _ => Some k
      end
  end.
Definition add_links (cs : list comp) (ls : list link) : option nat := add_links_from cs [] ls 0.

(* ---- instantiate_classes ------------------------------------------------------------------- *)

(* getattr(instance of unit u, a).  Convention of the scratch classes (tie/impl/c16_links.py): the attributes an, az, ae, af
   hold None, 0, "" and False; every other attribute (at) holds a marker object that identifies the unit. *)
Definition s_an : str := [97;110]%N.  Definition s_az : str := [97;122]%N.
Definition s_ae : str := [97;101]%N.  Definition s_af : str := [97;102]%N.
Inductive base := BObj (u : str) | BAttr (u : str)      (* BAttr u: the marker object held by an attribute of unit u *)
                | BLit (n : N)                          (* 0 = None, 1 = 0, 2 = "", 3 = False *)
                | BNs (c : str).   (* the not yet instantiated Namespace of component c *)
Definition attr_value (u a : str) : base :=
  if str_eqb a s_an then BLit 0 else if str_eqb a s_az then BLit 1
  else if str_eqb a s_ae then BLit 2 else if str_eqb a s_af then BLit 3 else BAttr u.
Definition key_leaf (k : str) : str := last (split_key k) [].          (* split_key_leaf(k)[1] *)
Inductive value := VBase (b : base) | VFn (j : nat) (args : list base).
Inductive event :=
| ENew (u : str) (args : list (nat * value))      (* constructor of unit u; (parameter index, value) for set link parameters *)
| ECall (j : nat) (args : list base)              (* compute_fn of link j *)
| ECfg (u : str) (args : list (nat * value)).     (* what the returned cfg holds for the link parameters of the never instantiated group u *)

Inductive outcome := OOk | OLinkErr (k : nat) | OExc | OUnmodelled.

Record state := { st_inst : list str;             (* dests of the components instantiated so far *)
                  st_applied : list nat;          (* __applied_instantiation_links__ *)
                  st_vals : list (nat * value);   (* values written into cfg by set_target_value, latest first *)
                  st_log : list event }.          (* reversed *)

Inductive src_res := SVal (b : base) | SSkip | SRaise.

(* cfg[source_action.dest] when a class group enclosing the source component has already been replaced by its instance *)
Definition under_instantiated_group (c : comp) (st : state) : bool :=
  existsb (fun d => prefix_b (d ++ [dot]) (c_dest c)) (st_inst st).

(* one (source_key, source_action) of a link *)
Definition source_object (cs : list comp) (st : state) (k : str) : src_res :=
  match resolve_src cs k with
  | None => SRaise
  | Some c =>
      let inst := mem_str (c_dest c) (st_inst st) in
      if under_instantiated_group c st && negb (fx_source fx && is_type c && inst)
      then SRaise        (* cfg[dest] goes through an object: NSKeyError (fx_source: taken from `instantiated` instead) *)
      else if str_eqb k (c_dest c) then SVal (if inst then BObj (c_dest c) else BNs (c_dest c))   (* cfg[dest]: object, or still a Namespace *)
      else if inst then SVal (attr_value (c_dest c) (key_leaf k))                  (* getattr(object, attr), whatever its value *)
      else if is_type c then SSkip              (* not hasattr(namespace, attr): link ignored for now *)
      else SRaise                               (* getattr(namespace, attr): AttributeError *)
  end.

Fixpoint source_objects (cs : list comp) (st : state) (ks : list str) : option (list base) :=
  match ks with
  | [] => Some []
  | k :: ks' =>
      match source_object cs st k, source_objects cs st ks' with
      | SRaise, _ => None
      | _, None => None
      | SSkip, Some r => Some r
      | SVal b, Some r => Some (b :: r)
      end
  end.

(* the body of the `for action in link_actions` loop; None = exception escapes *)
(* set_target_value, target_key == target_action.dest (the target is a whole class-typed argument, a key without dots):
   target_action._check_type(value) raises for a value that is neither an instance of the (scratch) base class nor None;
   of the values of the harness these are 0, "" and False. *)
Definition whole_target (l : link) : bool := Nat.eqb (depth (l_target l)) 1.
Definition ill_typed (l : link) (v : value) : bool :=
  whole_target l && match v with VBase (BLit n) => negb (N.eqb n 0) | _ => false end.

Definition apply_one (cs : list comp) (st : state) (l : link) : option state :=
  match source_objects cs st (l_srcs l) with
  | None => None
  | Some [] => Some st
  | Some (b :: bs) =>
      let v := if l_fn l then VFn (l_id l) (b :: bs) else VBase b in
      if ill_typed l v then None else
      Some {| st_inst := st_inst st;
              st_applied := l_id l :: st_applied st;
              st_vals := (l_id l, v) :: st_vals st;
              st_log := if l_fn l then ECall (l_id l) (b :: bs) :: st_log st else st_log st |}
  end.

Fixpoint apply_list (cs : list comp) (ls : list link) (st : state) : option state :=
  match ls with
  | [] => Some st
  | l :: ls' => match apply_one cs st l with None => None | Some st' => apply_list cs ls' st' end
  end.

Definition pending (cs : list comp) (ls : list link) (st : state) : list link :=
  filter (fun l => negb (mem_nat (l_id l) (st_applied st)) && negb (is_nested cs l)) ls.

(* apply_instantiation_links(parser, cfg, target=component.dest) *)
Definition apply_for (cs : list comp) (ls : list link) (target : str) (st : state) : option state :=
  apply_list cs (filter (fun l => matches target (l_target l)) (pending cs ls st)) st.

(* apply_instantiation_links(parser, cfg, order=order) *)
Definition apply_final (cs : list comp) (ls : list link) (order : list str) (st : state) : option state :=
  match order with
  | [] => Some st          (* `not (order or ...)` with target None: nothing matches *)
  | _ => apply_list cs (reorder l_target order (pending cs ls st)) st
  end.

Fixpoint lookup_val (j : nat) (vals : list (nat * value)) : option value :=
  match vals with
  | [] => None
  | (i, v) :: vals' => if Nat.eqb i j then Some v else lookup_val j vals'
  end.

(* what the constructor of unit u receives for its link parameters, by parameter index *)
Definition received (ls : list link) (u : str) (st : state) : list (nat * value) :=
  flat_map (fun l => if str_eqb (target_node l) u
                     then match lookup_val (l_id l) (st_vals st) with Some v => [(l_id l, v)] | None => [] end
                     else []) ls.

(* A raw Namespace arriving in a link parameter (its source was not instantiated when the link was applied):
   the Namespace of a class group makes the constructor call fail; a Namespace that contains the receiving object's own
   configuration recurses without end; the class_path Namespace of a class-typed argument is instantiated on the spot
   (a second object of that class, built from the configuration as it is now) and that object is passed. *)
Inductive ns_fate := NsRaise | NsBuild (c : comp).
Definition ns_fate_of (cs : list comp) (u : str) (d : str) : ns_fate :=
  match find (fun c => str_eqb (c_dest c) d) cs with
  | Some c => if is_type c && negb (matches d u) then NsBuild c else NsRaise
  | None => NsRaise
  end.

(* constructor call of unit u; None = exception *)
Definition construct_unit (cs : list comp) (ls : list link) (st : state) (log : list event) (u : str) : option (list event) :=
  let step (acc : option (list event * list (nat * value))) (a : nat * value) :=
      match acc with
      | None => None
      | Some (log, args) =>
          match snd a with
          | VBase (BNs d) =>
              match ns_fate_of cs u d with
              | NsRaise => None
              | NsBuild c => Some (fold_left (fun lg u' => ENew u' (received ls u' st) :: lg) (c_units c) log,
                                   args ++ [(fst a, VBase (BObj d))])
              end
          | _ => Some (log, args ++ [a])
          end
      end in
  match fold_left step (received ls u st) (Some (log, [])) with
  | Some (log', args) => Some (ENew u args :: log')
  | None => None
  end.

Definition construct (cs : list comp) (ls : list link) (c : comp) (st : state) : option state :=
  if existsb (fun l => match target_action cs l with
                       | Some c' => is_nested cs l && str_eqb (c_dest c') (c_dest c)
                       | None => false
                       end) ls
  then None        (* the nested link is handed to the sub-parser, whose link_arguments rejects the attribute source *)
  else
    match fold_left (fun acc u => match acc with Some log => construct_unit cs ls st log u | None => None end)
                    (c_units c) (Some (st_log st)) with
    | None => None
    | Some log => Some {| st_inst := c_dest c :: st_inst st; st_applied := st_applied st;
                          st_vals := st_vals st; st_log := log |}
    end.

Fixpoint comp_loop (cs : list comp) (ls : list link) (seq : list comp) (st : state) : option state :=
  match seq with
  | [] => Some st
  | c :: seq' =>
      match apply_for cs ls (c_dest c) st with
      | None => None
      | Some st' => match construct cs ls c st' with
                    | None => None
                    | Some st'' => comp_loop cs ls seq' st''
                    end
      end
  end.

Definition init_state : state := {| st_inst := []; st_applied := []; st_vals := []; st_log := [] |}.

Definition comp_sequence (cs : list comp) (order : list str) : list comp := reorder c_dest order (depth_sort cs).

(* a Namespace handed on as a link value (source not yet instantiated) has consequences that depend on the receiving
   parameter's type (re-instantiation, flattened keyword arguments, ...); the model stops there. *)
Definition log_has_ns (log : list event) : bool :=
  existsb (fun e => match e with
                    | ENew _ args => existsb (fun a => match snd a with
                                                       | VBase (BNs _) => true
                                                       | _ => false
                                                       end) args
                    | ECall _ _ | ECfg _ _ => false
                    end) log.

(* sort received parameters by index for comparison with the observation *)
Fixpoint insert_arg (a : nat * value) (l : list (nat * value)) : list (nat * value) :=
  match l with
  | [] => [a]
  | b :: l' => if Nat.ltb (fst a) (fst b) then a :: l else b :: insert_arg a l'
  end.
Definition norm_event (e : event) : event :=
  match e with
  | ENew u args => ENew u (fold_right insert_arg [] args)
  | ECall _ _ => e
  | ECfg u args => ECfg u (fold_right insert_arg [] args)
  end.

(* sinks: the groups declared with instantiate=False and the whole class-typed arguments that are link targets; after the
   final pass the returned cfg is read for each of them *)
Definition instantiate (cs : list comp) (sinks : list str) (ls : list link) : outcome * list event :=
  match inst_order cs ls with
  | Order order =>
      match comp_loop cs ls (comp_sequence cs order) init_state with
      | None => (OExc, [])
      | Some st =>
          match apply_final cs ls order st with
          | None => (OExc, [])
          | Some st' => if log_has_ns (st_log st') then (OUnmodelled, [])
                        else (OOk, map norm_event (rev (st_log st') ++ map (fun n => ECfg n (received ls n st')) sinks))
          end
      end
  | _ => (OUnmodelled, [])       (* unreachable after add_links = None *)
  end.

Definition sinks_of (ds : list decl) : list str :=
  flat_map (fun d => match d_shape d with ShGI | ShTI => [d_name d] | _ => [] end) ds.

(* the whole scenario: declare, link in the given order, parse, instantiate_classes *)
Definition run (ds : list decl) (ls : list link) : outcome * list event :=
  let cs := components ds in
  match add_links cs ls with
  | Some k => (OLinkErr k, [])
  | None => instantiate cs (sinks_of ds) ls
  end.

(* ---- histories that go on after a rejected link ---------------------------------------------------------------
   link_arguments raises for a cycle-closing link BEFORE anything in the parser is changed (since /repo c1d0425); the caller
   catches the ValueError and goes on: the rejected link is not part of the parser, later links are checked against the
   accepted ones only.  Result: the accepted links in order, and the 0-based numbers of the rejected calls. *)
Fixpoint add_links_cont_from (cs : list comp) (done todo : list link) (k : nat) : list link * list nat :=
  match todo with
  | [] => (done, [])
  | l :: todo' =>
      match inst_order cs (done ++ [l]) with
      | Order _ => add_links_cont_from cs (done ++ [l]) todo' (S k)
      | _ => let (a, r) := add_links_cont_from cs done todo' (S k) in (a, k :: r)
      end
  end.
Definition add_links_cont (cs : list comp) (ls : list link) : list link * list nat := add_links_cont_from cs [] ls 0.

Definition run_cont (ds : list decl) (ls : list link) : list nat * (outcome * list event) :=
  let cs := components ds in
  let (acc, r) := add_links_cont cs ls in (r, instantiate cs (sinks_of ds) acc).

(* ---- the guard of the proved ordering theorem ---------------------------------------------- *)

Definition edge_in (e : str * str) (es : list (str * str)) : bool :=
  existsb (fun x => str_eqb (fst e) (fst x) && str_eqb (snd e) (snd x)) es.

Definition graph_nodes (es : list (str * str)) : list str := flat_map (fun e => [fst e; snd e]) es.

(* every node of the link graph that could pull a component on the way to a link's target (node == target key, or
   the key starts with node + ".") is the link's own target node or receives the prefix edge from it.
   Fails exactly when a component that is only a *source* of links encloses the target of another link. *)
Definition enclosing_ok (cs : list comp) (ls : list link) : bool :=
  let es := link_edges cs ls in
  forallb (fun l =>
    forallb (fun p => negb (matches p (l_target l))
                      || str_eqb p (target_node l)
                      || edge_in (target_node l, p) es) (graph_nodes es)) ls.

(* every source key resolves to a component *)
Definition sources_resolve (cs : list comp) (ls : list link) : bool :=
  forallb (fun l => forallb (fun k => match resolve_src cs k with Some _ => true | None => false end) (l_srcs l)) ls.

(* the same after every link_arguments call (the cycle check runs after each) *)
Definition enclosing_ok_all (cs : list comp) (ls : list link) : bool :=
  forallb (fun n => enclosing_ok cs (firstn n ls)) (seq 1 (length ls)).

(* a link source that is a class-typed argument nested in a class group, feeding a target outside that group: once
   the group has been instantiated cfg[source_action.dest] no longer resolves (second finding class) *)
Definition group_nested_source (cs : list comp) (ls : list link) : bool :=
  existsb (fun l =>
    existsb (fun k => match resolve_src cs k with
                      | Some c => existsb (fun c' => prefix_b (c_dest c' ++ [dot]) (c_dest c)
                                                     && negb (matches (c_dest c') (l_target l))) cs
                      | None => false
                      end) (l_srcs l)) ls.

End Variant.

(* ---- the guard of the C16 link theorems = the finding class of the correspondence judge ------------------------
   class 0 = inside the guards of the C16 link theorems (Properties/C16.v);
   class 3 = a link from an attribute of a component into an object nested in the same component (a cycle between the
             objects) that link_arguments takes for a "nested" link and hands to the sub-parser (finding nested-self-link);
   class 2 = a source nested in a class group feeds a target outside the group (finding source-under-group; none when
             fx_source);
   class 1 = a component that is only a source of links encloses the target of another link (finding
             nested-target-order; with fx_order the test is evaluated on the repaired edges) *)
Definition link_class (fx : fixes) (ds : list decl) (ls : list link) : N :=
  let cs := components ds in
  if existsb (is_nested cs) ls then 3%N
  else if negb (fx_source fx) && group_nested_source cs ls then 2%N
  else if negb (enclosing_ok_all fx cs ls) then 1%N
  else 0%N.

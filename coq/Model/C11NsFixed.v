(* Model of jsonargparse._namespace.Namespace AFTER fixes/C11-path-through-dict.patch, in the shape of the
   patched code. Differences from Model/Ns.v (the pinned code):
     - _parse_key looks a segment up in a dict parent WITHOUT the clash mark, and un-marks the leaf key when the
       parent is a dict;
     - _parse_required_key / __getitem__ / __contains__ / __delitem__ / pop use the dict itself when the parent is
       a dict (helper _attrs) instead of hasattr / getattr / __dict__;
     - __delitem__ goes through _parse_required_key (a missing key or parent is a KeyError, state unchanged);
     - _create_nested_namespace keeps an existing dict on the way and creates dicts inside a dict.
   Everything that does not address a path (items, as_dict, update's loop, ==, dict_to_namespace's setattr loop)
   is the same code and re-uses Model/Ns.v / Model/NsRun.v. Executable definitions only. *)
From JV Require Import Lib.Base Model.Ns Model.NsRun.

Section WithClash.
Variable clash : list str.

(* the key under which `k` (marked form) is looked up in / stored into `parent` *)
Definition key_in (parent : val) (k : str) : str :=
  match parent with VDict _ => unmark k | _ => k end.

Definition attrs (parent : val) : option alist :=
  match parent with VNs d | VDict d => Some d | _ => None end.

Definition rebuild (parent : val) (d : alist) : val :=
  match parent with VDict _ => VDict d | _ => VNs d end.

Fixpoint walk_fx (ks : list str) (cur : val) : option val :=
  match ks with
  | [] => Some cur
  | k :: ks' =>
      match attrs cur with
      | None => None
      | Some d =>
          match aget (key_in cur k) d with
          | Some (VNs d') => walk_fx ks' (VNs d')
          | Some (VDict d') => walk_fx ks' (VDict d')
          | _ => None
          end
      end
  end.

Fixpoint update_at_fx (ks : list str) (f : val -> val) (cur : val) : val :=
  match ks with
  | [] => f cur
  | k :: ks' =>
      match attrs cur with
      | None => cur
      | Some d =>
          match aget (key_in cur k) d with
          | Some v => rebuild cur (aset (key_in cur k) (update_at_fx ks' f v) d)
          | None => cur
          end
      end
  end.

(* _create_nested_namespace after the patch: a Namespace or dict met on the way is kept; what is created below a
   dict is a dict, below a Namespace a Namespace *)
Fixpoint create_nested_fx (ks : list str) (cur : val) : val :=
  match ks with
  | [] => cur
  | k :: ks' =>
      match attrs cur with
      | None => cur
      | Some d =>
          let key := key_in cur k in
          let fresh := match cur with VDict _ => VDict [] | _ => VNs [] end in
          let sub := match aget key d with
                     | Some (VNs x) => VNs x
                     | Some (VDict x) => VDict x
                     | _ => fresh
                     end in
          rebuild cur (aset key (create_nested_fx ks' sub) d)
      end
  end.

Definition put_fx (leaf : str) (item : val) (parent : val) : val :=
  match attrs parent with
  | Some d => rebuild parent (aset (key_in parent leaf) item d)
  | None => parent
  end.

Definition fx_setitem (key : str) (item : val) (root : alist) : res alist :=
  match parse_key clash key with
  | None => Fail
  | Some ks =>
      let '(pks, leaf) := split_last ks in
      let root' := match walk_fx pks (VNs root) with
                   | Some _ => VNs root
                   | None => create_nested_fx pks (VNs root)
                   end in
      match update_at_fx pks (put_fx leaf item) root' with
      | VNs r => Ok r
      | _ => Fail
      end
  end.

Definition fx_setattr (name : str) (item : val) (root : alist) : res alist :=
  if mem_N DOT name then fx_setitem name item root
  else Ok (aset (mark clash name) item root).

Definition fx_getitem (key : str) (root : alist) : res val :=
  match parse_key clash key with
  | None => Fail
  | Some ks =>
      let '(pks, leaf) := split_last ks in
      match walk_fx pks (VNs root) with
      | Some p => match attrs p with
                  | Some d => match aget (key_in p leaf) d with Some v => Ok v | None => Fail end
                  | None => Fail
                  end
      | None => Fail
      end
  end.

Definition fx_contains (key : str) (root : alist) : bool :=
  match fx_getitem key root with Ok _ => true | Fail => false end.

Definition fx_get (key : str) (default : val) (root : alist) : val :=
  match fx_getitem key root with Ok v => v | Fail => default end.

Definition del_fx (leaf : str) (p : val) : val :=
  match attrs p with Some d => rebuild p (adel (key_in p leaf) d) | None => p end.

Definition fx_delitem (key : str) (root : alist) : res alist :=
  match fx_getitem key root, parse_key clash key with
  | Ok _, Some ks =>
      let '(pks, leaf) := split_last ks in
      match update_at_fx pks (del_fx leaf) (VNs root) with
      | VNs r => Ok r
      | _ => Fail
      end
  | _, _ => Fail
  end.

(* pop: `if not parent_ns: return default` (None or empty), else _attrs(parent).pop(leaf, default) *)
Definition fx_pop (key : str) (default : val) (root : alist) : res (val * alist) :=
  match parse_key clash key with
  | None => Fail
  | Some ks =>
      let '(pks, leaf) := split_last ks in
      match walk_fx pks (VNs root) with
      | None => Ok (default, root)
      | Some p =>
          match attrs p with
          | None | Some [] => Ok (default, root)
          | Some d =>
              match aget (key_in p leaf) d with
              | None => Ok (default, root)
              | Some v =>
                  match update_at_fx pks (del_fx leaf) (VNs root) with
                  | VNs r => Ok (v, r)
                  | _ => Fail
                  end
              end
          end
      end
  end.

Definition fx_update_value (v : val) (key : option str) (only_unset : bool) (root : alist) : res alist :=
  match key with
  | None => Fail
  | Some [] => Fail
  | Some k => if only_unset && fx_contains k root then Ok root else fx_setitem k v root
  end.

(* the step function: same operations, same outputs; the third component (did the addressed path meet a dict) is
   kept only so that both models have the same type *)
Definition step_fixed (root : alist) (o : op) : out * alist * bool :=
  match o with
  | OSet k v =>
      match fx_setitem k v root with Ok r => (OutUnit, r, false) | Fail => (OutFail, root, false) end
  | OSetAttr k v =>
      match fx_setattr k v root with Ok r => (OutUnit, r, false) | Fail => (OutFail, root, false) end
  | OGet k =>
      match fx_getitem k root with Ok v => (OutVal v, root, false) | Fail => (OutFail, root, false) end
  | OGetD k dflt => (OutVal (fx_get k dflt root), root, false)
  | OContains k => (OutBool (fx_contains k root), root, false)
  | ODel k =>
      match fx_delitem k root with Ok r => (OutUnit, r, false) | Fail => (OutFail, root, false) end
  | OPop k dflt =>
      match fx_pop k dflt root with Ok (v, r) => (OutVal v, r, false) | Fail => (OutFail, root, false) end
  | OUpdV v k ou =>
      match fx_update_value v k ou root with Ok r => (OutUnit, r, false) | Fail => (OutFail, root, false) end
  | OUpdNs src k ou =>
      match src with
      | VNs sd =>
          let prefix := match k with Some (c :: k') => (c :: k') ++ [DOT] | _ => [] end in
          let '(r, failed) :=
            fold_left (fun (acc : alist * bool) (kv : str * val) =>
              let '(r, failed) := acc in
              if failed then acc else
              let key := prefix ++ fst kv in
              if ou && fx_contains key r then (r, false)
              else match fx_setitem key (snd kv) r with
                   | Ok r' => (r', false)
                   | Fail => (r, true)
                   end) (ns_items false sd) (root, false) in
          (if failed then OutFail else OutUnit, r, false)
      | _ => (OutFail, root, false)
      end
  | OInitDict d =>
      match d with
      | VDict dd =>
          let '(r, failed) :=
            fold_left (fun (acc : alist * bool) (kv : str * val) =>
              let '(r, failed) := acc in
              if failed then acc else
              match fx_setitem (fst kv) (snd kv) r with
              | Ok r' => (r', false)
              | Fail => (r, true)
              end) dd ([], false) in
          if failed then (OutFail, root, false) else (OutUnit, r, false)
      | _ => (OutFail, root, false)
      end
  | OGetSteps _ | OEq _ | OClone | OItems _ | OAsDict | OFromDict _ => step_model clash root o
  end.

Fixpoint run_fixed (root : alist) (ops : list op) : list (out * alist) :=
  match ops with
  | [] => []
  | o :: ops' =>
      let '(ou, r, _) := step_fixed root o in
      (ou, r) :: run_fixed r ops'
  end.

End WithClash.

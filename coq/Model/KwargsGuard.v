(* C13 — the hypothesis of the theorems (`klass .. = 0`) and the finding classes, as ONE executable
   function that the correspondence judge also evaluates on every generated program.

   klass = 0  : the program is inside the proved fragment:
                - parameter names of each signature are distinct; bodies of callables without **kwargs
                  are empty; at most one forwarding use of **kwargs per body (single_use);
                - the resolver and the interpreter look at the same callee (callee_agree): super() always;
                  C(..) when C has its own __init__ (or none anywhere); self.m(..) when m is defined by
                  the class whose __init__ is running and by no class before it in the MRO;
                - the AST resolver did not raise in this frame;
                - the hard-coded arguments of the forwarding call are themselves acceptable
                  (npos <= number of declared parameters, given names distinct and accepted);
                - no finding class below applies.
   finding classes (outside the guard):
     1 get-then-forward : a name read with kwargs.get (or popped only after the call) is still in the
                          dict that is forwarded, and the callee does not accept it (it is not one of
                          the callee's resolved parameters, or it is hard-coded at the call)
     2 inherited-init   : the class instantiated inherits __init__ (resolver starts the MRO walk at
                          position 0 and analyses the inherited __init__ twice)
     3 pop-hardcoded    : a key popped BEFORE the forwarding call is also hard-coded at that call
     4 method-override  : self.m resolved on the defining class instead of the instance's class
     5 ast-crash        : group_parameters raised (tuple origin) and the assumptions resolver answered
     9 other programs outside the proved fragment (no finding expected) *)
From JV Require Import Lib.Base Model.Kwargs.

Fixpoint nodup_strs (l : list str) : bool :=
  match l with [] => true | x :: r => negb (mem_str x r) && nodup_strs r end.

Definition is_call (s : stmt) : bool := match s with SCall _ _ _ => true | _ => false end.

Definition pg_names (body : list stmt) : list str :=
  flat_map (fun s => match s with SPG _ n _ _ => [n] | _ => [] end) body.

(* the forwarding call and the names popped before it *)
Fixpoint find_call (body : list stmt) (pre : list str)
  : option (callee * nat * list str * list str) :=
  match body with
  | [] => None
  | SPG pop n _ _ :: r => find_call r (if pop then n :: pre else pre)
  | SCall c npos given :: _ => Some (c, npos, given, pre)
  end.

Definition single_use (body : list stmt) : bool := length (filter is_call body) <=? 1.

Definition class_agree (fuel : nat) (P : prog) (c : nat) : bool :=
  match c3 fuel P c with
  | None => false
  | Some mro => match find_def P None mro 0 with Some (j, _) => Nat.eqb j 0 | None => true end
  end.

Definition callee_agree (fuel : nat) (P : prog) (fr : frame) (k : callee) : bool :=
  match k with
  | KSuper | KFunc _ => true
  | KSuperOf c =>
      match fr_ctx fr with
      | None => true
      | Some (mro, idx) =>
          match pos_from c mro 0 0, pos_from c mro 0 idx with
          | Some a, Some b => Nat.eqb a b
          | _, _ => false
          end
      end
  | KClass c => class_agree fuel P c
  | KMeth m =>
      match fr_ctx fr with
      | None => true
      | Some (mro, idx) =>
          match find_def P (Some m) mro 0, nth_error mro idx with
          | Some (j, _), Some parent =>
              Nat.eqb j idx && match c3 fuel P parent with Some (p0 :: _) => Nat.eqb p0 parent | _ => false end
          | _, _ => false
          end
      end
  end.

(* why resolver and interpreter look at different frames: a listed finding class, or 9 *)
Definition super_has_positional (f : fn) : bool :=
  match find_call (f_body f) [] with Some (KSuper, S _, _, _) => true | _ => false end.

Definition disagree_class (fuel : nat) (P : prog) (fr : frame) (k : callee) : N :=
  match k with
  | KClass c =>
      match class_frame Interp fuel P c with
      | Ok (Some fi) => if super_has_positional (fr_fn fi) then 2%N else 9%N
      | _ => 9%N
      end
  | KMeth m =>
      match fr_ctx fr with
      | Some (mro, idx) =>
          match find_def P (Some m) mro 0, nth_error mro idx with
          | Some (j, _), Some parent =>
              match c3 fuel P parent with
              | Some pm =>
                  match find_def P (Some m) pm 0 with
                  | Some (jr, _) =>
                      match nth_error mro j, nth_error pm jr with
                      | Some a, Some b => if Nat.eqb a b then 9%N else 4%N
                      | _, _ => 9%N
                      end
                  | None => 4%N
                  end
              | None => 9%N
              end
          | _, _ => 9%N
          end
      | None => 9%N
      end
  | _ => 9%N
  end.

Definition is_ok {A} (r : res A) : bool := match r with Ok _ => true | Err _ => false end.

Definition is_finding (k : N) : bool := (1 <=? k)%N && (k <=? 5)%N.

Fixpoint klass (fuel : nat) (P : prog) (fr : frame) : N :=
  match fuel with
  | 0 => 9%N
  | S f' =>
      let f := fr_fn fr in
      if negb (nodup_strs (map sp_name (f_params f))) then 9%N
      else if negb (f_kw f) then (if is_nil (f_body f) then 0%N else 9%N)
      else if negb (single_use (f_body f)) then 9%N
      else
        match ast_step (resolve_frame f' P) (callee_frame Resolver f' P fr) fr with
        | Err ECrash => 5%N
        | Err _ => 9%N
        | Ok _ =>
            match find_call (f_body f) [] with
            | None => 0%N
            | Some (k, npos, given, pre) =>
                let pgs := pg_names (f_body f) in
                let base : N :=
                  match callee_frame Resolver f' P fr k with
                  | Err _ => 9%N
                  | Ok None =>
                      match k, fr_mn fr with
                      | KSuper, None | KSuperOf _, None | KClass _, _ =>
                          if negb (forallb (fun n => mem_str n pre) pgs) then 1%N
                          else if Nat.eqb npos 0 && is_nil given then 0%N else 9%N
                      | _, _ => 9%N
                      end
                  | Ok (Some fr') =>
                      let k' := klass f' P fr' in
                      if is_finding k' then k'
                      else
                        match resolve_frame f' P fr' with
                        | Err _ => 9%N
                        | Ok R' =>
                            if existsb (fun n => mem_str n given && negb (mem_str n pre)) pgs then 1%N
                            else if negb (forallb (fun n => mem_str n pre
                                                      || mem_str n (names (remove_given npos given R'))) pgs)
                            then 1%N
                            else if existsb (fun n => mem_str n given) pgs then 3%N
                            else if negb (N.eqb k' 0) then k'
                            else if (npos <=? npos_cap (fr_fn fr')) && nodup_strs given
                                    && forallb (fun g => mem_str g (names (skipn npos R'))) given
                            then 0%N else 9%N
                        end
                  end in
                if callee_agree f' P fr k then base
                else if is_finding base then base
                else match callee_frame Interp f' P fr k with
                     | Ok (Some fi) =>
                         let kd := klass f' P fi in
                         if is_finding kd then kd else disagree_class f' P fr k
                     | _ => disagree_class f' P fr k
                     end
            end
        end
  end.

Definition klass_top (fuel : nat) (P : prog) (c : nat) : N :=
  let base : N := match class_frame Resolver fuel P c with
              | Err _ => 9%N
              | Ok None => 0%N
              | Ok (Some fr) => klass fuel P fr
              end in
  if class_agree fuel P c then base
  else if is_finding base then base
  else match class_frame Interp fuel P c with
       | Ok (Some fi) =>
           let kd := klass fuel P fi in
           if is_finding kd then kd
           else if super_has_positional (fr_fn fi) then 2%N else 9%N
       | _ => 9%N
       end.

(* C04 — one level of subcommands (jsonargparse/_actions.py _ActionSubCommands, _core.py parse_args /
   _parse_common), written in the shape of the code and composed from the functions of
   Model/C04Sources.v.  Executable Gallina only.

   A call with a subcommand is parse_args(parent items ++ [NAME] ++ subcommand items):
     1. the parent's _parse_defaults_and_environ (its own defaults, default config files, environment);
        the subcommand's environment variables are NOT read here (only under PREFIX_SUBCOMMAND, which
        the modelled space never sets);
     2. argparse walks the parent's items left to right; `--cfg` documents of the parent may carry a
        section for the subcommand (keys NAME.k): _find_action descends into the subcommand's parser,
        so merge_config works with the declarations of both levels;
     3. at the token, _ActionSubCommands.__call__ hands the branch NAME built so far (if any) to
        subparser.parse_args(rest, namespace=branch): the subcommand's own defaults and environment
        variables, the branch merged over them, then the subcommand's items left to right;
     4. _parse_common -> handle_subcommands merges the branch once more over the subcommand's
        defaults and environment. *)
From JV Require Import Lib.Base Lib.C04Base Model.C04Sources.

(* argparse only knows the option strings of the parser it runs in *)
Definition own_arg (p : parser) (a : arg) : bool :=
  match a with
  | AAsg x => declared p (fst x)
  | ACfg _ => true
  end.

(* subparser.parse_args(..., env=env, defaults=defaults): same env= argument; default_env was copied
   from the parent by add_subcommand (and reads JSONARGPARSE_DEFAULT_ENV the same way) *)
Definition sub_call (sc : scall) : call :=
  let c := s_parent sc in
  {| c_parser := s_sub sc;
     c_default_env := c_default_env c; c_os_default_env := c_os_default_env c; c_env_arg := c_env_arg c;
     c_patterns := []; c_envcfg := None; c_envvars := s_subenv sc;
     c_entry := EArgs (s_subargv sc) |}.

Definition pipeline_sub (sc : scall) : res node :=
  let c := s_parent sc in
  let pown := c_parser c in
  let pall := all_decls sc in
  let nm := s_name sc in
  let ps := s_sub sc in
  match c_entry c with
  | EArgs argv =>
      if negb (forallb (own_arg pown) argv) then Unrecognized else
      (* 1, 2 *)
      match argv_fold pall (defaults_and_environ c) argv with
      | Unrecognized => Unrecognized
      | Ok cfg1 =>
          (* 3: subnamespace = namespace.get(NAME).clone() if NAME in namespace else None *)
          let cs0 := defaults_and_environ (sub_call sc) in
          let cs1 := match f_get nm (kids cfg1) with
                     | Some (Br (FCons a x r)) => merge_config ps (Br (FCons a x r)) cs0   (* if namespace: merge_config(namespace, cfg) *)
                     | _ => cs0
                     end in
          match argv_fold ps cs1 (s_subargv sc) with
          | Unrecognized => Unrecognized
          | Ok cs2 =>
              let cfg2 := Br (f_set nm cs2 (kids cfg1)) in                                  (* namespace[NAME] = ... *)
              (* 4: cfg[NAME] = subparser.merge_config(cfg.get(NAME), defaults [+ environment]) *)
              Ok (Br (f_set nm (merge_config ps cs2 cs0) (kids cfg2)))
          end
      end
  | _ => Unrecognized                      (* subcommands are modelled for parse_args only *)
  end.

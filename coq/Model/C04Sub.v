(* C04 — one level of subcommands (jsonargparse/_actions.py _ActionSubCommands, _core.py parse_args /
   _parse_common), written in the shape of the code and composed from the functions of
   Model/C04Sources.v.  Executable Gallina only.

   A call with a subcommand is parse_args(parent items ++ [NAME] ++ subcommand items):
     1. the parent's _parse_defaults_and_environ (its own defaults, default config files, environment);
        the subcommand's environment variables are NOT read here, unless PREFIX_SUBCOMMAND names it
        (load_env_vars_sub below);
     2. argparse walks the parent's items left to right; `--cfg` documents of the parent may carry a
        section for the subcommand (keys NAME.k): _find_action descends into the subcommand's parser,
        so merge_config works with the declarations of both levels;
     3. at the token, _ActionSubCommands.__call__ hands the branch NAME built so far (if any) to
        subparser.parse_args(rest, namespace=branch): the subcommand's own defaults and environment
        variables, the branch merged over them, then the subcommand's items left to right;
     4. _parse_common -> handle_subcommands merges the branch once more over the subcommand's
        defaults and environment. *)
From JV Require Import Lib.Base Lib.C04Base Model.C04Sources.

(* subparser.parse_args(..., env=env, defaults=defaults): same env= argument; default_env was copied
   from the parent by add_subcommand (and reads JSONARGPARSE_DEFAULT_ENV the same way) *)
Definition sub_call (sc : scall) : call :=
  let c := s_parent sc in
  {| c_parser := s_sub sc;
     c_default_env := c_default_env c; c_os_default_env := c_os_default_env c; c_env_arg := c_env_arg c;
     c_patterns := []; c_envcfg := None; c_envvars := s_subenv sc;
     c_entry := EArgs (s_subargv sc) |}.

(* ---- merge_config as the PARENT runs it on a namespace with a NAME: section ----------------------------
   ActionTypeHint.apply_appends(parser, cfg): _find_action(parser, "NAME.l") descends into the
   subcommand and returns ITS action, whose dest is relative ("l"); action._check_type_(cfg[key],
   append=True, cfg=cfg) then reads the list built so far with cfg.get(self.dest), i.e. under the
   relative name at the parent's level (the parent's own key of that name, or nothing). *)
(* Proposed repairs (fixes/C04-*.patch); `nofix` is the unchanged code.
   fx_append:  apply_appends reads the list built so far inside the subcommand's branch
               (fixes/C04-section-append-uses-parent-list.patch);
   fx_section: get_defaults no longer insists on a subcommand after a default config file
               (fixes/C04-default-config-without-subcommand-section-rejected.patch). *)
(* fx_envsub:  _load_env_vars asks the subcommand named by PREFIX_SUBCOMMAND for its environment only (defaults=False)
               (fixes/C04-subcommand-variable-resets-section-to-defaults.patch) *)
(* fx_leaf:    ... and copies that result leaf by leaf (`for k, v in pcfg.items()`), not by top-level entry
               (fixes/C04-envsub-leafwise.patch) *)
Record fixes := { fx_append : bool; fx_section : bool; fx_envsub : bool; fx_leaf : bool }.
Definition nofix : fixes := {| fx_append := false; fx_section := false; fx_envsub := false; fx_leaf := false |}.

Definition aa_step_sub (fx : fixes) (pown : parser) (nm : name) (ps : parser) (cfg : node) (key : tpath) : node :=
  match find_action pown (strip key) with
  | Some d =>
      if supports_append d then
        match lget key cfg with
        | Some v => ns_pop key (ns_set (strip key) (Leaf (check_append (prev_val d cfg) v)) cfg)
        | None => cfg
        end
      else cfg
  | None =>
      match key with
      | a :: k' =>
          if name_eqb a nm then
            match find_action ps (strip k') with
            | Some d =>
                if supports_append d then
                  match lget key cfg with
                  | Some v =>
                      let prev := if fx_append fx
                                  then match lget (nm :: d_key d) cfg with Some w => w | None => VNone end
                                  else prev_val d cfg in
                      ns_pop key (ns_set (nm :: d_key d) (Leaf (check_append prev v)) cfg)
                  | None => cfg
                  end
                else cfg
            | None => cfg
            end
          else cfg
      | [] => cfg
      end
  end.

Definition apply_appends_sub fx pown nm ps (cfg : node) : node :=
  fold_left (aa_step_sub fx pown nm ps) (filter is_plus (keys cfg)) cfg.

Definition merge_config_sub fx pown nm ps (cfg_from cfg_to : node) : node :=
  apply_appends_sub fx pown nm ps (update (clone cfg_to) (clone cfg_from)).

Definition apply_config_sub fx pown nm ps (cfg : node) (d : doc) : node :=
  let cfg_merged := merge_config_sub fx pown nm ps (load_config d) cfg in
  Br (f_update (kids cfg) (kids cfg_merged)).

(* the parent's items: options of the parent (argparse knows only those), --cfg documents *)
Fixpoint argv_fold_parent (fx : fixes) pown nm ps (cfg : node) (argv : list arg) : res node :=
  match argv with
  | [] => Ok cfg
  | ACfg d :: argv' => argv_fold_parent fx pown nm ps (apply_config_sub fx pown nm ps cfg d) argv'
  | AAsg x :: argv' =>
      let (opt, v) := render_arg x in
      match option_step pown cfg opt v with
      | Ok cfg' => argv_fold_parent fx pown nm ps cfg' argv'
      | Unrecognized => Unrecognized
      end
  end.

(* get_defaults runs _parse_common (fail_no_subcommand) on the namespace after EVERY default config
   file: a required subcommand must be known by then, i.e. the first non-blank file needs a section of
   some subcommand (later files find the branch left by the first) *)
Definition first_file_has_section (nm : name) (pats : list (list (str * doc))) : bool :=
  match filter (fun d : doc => match d with [] => false | _ => true end) (default_config_files pats) with
  | d :: _ => existsb (fun a => starts_with nm (fst a)) d
  | [] => true
  end.

(* ---- the parent's _parse_defaults_and_environ when PREFIX_SUBCOMMAND may be set ---------------------------
   _load_env_vars, second loop: `if env_var in env and isinstance(action, _ActionSubCommands)`: when the value
   names a subcommand, `pcfg = subparser.parse_env(env=env, defaults=defaults)` and then
   `for k, v in vars(pcfg).items(): cfg[subcommand + "." + k] = v` — EVERY top-level entry of the subcommand's
   result, its DEFAULTS included, is written into the environment namespace after the environment config, and
   merge_config(cfg_env, cfg) then puts it over the default config files.  A value naming the bystander
   subcommand writes that one's branch (dropped again by get_subcommands once the token has chosen NAME: not
   observed, not modelled); a value that is no subcommand is ignored (`if env_val in action.choices`). *)
Fixpoint f_set_below (nm : name) (g : forest) (cfg : node) : node :=
  match g with
  | FNil => cfg
  | FCons a c r => f_set_below nm r (ns_set [nm; a] c cfg)
  end.

Definition load_env_vars_sub (fx : fixes) (sc : scall) : node :=
  let c := s_parent sc in
  let p := c_parser c in
  let cfg := Br FNil in
  let cfg := match c_envcfg c with Some d => apply_config p cfg d | None => cfg end in
  let cfg := match s_envsub sc with
             | Some v =>
                 if name_eqb v (s_name sc)
                 then (* subparser.parse_env: its defaults and its variables, whatever env= says *)
                      let cfg_env := load_env_vars (s_sub sc) None (s_subenv sc) in
                      let pcfg := if fx_envsub fx then cfg_env      (* repaired: defaults=False *)
                                  else merge_config (s_sub sc) cfg_env (get_defaults (s_sub sc) []) in
                      if fx_leaf fx
                      then fold_left (fun t kv => ns_set (s_name sc :: fst kv) (Leaf (snd kv)) t) (items pcfg) cfg
                      else f_set_below (s_name sc) (kids pcfg) cfg
                 else cfg
             | None => cfg
             end in
  fold_left
    (fun cfg d => match alist_get (d_key d) (c_envvars c) with
                  | Some v => ns_set (d_key d) (Leaf v) cfg
                  | None => cfg
                  end)
    p cfg.

Definition defaults_and_environ_sub (fx : fixes) (sc : scall) : node :=
  let c := s_parent sc in
  let p := c_parser c in
  let cfg := get_defaults p (c_patterns c) in
  if env_enabled c then merge_config p (load_env_vars_sub fx sc) cfg else cfg.

Definition pipeline_sub_fx (fx : fixes) (sc : scall) : res node :=
  let c := s_parent sc in
  let pown := c_parser c in
  let nm := s_name sc in
  let ps := s_sub sc in
  match c_entry c with
  | EArgs argv =>
      if negb (fx_section fx || first_file_has_section nm (c_patterns c)) then Unrecognized else
      (* 1, 2 *)
      match argv_fold_parent fx pown nm ps (defaults_and_environ_sub fx sc) argv with
      | Unrecognized => Unrecognized
      | Ok cfg1 =>
          (* 3: subnamespace = namespace.get(NAME).clone() if NAME in namespace else None *)
          let cs0 := defaults_and_environ (sub_call sc) in
          let cs1 := match f_get nm (kids cfg1) with
                     | Some (Br (FCons a x r)) => merge_config ps (Br (FCons a x r)) cs0   (* if namespace: merge_config(namespace, cfg) *)
                     | _ => cs0
                     end in
          match argv_fold ps cs1 (s_subargv sc) with
          | Unrecognized => Unrecognized
          | Ok cs2 =>
              let cfg2 := Br (f_set nm cs2 (kids cfg1)) in                                  (* namespace[NAME] = ... *)
              (* 4: cfg[NAME] = subparser.merge_config(cfg.get(NAME), defaults [+ environment]) *)
              Ok (Br (f_set nm (merge_config ps cs2 cs0) (kids cfg2)))
          end
      end
  | _ => Unrecognized                      (* subcommands are modelled for parse_args only *)
  end.

Definition pipeline_sub : scall -> res node := pipeline_sub_fx nofix.

(* The pinned adapt_typehints once more, this time with the one effect Model/Ty.v leaves out: list and dict values
   are adapted IN PLACE (`val[n] = adapt_typehints(...)`, _typehints.py:899 and :934), so a Union member that fails
   half-way leaves the value partly converted, and the next member is tried on that residue
   (Union[List[int], List[str]] on ['1', 'a']: the first trial turns the list into [1, 'a'], which List[str] rejects).
   adapt_m returns the result together with the state of the INPUT OBJECT after the attempt:
     - scalars, None, enum members: unchanged;
     - a list under List[T]: the same object, elements replaced up to the failing index (all of them on success);
     - a dict under Dict[str, T]: likewise; under Dict[int, T] a new dict is built, the old one keeps its slots;
     - a tuple/set/list under Tuple/Set, a tuple/set under List: `list(val)` copies the slots, but the element
       OBJECTS are shared, so the input keeps its slots with each processed element in its own residual state.
   The repair switches of Model/Ty.v apply here too (the in-place effect itself is what C02-union-trial-mutates
   repairs: with it repaired the pure adapt_g is the model). Executable only. *)
From JV Require Import Lib.Base Model.TyVal Model.Scalar Model.Ty.

Section Mut.
Variable fx : fixes.
Variable yload0 : str -> lres.

Definition pure (orig : option str) (t : ty) (v : val) : ares * val := (adapt_g fx yload0 false orig t v, v).

Definition rebuild (like : val) (l : list val) : val :=
  match like with VList _ => VList l | VTuple _ => VTuple l | VSet _ => VSet l | _ => like end.

(* the Union trial loop threading the residue: rs = (member, its adaptation as a function of the current value) *)
Fixpoint union_loop_m (orig : option str) (v : val) (rs : list (ty * (val -> ares * val))) (vals : list uval) (cur : val)
  : list uval * val :=
  match rs with
  | [] => (vals, cur)
  | (t, f) :: rs' =>
      match f cur with
      | (AOk w, cur') => (vals ++ [UOk w], cur')
      | (AErr _, cur') =>
          match orig with
          | Some o => if is_str_ty t && negb (is_str v)
                      then union_loop_m orig v rs' (vals ++ [UOk (VStr o)]) cur'
                      else union_loop_m orig v rs' (vals ++ [UExc]) cur'
          | None => union_loop_m orig v rs' (vals ++ [UExc]) cur'
          end
      end
  end.

(* elements one after the other: (adapted prefix, residual elements incl. the untouched rest, error) *)
Fixpoint seq_m (f : val -> ares * val) (l : list val) : list val * list val * option err :=
  match l with
  | [] => ([], [], None)
  | x :: l' =>
      match f x with
      | (AErr e, x') => ([], x' :: l', Some e)
      | (AOk w, x') => let '(ws, rs, e) := seq_m f l' in (w :: ws, x' :: rs, e)
      end
  end.

Fixpoint adapt_m (orig : option str) (t : ty) (v : val) {struct t} : ares * val :=
  match t with
  | TStr | TInt | TFloat | TBool | TNone | TAny | TLit _ | TEnum _ _ => pure orig t v
  | TUnion ts =>
      let rs := (fix go (ts : list ty) : list (ty * (val -> ares * val)) :=
                   match ts with [] => [] | t1 :: ts' => (t1, adapt_m orig t1) :: go ts' end) ts in
      let '(vals, cur) := union_loop_m orig v (stable_sort (fun r => union_key (is_str v) (fst r)) rs) [] v in
      (union_result fx vals, cur)
  | TTuple ts =>
      match seq_items v with
      | None => (AErr ErrValue, v)
      | Some l =>
          if negb (Nat.eqb (length l) (length ts)) then (AErr ErrValue, v)
          else
            let '(ws, rs, e) :=
              (fix go (ts : list ty) (l : list val) : list val * list val * option err :=
                 match ts, l with
                 | t1 :: ts', x :: l' =>
                     match adapt_m orig t1 x with
                     | (AErr e, x') => ([], x' :: l', Some e)
                     | (AOk w, x') => let '(ws, rs, e) := go ts' l' in (w :: ws, x' :: rs, e)
                     end
                 | _, _ => ([], l, None)
                 end) ts l in
            match e with
            | Some e => (AErr e, rebuild v rs)
            | None => (AOk (VTuple ws), rebuild v rs)
            end
      end
  | TTupleVar t1 =>
      match seq_items v with
      | None => (AErr ErrValue, v)
      | Some l => let '(ws, rs, e) := seq_m (adapt_m orig t1) l in
                  match e with
                  | Some e => (AErr e, rebuild v rs)
                  | None => (AOk (VTuple ws), rebuild v rs)
                  end
      end
  | TSet t1 =>
      match seq_items v with
      | None => (AErr ErrValue, v)
      | Some l => let '(ws, rs, e) := seq_m (adapt_m orig t1) l in
                  match e with
                  | Some e => (AErr e, rebuild v rs)
                  | None => if forallb hashable ws then (AOk (VSet (canon_set ws)), rebuild v rs)
                            else (AErr ErrType, rebuild v rs)
                  end
      end
  | TList t1 =>
      match v with
      | VList l =>          (* in place *)
          let '(ws, rs, e) := seq_m (adapt_m orig t1) l in
          match e with
          | Some e => (AErr e, VList (ws ++ skipn (length ws) rs))
          | None => (AOk (VList ws), VList ws)
          end
      | VTuple l | VSet l =>  (* list(val): a copy *)
          let '(ws, rs, e) := seq_m (adapt_m orig t1) l in
          match e with
          | Some e => (AErr e, rebuild v rs)
          | None => (AOk (VList ws), rebuild v rs)
          end
      | _ => (AErr ErrValue, v)
      end
  | TDict int_keys t1 =>
      match v with
      | VDict d =>
          let casted :=
            if int_keys then
              fold_left (fun acc kv => match acc with
                                       | inr e => inr e
                                       | inl d' => match int_of_key (fst kv) with
                                                   | inl (Some z) => inl (dict_set (VInt z) (snd kv) d')
                                                   | inl None => inr ErrValue
                                                   | inr e => inr e
                                                   end
                                       end) d (inl [])
            else if fx_key fx && negb (forallb (fun kv => is_str (fst kv)) d) then inr ErrValue
            else inl d in
          match casted with
          | inr e => (AErr e, v)
          | inl d' =>
              let '(ws, rs, e) := seq_m (adapt_m orig t1) (map snd d') in
              let keys := map fst d' in
              let in_place := combine keys (ws ++ skipn (length ws) rs) in
              match e with
              | Some e => (AErr e, if int_keys
                                   then (if Nat.eqb (length d') (length d) then VDict (combine (map fst d) rs) else v)
                                   else VDict in_place)
              | None => (AOk (VDict (combine keys ws)),
                         if int_keys
                         then (if Nat.eqb (length d') (length d) then VDict (combine (map fst d) rs) else v)
                         else VDict (combine keys ws))
              end
          end
      | _ => (AErr ErrValue, v)
      end
  end.

Definition check_type_m (t : ty) (v0 : val) : ares :=
  let orig := match v0 with VStr s => Some s | _ => None end in
  match parse_value fx yload0 false v0 with
  | LValErr => if is_valid_string t v0 then AOk v0 else AErr ErrType
  | pv =>
      let v := match pv with LVal x => x | _ => v0 end in
      let first := fst (adapt_m orig t v) in
      let outcome :=
        match first with
        | AErr ErrValue =>
            match orig with
            | Some o => match fst (adapt_m orig t (VStr o)) with
                        | AOk w => AOk w
                        | AErr ErrValue => AErr ErrValue
                        | AErr ErrType => AErr ErrType
                        end
            | None => AErr ErrValue
            end
        | r => r
        end in
      match outcome with
      | AOk w => AOk w
      | AErr _ => if is_valid_string t v then AOk v else AErr ErrType
      end
  end.

Definition parse_key_m (t : ty) (v0 : val) : ares :=
  match v0 with
  | VNone => AOk VNone
  | _ =>
    match check_type_m t v0 with
    | AOk VNone => AOk VNone
    | AOk w => match check_type_m t w with AOk _ => AOk w | AErr e => AErr e end
    | r => r
    end
  end.

End Mut.

(* C20 — data types shared by the C20 models, specs and generated tables. *)
From JV Require Import Lib.Base Lib.C20Text.
Local Open Scope Z_scope.

(* Python values that reach a restricted / registered type. POther = list, dict, any other object. *)
Inductive pyval := PInt (z : Z) | PFloat (f : fl) | PBool (b : bool) | PStr (s : str) | PNone | POther.

Inductive base := BInt | BFloat.
Inductive num := NI (z : Z) | NF (f : fl).
Inductive join := JAnd | JOr.

(* the six functions of Python's `operator` module that jsonargparse/typing.py mentions *)
Inductive opfn := OpGt | OpGe | OpLt | OpLe | OpEq | OpNe.

Definition fl_eqb (a b : fl) : bool :=
  match a, b with
  | FFin x, FFin y => Z.eqb x y
  | FInf x, FInf y => Bool.eqb x y
  | FNan, FNan => true
  | _, _ => false
  end.

(* representation equality (NaN is the same observation as NaN) *)
Definition num_eqb (a b : num) : bool :=
  match a, b with
  | NI x, NI y => Z.eqb x y
  | NF x, NF y => fl_eqb x y
  | _, _ => false
  end.

Definition val_of_num (n : num) : pyval := match n with NI z => PInt z | NF f => PFloat f end.

(* ---- the registry of jsonargparse/typing.py (register_type / register_type_on_first_use calls),
        as translated into Gen/C20Registry.v: type name |-> (serializer, deserializer) by the name of
        the function passed. SerStr / DesClass are register_type's defaults (str / the class). *)
Inductive serfn := SerStr | SerFloat | SerDecimal | SerBytes | SerRange | SerOther (name : str).
Inductive desfn := DesClass | DesStr | DesDecimal | DesTimedelta | DesBytes | DesBytearray | DesRange
                 | DesOther (name : str).

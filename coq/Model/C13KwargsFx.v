(* C13 — the resolver model of Model/Kwargs.v with the four repairs of fixes/C13-*.patch, each behind a
   flag, and the guard / finding classes of Model/KwargsGuard.v recomputed for the repaired resolver.
   Used by Corr/C13Judge.v (judge_fx) once a repair has been applied to the implementation; with every
   flag false the definitions below are the ones of Kwargs.v / KwargsGuard.v written a second time.

     fx_mro   fixes/C13-inherited-init-positional.patch : get_mro_parameters skips the component that is
              being resolved, so for a class that inherits __init__ the walk continues after the class
              that defines it (same frame as the interpreter)
     fx_pop   fixes/C13-pop-hardcoded.patch : names popped before a forwarding call are not recorded in
              removed_params by that call
     fx_meth  fixes/C13-method-override.patch : self.m is looked up on the class being instantiated
     fx_crash fixes/C13-cond-origin-crash.patch : group_parameters does not call .startswith on a tuple *)
From JV Require Import Lib.Base Model.Kwargs Model.KwargsGuard.

Record fixes := { fx_mro : bool; fx_pop : bool; fx_meth : bool; fx_crash : bool }.

Definition no_fixes : fixes := {| fx_mro := false; fx_pop := false; fx_meth := false; fx_crash := false |}.
Definition all_fixes : fixes := {| fx_mro := true; fx_pop := true; fx_meth := true; fx_crash := true |}.

(* ---- guard for the resolver repaired by fixes/C13-inherited-init-positional.patch (fx_mro) ----------
   The repaired resolver and the interpreter start from the same frame: the __init__ found through the MRO
   of the class, at ITS position in that MRO.  The class is inside the proved fragment when that frame is
   (Model/KwargsGuard.klass, unchanged).  For a class with its own __init__ this is klass_top; a class that
   INHERITS __init__ (position > 0, excluded by klass_top through class_agree) is now inside as well. *)
Definition klass_top_inh (fuel : nat) (P : prog) (c : nat) : N :=
  match class_frame Interp fuel P c with
  | Err _ => 9%N
  | Ok None => 0%N
  | Ok (Some fr) => klass fuel P fr
  end.

Section Fx.
Variable fx : fixes.

Definition class_frame_fx (fuel : nat) (P : prog) (c : nat) : res (option frame) :=
  class_frame (if fx_mro fx then Interp else Resolver) fuel P c.

Definition callee_frame_fx (fuel : nat) (P : prog) (fr : frame) (k : callee) : res (option frame) :=
  match k with
  | KClass c => class_frame_fx fuel P c
  | KMeth m =>
      if fx_meth fx then
        match fr_ctx fr with
        | None => Ok None
        | Some (mro, _) =>
            match find_def P (Some m) mro 0 with
            | None => Ok None
            | Some (j, f) =>
                Ok (Some {| fr_fn := f; fr_mn := Some m;
                            fr_ctx := Some (mro, if fx_mro fx then j else 0) |})
            end
        end
      else callee_frame Resolver fuel P fr k
  | _ => callee_frame Resolver fuel P fr k
  end.

Definition group_fx (lists : list (bool * list rparam)) : res (list rparam) :=
  match lists with
  | [(_, l)] => Ok l
  | _ =>
      if negb (fx_crash fx) && existsb (fun bl => head_otup (snd bl)) lists then Err ECrash
      else
        let ncalls := length (filter fst lists) in
        let all := concat (map snd lists) in
        let keys := nodup_by str_eqb (names all) [] in
        Ok (map (fun k => merge_occ ncalls (filter (fun p => str_eqb (r_name p) k) all)) keys)
  end.

(* pre: the names popped before the statement *)
Fixpoint collect_fx (rec : frame -> res (list rparam)) (cf : callee -> res (option frame))
         (body : list stmt) (pre : list str) : res (list (bool * list rparam) * list str) :=
  match body with
  | [] => Ok ([], [])
  | s :: body' =>
      match s with
      | SPG pop n k z =>
          match collect_fx rec cf body' (if pop then n :: pre else pre) with
          | Ok (ls, rm) => Ok ((false, [pg_param n k z]) :: ls, rm)
          | Err e => Err e
          end
      | SCall c npos given =>
          let ps := match cf c with
                    | Err e => Err e
                    | Ok None => Ok []
                    | Ok (Some fr') => rec fr'
                    end in
          match ps with
          | Err e => Err e
          | Ok ps =>
              match collect_fx rec cf body' pre with
              | Err e => Err e
              | Ok (ls, rm) =>
                  let ps' := remove_given npos given ps in
                  let rmh := removed_of given ps in
                  let rmh' := if fx_pop fx then filter (fun n => negb (mem_str n pre)) rmh else rmh in
                  Ok ((if is_nil ps' then ls else (true, ps') :: ls), rmh' ++ rm)
              end
          end
      end
  end.

Definition ast_step_fx (rec : frame -> res (list rparam)) (cf : callee -> res (option frame))
           (fr : frame) : res (list rparam) :=
  let f := fr_fn fr in
  let own := own_rparams f in
  if negb (f_kw f) then Ok own
  else match collect_fx rec cf (f_body f) [] with
       | Err e => Err e
       | Ok (lists, removed) =>
           match group_fx lists with
           | Err e => Err e
           | Ok g => Ok (replace_kwargs own (filter (fun p => negb (mem_str (r_name p) removed)) g))
           end
       end.

Fixpoint resolve_frame_fx (fuel : nat) (P : prog) (fr : frame) : res (list rparam) :=
  match fuel with
  | 0 => Err EFuel
  | S f' =>
      match ast_step_fx (resolve_frame_fx f' P) (callee_frame_fx f' P fr) fr with
      | Err ECrash => assume (S f') P fr
      | r => r
      end
  end.

Definition resolve_fx (fuel : nat) (P : prog) (c : nat) : res (list rparam) :=
  match class_frame_fx fuel P c with
  | Err e => Err e
  | Ok None => Ok []
  | Ok (Some fr) => resolve_frame_fx fuel P fr
  end.

(* ---- guard and finding classes for the repaired resolver (KwargsGuard.klass, same shape) -------- *)
Definition class_agree_fx (fuel : nat) (P : prog) (c : nat) : bool :=
  match c3 fuel P c with
  | None => false
  | Some mro => fx_mro fx
                || match find_def P None mro 0 with Some (j, _) => Nat.eqb j 0 | None => true end
  end.

Definition callee_agree_fx (fuel : nat) (P : prog) (fr : frame) (k : callee) : bool :=
  match k with
  | KSuper | KFunc _ => true
  | KSuperOf c =>
      match fr_ctx fr with
      | None => true
      | Some (mro, idx) =>
          match pos_from c mro 0 0, pos_from c mro 0 idx with
          | Some a, Some b => Nat.eqb a b
          | _, _ => false
          end
      end
  | KClass c => class_agree_fx fuel P c
  | KMeth m =>
      match fr_ctx fr with
      | None => true
      | Some (mro, idx) =>
          if fx_meth fx then true
          else
          match find_def P (Some m) mro 0, nth_error mro idx with
          | Some (j, _), Some parent =>
              Nat.eqb j idx && match c3 fuel P parent with Some (p0 :: _) => Nat.eqb p0 parent | _ => false end
          | _, _ => false
          end
      end
  end.

Fixpoint klass_fx (fuel : nat) (P : prog) (fr : frame) : N :=
  match fuel with
  | 0 => 9%N
  | S f' =>
      let f := fr_fn fr in
      if negb (nodup_strs (map sp_name (f_params f))) then 9%N
      else if negb (f_kw f) then (if is_nil (f_body f) then 0%N else 9%N)
      else if negb (single_use (f_body f)) then 9%N
      else
        match ast_step_fx (resolve_frame_fx f' P) (callee_frame_fx f' P fr) fr with
        | Err ECrash => 5%N
        | Err _ => 9%N
        | Ok _ =>
            match find_call (f_body f) [] with
            | None => 0%N
            | Some (k, npos, given, pre) =>
                let pgs := pg_names (f_body f) in
                let base : N :=
                  match callee_frame_fx f' P fr k with
                  | Err _ => 9%N
                  | Ok None =>
                      match k, fr_mn fr with
                      | KSuper, None | KSuperOf _, None | KClass _, _ =>
                          if negb (forallb (fun n => mem_str n pre) pgs) then 1%N
                          else if Nat.eqb npos 0 && is_nil given then 0%N else 9%N
                      | _, _ => 9%N
                      end
                  | Ok (Some fr') =>
                      let k' := klass_fx f' P fr' in
                      if is_finding k' then k'
                      else
                        match resolve_frame_fx f' P fr' with
                        | Err _ => 9%N
                        | Ok R' =>
                            if existsb (fun n => mem_str n given && negb (mem_str n pre)) pgs then 1%N
                            else if negb (forallb (fun n => mem_str n pre
                                                      || mem_str n (names (remove_given npos given R'))) pgs)
                            then 1%N
                            else if negb (fx_pop fx) && existsb (fun n => mem_str n given) pgs then 3%N
                            else if negb (N.eqb k' 0) then k'
                            else if (npos <=? npos_cap (fr_fn fr')) && nodup_strs given
                                    && forallb (fun g => mem_str g (names (skipn npos R'))) given
                            then 0%N else 9%N
                        end
                  end in
                if callee_agree_fx f' P fr k then base
                else if is_finding base then base
                else match callee_frame Interp f' P fr k with
                     | Ok (Some fi) =>
                         let kd := klass_fx f' P fi in
                         if is_finding kd then kd else disagree_class f' P fr k
                     | _ => disagree_class f' P fr k
                     end
            end
        end
  end.

Definition klass_top_fx (fuel : nat) (P : prog) (c : nat) : N :=
  let base : N := match class_frame_fx fuel P c with
              | Err _ => 9%N
              | Ok None => 0%N
              | Ok (Some fr) => klass_fx fuel P fr
              end in
  if class_agree_fx fuel P c then base
  else if is_finding base then base
  else match class_frame Interp fuel P c with
       | Ok (Some fi) =>
           let kd := klass_fx fuel P fi in
           if is_finding kd then kd
           else if super_has_positional (fr_fn fi) then 2%N else 9%N
       | _ => 9%N
       end.

(* a finding class that is still open under fx *)
Definition listed_fx (k : N) : bool :=
  match k with
  | 1%N => true
  | 2%N => negb (fx_mro fx)
  | 3%N => negb (fx_pop fx)
  | 4%N => negb (fx_meth fx)
  | 5%N => negb (fx_crash fx)
  | _ => false
  end.

End Fx.

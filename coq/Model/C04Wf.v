(* C04 — the space of calls the precedence theorem speaks about (wf_call) and the one finding class
   (envcfg_append).  Both are executable booleans: the same functions are the hypotheses of the
   theorems in Properties/C04.v and the class computed by the judge in Corr/C04Judge.v. *)
From JV Require Import Lib.Base Lib.C04Base Spec.C04Spec.

Fixpoint nodup_paths (l : list tpath) : bool :=
  match l with
  | [] => true
  | k :: l' => negb (existsb (path_eqb k) l') && nodup_paths l'
  end.

(* every key the parser can meet in a namespace: the declared keys and their "key+" forms *)
Definition all_keys (p : parser) : list tpath :=
  flat_map (fun d => [d_key d; mark (d_key d)]) p.

Definition typed (k : kind) (v : val) : bool :=
  match k, v with
  | KScalar, VTok _ | KList, VList _ | KDict, VDict _ => true
  | _, _ => false
  end.

Definition typed_default (k : kind) (v : val) : bool :=
  match v with VNone => true | _ => typed k v end.

(* declared names are non-empty and carry no '+'; no declared key is a (proper) prefix of another,
   i.e. a key is either a group or an argument; each key is declared once *)
Definition wf_parser (p : parser) : bool :=
  forallb (fun d => match d_key d with [] => false | _ => true end
                    && forallb (fun n => negb (snd n)) (d_key d)
                    && typed_default (d_kind d) (d_default d)) p
  && nodup_paths (map d_key p)
  && forallb (fun k => forallb (fun k' => negb (ppb k k')) (all_keys p)) (all_keys p).

Definition find_decl (p : parser) (k : tpath) : option decl :=
  find (fun d => path_eqb (d_key d) k) p.

(* an assignment a config document can carry: plain or append, to a declared key of the right kind *)
Definition wf_doc_asg (p : parser) (a : assignment) : bool :=
  match find_decl p (fst a) with
  | None => false
  | Some d =>
      match snd a with
      | Set_ v => typed (d_kind d) v
      | Append v => match d_kind d, v with KList, VTok _ | KList, VList _ => true | _, _ => false end
      | DictItem _ _ => false
      end
  end.

(* a document is a mapping: each key occurs once (as "key" or as "key+") *)
Definition wf_doc (p : parser) (d : doc) : bool :=
  forallb (wf_doc_asg p) d && nodup_paths (map fst d).

Definition wf_arg (p : parser) (a : arg) : bool :=
  match a with
  | ACfg d => wf_doc p d
  | AAsg (k, DictItem i z) =>
      match find_decl p k with Some d => match d_kind d with KDict => true | _ => false end | None => false end
  | AAsg x => wf_doc_asg p x
  end.

Definition wf_entry (p : parser) (e : entry) : bool :=
  match e with
  | EArgs argv => forallb (wf_arg p) argv
  | EEnv => true
  | EString d | EObject d => wf_doc p d
  end.

Definition wf_call (c : call) : bool :=
  let p := c_parser c in
  wf_parser p
  && forallb (fun m => forallb (fun nd => wf_doc p (snd nd)) m) (c_patterns c)
  && match c_envcfg c with Some d => wf_doc p d | None => true end
  && wf_doc p (map (fun kv => (fst kv, Set_ (snd kv))) (c_envvars c))
  && wf_entry p (c_entry c).

(* ---- finding class 1 ------------------------------------------------------------------------------
   The environment is a source, the config named by the config environment variable appends to a
   key ("key+"), and the list built so far by the defaults and default config files is not empty.
   _load_env_vars resolves that append inside the (empty) environment namespace, so the earlier list
   is replaced instead of extended. *)
Definition before_environment (c : call) : state :=
  fold_left apply_assignment (concat (early_sources c)) [].

Definition envcfg_append (c : call) : bool :=
  env_is_source c
  && match c_envcfg c with
     | None => false
     | Some d =>
         existsb (fun a => match snd a with
                           | Append _ =>
                               match list_so_far (lookup (fst a) (before_environment c)) with
                               | [] => false | _ => true end
                           | _ => false
                           end) d
     end.

Definition call_class (c : call) : N :=
  if negb (wf_call c) then 9%N else if envcfg_append c then 1%N else 0%N.

(* ---- calls with a subcommand (Lib/C04Base.v scall) ---------------------------------------------------
   The modelled space: parse_args with the subcommand token on the command line; the flattened call
   (keys of both levels) is well-formed; the parent's default config files, environment config and
   environment variables and the options before the token address the parent's own keys; no own key
   lives below NAME; a `--cfg` document of the parent may carry plain assignments (no "key+") for the
   subcommand's keys. *)
Definition starts_with (nm : name) (k : tpath) : bool :=
  match k with a :: _ => name_eqb a nm | [] => false end.

Definition parent_doc_ok (nm : name) (d : doc) : bool :=
  forallb (fun a => negb (starts_with nm (fst a)) || match snd a with Set_ _ => true | _ => false end) d.

Definition wf_scall (sc : scall) : bool :=
  let c := s_parent sc in
  let pown := c_parser c in
  let nm := s_name sc in
  wf_call (flat_call sc)
  && forallb (fun d => negb (starts_with nm (d_key d))) pown
  && forallb (fun m => forallb (fun nd => wf_doc pown (snd nd)) m) (c_patterns c)
  && match c_envcfg c with Some d => wf_doc pown d | None => true end
  && wf_doc pown (map (fun kv => (fst kv, Set_ (snd kv))) (c_envvars c))
  && match c_entry c with
     | EArgs argv =>
         forallb (fun a => match a with
                           | AAsg x => match find_decl pown (fst x) with Some _ => true | None => false end
                           | ACfg d => parent_doc_ok nm d
                           end) argv
     | _ => false
     end.

(* class 2: a call with a subcommand — inside the modelled space, judged case by case against the
   documented fold (Spec flat_call); the precedence theorem does not (yet) cover pipeline_sub *)
Definition scall_class (sc : scall) : N :=
  if negb (wf_scall sc) then 9%N else if envcfg_append (flat_call sc) then 1%N else 2%N.

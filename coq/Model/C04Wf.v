(* C04 — the space of calls the precedence theorem speaks about (wf_call) and the one finding class
   (envcfg_append).  Both are executable booleans: the same functions are the hypotheses of the
   theorems in Properties/C04.v and the class computed by the judge in Corr/C04Judge.v. *)
From JV Require Import Lib.Base Lib.C04Base Spec.C04Spec.

Fixpoint nodup_paths (l : list tpath) : bool :=
  match l with
  | [] => true
  | k :: l' => negb (existsb (path_eqb k) l') && nodup_paths l'
  end.

(* every key the parser can meet in a namespace: the declared keys and their "key+" forms *)
Definition all_keys (p : parser) : list tpath :=
  flat_map (fun d => [d_key d; mark (d_key d)]) p.

Definition typed (k : kind) (v : val) : bool :=
  match k, v with
  | KScalar, VTok _ | KList, VList _ | KDict, VDict _ => true
  | _, _ => false
  end.

Definition typed_default (k : kind) (v : val) : bool :=
  match v with VNone => true | _ => typed k v end.

(* declared names are non-empty and carry no '+'; no declared key is a (proper) prefix of another,
   i.e. a key is either a group or an argument; each key is declared once *)
Definition wf_parser (p : parser) : bool :=
  forallb (fun d => match d_key d with [] => false | _ => true end
                    && forallb (fun n => negb (snd n)) (d_key d)
                    && typed_default (d_kind d) (d_default d)) p
  && nodup_paths (map d_key p)
  && forallb (fun k => forallb (fun k' => negb (ppb k k')) (all_keys p)) (all_keys p).

Definition find_decl (p : parser) (k : tpath) : option decl :=
  find (fun d => path_eqb (d_key d) k) p.

(* an assignment a config document can carry: plain or append, to a declared key of the right kind *)
Definition wf_doc_asg (p : parser) (a : assignment) : bool :=
  match find_decl p (fst a) with
  | None => false
  | Some d =>
      match snd a with
      | Set_ v => typed (d_kind d) v
      | Append v => match d_kind d, v with KList, VTok _ | KList, VList _ => true | _, _ => false end
      | DictItem _ _ => false
      end
  end.

(* a document is a mapping: each key occurs once (as "key" or as "key+") *)
Definition wf_doc (p : parser) (d : doc) : bool :=
  forallb (wf_doc_asg p) d && nodup_paths (map fst d).

Definition wf_arg (p : parser) (a : arg) : bool :=
  match a with
  | ACfg d => wf_doc p d
  | AAsg (k, DictItem i z) =>
      match find_decl p k with Some d => match d_kind d with KDict => true | _ => false end | None => false end
  | AAsg x => wf_doc_asg p x
  end.

Definition wf_entry (p : parser) (e : entry) : bool :=
  match e with
  | EArgs argv => forallb (wf_arg p) argv
  | EEnv => true
  | EString d | EObject d => wf_doc p d
  end.

Definition wf_call (c : call) : bool :=
  let p := c_parser c in
  wf_parser p
  && forallb (fun m => forallb (fun nd => wf_doc p (snd nd)) m) (c_patterns c)
  && match c_envcfg c with Some d => wf_doc p d | None => true end
  && wf_doc p (map (fun kv => (fst kv, Set_ (snd kv))) (c_envvars c))
  && wf_entry p (c_entry c).

(* ---- finding class 1 ------------------------------------------------------------------------------
   The environment is a source, the config named by the config environment variable appends to a
   key ("key+"), and the list built so far by the defaults and default config files is not empty.
   _load_env_vars resolves that append inside the (empty) environment namespace, so the earlier list
   is replaced instead of extended. *)
Definition before_environment (c : call) : state :=
  fold_left apply_assignment (concat (early_sources c)) [].

Definition envcfg_append (c : call) : bool :=
  env_is_source c
  && match c_envcfg c with
     | None => false
     | Some d =>
         existsb (fun a => match snd a with
                           | Append _ =>
                               match list_so_far (lookup (fst a) (before_environment c)) with
                               | [] => false | _ => true end
                           | _ => false
                           end) d
     end.

Definition call_class (c : call) : N :=
  if negb (wf_call c) then 9%N else if envcfg_append c then 1%N else 0%N.

(* ---- calls with a subcommand (Lib/C04Base.v scall) ---------------------------------------------------
   The modelled space: parse_args with the subcommand token on the command line; the flattened call
   (keys of both levels) is well-formed; no own key lives below NAME; the parent's environment variables
   and the options before the token address the parent's own keys; default config files and the
   environment config of the parent may carry PLAIN assignments (no "key+") for the subcommand's keys
   (section NAME:); a `--cfg` document of the parent may carry plain assignments and appends for them. *)
Definition sets_only_below (nm : name) (d : doc) : bool :=
  forallb (fun a => negb (starts_with nm (fst a)) || match snd a with Set_ _ => true | _ => false end) d.

Definition wf_scall (sc : scall) : bool :=
  let c := s_parent sc in
  let pown := c_parser c in
  let nm := s_name sc in
  wf_call (flat_call sc)
  && forallb (fun d => negb (starts_with nm (d_key d))) pown
  && forallb (fun m => forallb (fun nd => sets_only_below nm (snd nd)) m) (c_patterns c)
  && match c_envcfg c with Some d => sets_only_below nm d | None => true end
  && wf_doc pown (map (fun kv => (fst kv, Set_ (snd kv))) (c_envvars c))
  && match c_entry c with
     | EArgs argv =>
         forallb (fun a => match a with
                           | AAsg x => match find_decl pown (fst x) with Some _ => true | None => false end
                           | ACfg d => true
                           end) argv
     | _ => false
     end.

(* ---- finding classes of calls with a subcommand ------------------------------------------------------- *)
Definition mentions (k : tpath) (d : doc) : bool := existsb (fun a => path_eqb (fst a) k) d.

(* class 3: the environment is a source, the subcommand has an environment variable for a key, and an
   EARLIER source of the parent (a default config file or the environment config) assigns that key in
   its NAME: section.  The subcommand's variables are only read inside subparser.parse_args, below the
   branch NAME built so far, so the earlier source wins. *)
Definition subenv_shadowed (sc : scall) : bool :=
  let c := s_parent sc in
  let nm := s_name sc in
  env_is_source c
  && existsb (fun kv =>
                existsb (mentions (nm :: fst kv)) (default_files c)
                || match c_envcfg c with Some d => mentions (nm :: fst kv) d | None => false end)
             (s_subenv sc).

(* class 4: the first non-blank default config file has no NAME: section (get_defaults runs
   _parse_common on it, which insists on a subcommand) *)
Definition first_file (c : call) : option doc :=
  match filter (fun d : doc => match d with [] => false | _ => true end) (default_files c) with
  | d :: _ => Some d
  | [] => None
  end.

Definition file_without_section (sc : scall) : bool :=
  match first_file (s_parent sc) with
  | Some d => negb (existsb (fun a => starts_with (s_name sc) (fst a)) d)
  | None => false
  end.

(* class 5: a `--cfg` document of the parent appends ("key+") to a key of the subcommand: the list
   built so far is looked up under the subcommand-relative name at the PARENT's level *)
Definition section_append (sc : scall) : bool :=
  match c_entry (s_parent sc) with
  | EArgs argv =>
      existsb (fun a => match a with
                        | ACfg d => negb (sets_only_below (s_name sc) d)
                        | AAsg _ => false
                        end) argv
  | _ => false
  end.

(* class 6: the environment is a source, PREFIX_SUBCOMMAND names the subcommand that the command line then
   chooses, and a default config file or the environment config of the parent has a NAME: section.
   _load_env_vars copies the whole result of subparser.parse_env — the subcommand's DEFAULTS included — into the
   environment namespace, after the environment config; merged over the default config files it resets every
   key of the section to the subcommand's default (or variable). *)
Definition below_name (nm : name) (d : doc) : bool := existsb (fun a => starts_with nm (fst a)) d.

Definition envsub_resets (sc : scall) : bool :=
  let c := s_parent sc in
  let nm := s_name sc in
  env_is_source c
  && match s_envsub sc with Some v => name_eqb v nm | None => false end
  && (existsb (below_name nm) (default_files c)
      || match c_envcfg c with Some d => below_name nm d | None => false end).

(* class 6 after the repair fx_envsub (residual, gone with fx_leaf): the result of the subcommand's parse_env is copied by
   TOP-LEVEL entry, so a group `a` that holds one variable of the subcommand replaces the whole group NAME.a of the
   environment namespace and drops what the environment config set for ANOTHER key of that group. *)
Definition envsub_replaces_group (sc : scall) : bool :=
  let c := s_parent sc in
  let nm := s_name sc in
  env_is_source c
  && match s_envsub sc with Some v => name_eqb v nm | None => false end
  && match c_envcfg c with
     | None => false
     | Some d =>
         existsb (fun kv =>
                    match fst kv with
                    | a :: _ =>
                        existsb (fun asg => match fst asg with
                                            | n1 :: a1 :: _ => name_eqb n1 nm && name_eqb a1 a && negb (path_eqb (fst asg) (nm :: fst kv))
                                            | _ => false
                                            end) d
                    | [] => false
                    end) (s_subenv sc)
     end.

(* class 2: a call with a subcommand inside the modelled space and outside the finding classes: judged
   case by case against the documented fold (Spec flat_call); C04_sub_precedence_partial covers part of it *)
Definition scall_class_fx (fixed_append fixed_section fixed_envsub fixed_leaf : bool) (sc : scall) : N :=
  if negb (wf_scall sc) then 9%N
  else if envcfg_append (flat_call sc) then 1%N
  else if negb fixed_section && file_without_section sc then 4%N
  else if negb fixed_envsub && envsub_resets sc then 6%N
  else if fixed_envsub && negb fixed_leaf && envsub_replaces_group sc then 6%N
  else if section_append sc then 5%N      (* stays a finding with the partial repair fx_append, see notes/C04.md *)
  (* with the repair fx_envsub a subcommand named by PREFIX_SUBCOMMAND has its variables read in the parent's environment stage *)
  else if subenv_shadowed sc && negb (fixed_envsub && envsub_resets sc) then 3%N
  else 2%N.

Definition scall_class : scall -> N := scall_class_fx false false false false.

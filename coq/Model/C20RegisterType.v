(* C20 — register_type (jsonargparse/typing.py) as a transition of registered_type_handlers, in the shape of the code:

     type_handler = RegisteredType(type_class, serializer, deserializer, ...)
     if not uniqueness_key and fail_already_registered and get_registered_type(type_class):
         if type_handler == registered_type_handlers[type_class]:      (__eq__: type_class, serializer, base_deserializer)
             return
         raise ValueError(... already registered with different serializer and/or deserializer)
     registered_type_handlers[type_class] = type_handler

   After import `fail_already_registered` is the caller's argument (default True; the module-level override is
   deleted at the end of typing.py). None = ValueError. *)
From JV Require Import Lib.Base Lib.C20Text Model.C20Base Model.C20Registered.

Definition handlers := list (str * (serfn * desfn)).
Definition handler_eqb (a b : serfn * desfn) : bool := serfn_eqb (fst a) (fst b) && desfn_eqb (snd a) (snd b).

Definition register_type (tbl : handlers) (ty : str) (h : serfn * desfn) (fail_already has_key : bool) : option handlers :=
  match reg_lookup tbl ty with
  | Some h0 =>
      if negb has_key && fail_already
      then (if handler_eqb h h0 then Some tbl else None)
      else Some (tbl ++ [(ty, h)])
  | None => Some (tbl ++ [(ty, h)])
  end.

(* a history of calls with the DEFAULT flags (no uniqueness key, fail_already_registered=True); a refused call
   leaves the table as it is *)
Fixpoint register_all (tbl : handlers) (calls : list (str * (serfn * desfn))) : handlers :=
  match calls with
  | [] => tbl
  | (ty, h) :: calls' =>
      register_all (match register_type tbl ty h true false with Some tbl' => tbl' | None => tbl end) calls'
  end.

Lemma reg_lookup_app tbl ty h ty' :
  reg_lookup (tbl ++ [(ty, h)]) ty' = if str_eqb ty ty' then Some h else reg_lookup tbl ty'.
Proof. unfold reg_lookup. rewrite fold_left_app. reflexivity. Qed.

(* one call with the default flags never changes what an already registered type is bound to *)
Lemma register_default_keeps tbl ty h tbl' ty' h0 :
  register_type tbl ty h true false = Some tbl' -> reg_lookup tbl ty' = Some h0 -> reg_lookup tbl' ty' = Some h0.
Proof.
  unfold register_type. destruct (reg_lookup tbl ty) as [h1|] eqn:E; simpl.
  - destruct (handler_eqb h h1); intros H; inversion H; subst. auto.
  - intros H L. inversion H; subst. rewrite reg_lookup_app.
    destruct (str_eqb ty ty') eqn:S; auto. apply str_eqb_spec in S. subst. congruence.
Qed.

Lemma register_all_keeps calls : forall tbl ty' h0,
  reg_lookup tbl ty' = Some h0 -> reg_lookup (register_all tbl calls) ty' = Some h0.
Proof.
  induction calls as [|[ty h] calls IH]; simpl; intros tbl ty' h0 L; auto.
  apply IH. destruct (register_type tbl ty h true false) as [tbl'|] eqn:E; auto.
  eapply register_default_keeps; eauto.
Qed.

(* ... and a call that is let through for a registered type was a repetition of the pair it already has *)
Lemma register_default_same tbl ty h tbl' h0 :
  register_type tbl ty h true false = Some tbl' -> reg_lookup tbl ty = Some h0 -> handler_eqb h h0 = true /\ tbl' = tbl.
Proof.
  unfold register_type. intros H L. rewrite L in H. simpl in H.
  destruct (handler_eqb h h0); inversion H; auto.
Qed.

(* C07 — the four ways of declaring a nested group, as compilers from a field list to the parser's
   action table.  Written in the shape of the code (jsonargparse 4.38.0):

     as_dotted       : one  parser.add_argument("--g.name", type=T, default=d | required=True)  per field
                       (_core.py:116-160 -> ActionTypeHint.prepare_add_argument, _typehints.py:282-296)
     as_class_group  : parser.add_class_arguments(Class, "g")
                       (_signatures.py:235-442 _add_signature_arguments/_add_signature_parameter,
                        _signatures.py:517-548 _create_group_if_requested)
     as_dataclass    : parser.add_argument("--g", type=DataClass)  (_core.py:131-135: lstrip("-"), then the same
                       add_class_arguments)
     as_inner_parser : parser.add_argument("--g", action=ActionParser(parser=inner)) where inner got one
                       add_argument("--name", ...) per field (_actions.py:539-595 _move_parser_actions)

   A table is the list of the actions these calls add to the parser, in _actions order, plus the
   parser's required_args set (the parser's own --cfg / help / print_config actions are fixed and live in
   Model/C07Parse.v).  Bugs included (see move_parser_actions). *)
From JV Require Import Lib.Base.

Inductive ty := TInt | TStr | TBool | TList (t : ty) | TOpt (t : ty).

Inductive val :=
| VNone | VInt (z : Z) | VStr (s : str) | VBool (b : bool)
| VList (l : list val) | VDict (l : list (str * val)).

Inductive dflt := NoDefault | Dflt (v : val).
Record field := { f_name : str; f_ty : ty; f_default : dflt }.

Inductive kind := KLeaf | KGroupLoad.
Inductive adef := ASuppress | AVal (v : val).          (* action.default *)

Record row := { r_dest : str;                          (* action.dest *)
                r_opts : list str;                     (* action.option_strings *)
                r_ty : option ty;                      (* action._typehint *)
                r_default : adef;
                r_kind : kind }.

Record table := { t_rows : list row; t_required : list str }.

(* ---- characters ---- *)
Definition c_dash : N := 45.  Definition c_dot : N := 46.  Definition c_us : N := 95.  Definition c_plus : N := 43.
Definition dashes : str := [c_dash; c_dash].

(* argparse: dest = option_string.lstrip('-').replace('-', '_')   (for a key without leading dashes) *)
Definition replace_dash (s : str) : str := map (fun c => if N.eqb c c_dash then c_us else c) s.

Fixpoint lstrip_dash (s : str) : str :=
  match s with
  | c :: s' => if N.eqb c c_dash then lstrip_dash s' else s
  | [] => []
  end.

Definition is_optional (t : ty) : bool := match t with TOpt _ => true | _ => false end.

(* ActionTypeHint.supports_append: a sequence type, or a Union with a sequence member *)
Definition supports_append (t : ty) : bool :=
  match t with TList _ => true | TOpt (TList _) => true | _ => false end.

Definition is_none (v : val) : bool := match v with VNone => true | _ => false end.

Definition starts_underscore (s : str) : bool :=
  match s with c :: _ => N.eqb c c_us | [] => false end.

(* container.add_argument("--" + key, type=t, default=v)  or  (..., type=t, required=True):
   the created ActionTypeHint row, and whether add_argument registers it in parser.required_args
   (_core.py:156-159).  Without default= argparse stores default None. *)
Definition add_typed_argument (key : str) (t : ty) (d : dflt) : row * bool :=
  let opt := dashes ++ key in
  ({| r_dest := replace_dash key;
      r_opts := if supports_append t then [opt; opt ++ [c_plus]] else [opt];
      r_ty := Some t;
      r_default := AVal (match d with Dflt v => v | NoDefault => VNone end);
      r_kind := KLeaf |},
   match d with NoDefault => true | Dflt _ => false end).

Definition table_of (l : list (row * bool)) : table :=
  {| t_rows := map fst l;
     t_required := map (fun rb => r_dest (fst rb)) (filter snd l) |}.

(* ---- style 1: individual dotted arguments ---- *)
Definition dotted_key (gk : str) (f : field) : str := gk ++ [c_dot] ++ f_name f.

Definition as_dotted (gk : str) (fs : list field) : table :=
  table_of (map (fun f => add_typed_argument (dotted_key gk f) (f_ty f) (f_default f)) fs).

(* ---- styles 2 and 3: signature of a class / dataclass ---- *)
(* What _add_signature_parameter makes of one parameter before calling add_argument
   (_signatures.py:337-377): Optional without default gets default None (and is then never treated as private:
   "no default in the signature, so it can't be left out of the call"); required iff still no default;
   non-required names starting with "_" that HAVE a default in the signature are skipped; default None on a
   non-Optional annotation turns the annotation into Optional[annotation]. *)
Definition sig_norm (f : field) : list field :=
  let d := match f_default f with
           | NoDefault => if is_optional (f_ty f) then Dflt VNone else NoDefault
           | x => x
           end in
  let is_private := starts_underscore (f_name f)
                    && match f_default f with NoDefault => false | Dflt _ => true end in
  let is_required := match d with NoDefault => true | Dflt _ => false end in
  if negb is_required && is_private then []
  else
    let t := match d with
             | Dflt v => if is_none v && negb (is_optional (f_ty f)) then TOpt (f_ty f) else f_ty f
             | NoDefault => f_ty f
             end in
    [ {| f_name := f_name f; f_ty := t; f_default := d |} ].

Definition sig_param (nested_key : str) (f : field) : list (row * bool) :=
  map (fun f' => add_typed_argument (dotted_key nested_key f') (f_ty f') (f_default f')) (sig_norm f).

(* group.add_argument("--" + nested_key, action=_ActionConfigLoad): default SUPPRESS, never required *)
Definition group_load_row (key : str) : row :=
  {| r_dest := replace_dash key; r_opts := [dashes ++ key]; r_ty := None; r_default := ASuppress; r_kind := KGroupLoad |}.

(* _create_group_if_requested(..., config_load = len(params) > 0) *)
Definition create_group (nested_key : str) (config_load : bool) : list row :=
  if config_load then [group_load_row nested_key] else [].

Definition as_class_group (nested_key : str) (fs : list field) : table :=
  let body := table_of (flat_map (sig_param nested_key) fs) in
  {| t_rows := create_group nested_key (negb (Nat.eqb (length fs) 0)) ++ t_rows body;
     t_required := t_required body |}.

(* add_argument("--g", type=DataClass): nested_key = args[0].lstrip("-") *)
Definition as_dataclass (opt : str) (fs : list field) : table := as_class_group (lstrip_dash opt) fs.

(* ---- style 4: inner parser moved under a key ---- *)
Definition inner_table (fs : list field) : table :=
  table_of (map (fun f => add_typed_argument (f_name f) (f_ty f) (f_default f)) fs).

(* re.sub("^--", "--" + prefix + ".", key) *)
Definition add_prefix (prefix key : str) : str :=
  match key with
  | c1 :: c2 :: rest => if N.eqb c1 c_dash && N.eqb c2 c_dash then dashes ++ prefix ++ [c_dot] ++ rest else key
  | _ => key
  end.

(* ActionParser._move_parser_actions(parser, args=(opt,), ...), opt = "--" + prefix.
   NOTE (as in the code): the dests get  prefix.replace("-","_") + "."  but required_args gets the
   UNREPLACED prefix + "." . *)
Definition move_parser_actions (opt : str) (sub : table) : table :=
  let prefix := skipn 2 opt in
  let dest := replace_dash prefix in
  {| t_rows := group_load_row prefix
               :: map (fun r => {| r_dest := dest ++ [c_dot] ++ r_dest r;
                                   r_opts := map (add_prefix prefix) (r_opts r);
                                   r_ty := r_ty r; r_default := r_default r; r_kind := r_kind r |})
                      (t_rows sub);
     t_required := map (fun x => prefix ++ [c_dot] ++ x) (t_required sub) |}.

Definition as_inner_parser (opt : str) (fs : list field) : table := move_parser_actions opt (inner_table fs).

(* the repaired tree (fixes/C07-inner-hyphen-required.patch): required_args are prefixed like the dests *)
Definition move_parser_actions_fixed (opt : str) (sub : table) : table :=
  let prefix := skipn 2 opt in
  let dest := replace_dash prefix in
  {| t_rows := t_rows (move_parser_actions opt sub);
     t_required := map (fun x => dest ++ [c_dot] ++ x) (t_required sub) |}.

Definition as_inner_parser_fixed (opt : str) (fs : list field) : table :=
  move_parser_actions_fixed opt (inner_table fs).

(* ---- the documented signature rules as a normal form of the field list ----
   What the signature styles make of a field list: the add_argument styles (dotted, inner parser) are declared
   from this normal form, so that all four declarations describe the same set of options. *)
Definition norm (fs : list field) : list field := flat_map sig_norm fs.

(* a table plus the group's _ActionConfigLoad row in front: how the three grouped styles relate to the dotted one *)
Definition with_load (gk : str) (T : table) : table :=
  {| t_rows := group_load_row gk :: t_rows T; t_required := t_required T |}.

(* ---- guards on the declaration ---- *)
(* a field the signature rules leave alone *)
Definition explicit_field (f : field) : bool :=
  match f_default f with
  | NoDefault => negb (is_optional (f_ty f))
  | Dflt v => negb (starts_underscore (f_name f)) && (negb (is_none v) || is_optional (f_ty f))
  end.
Definition explicit (fs : list field) : bool := forallb explicit_field fs.
(* no private names *)
Definition public (fs : list field) : bool := forallb (fun f => negb (starts_underscore (f_name f))) fs.

Definition has_dot (s : str) : bool := existsb (fun c => N.eqb c c_dot) s.
Definition starts_dash (s : str) : bool := match s with c :: _ => N.eqb c c_dash | [] => false end.
Definition is_nil {A} (l : list A) : bool := match l with [] => true | _ => false end.

Definition has_dash (s : str) : bool := existsb (fun c => N.eqb c c_dash) s.
Definition has_required (fs : list field) : bool :=
  existsb (fun f => match f_default f with NoDefault => true | _ => false end) fs.
(* the inner-parser style is only sound when the key has no hyphen or nothing is required *)
Definition hyphen_safe (gk : str) (fs : list field) : bool := negb (has_dash gk && has_required fs).

(* ---- decidable equalities used by the judge ---- *)
Fixpoint ty_eqb (a b : ty) : bool :=
  match a, b with
  | TInt, TInt | TStr, TStr | TBool, TBool => true
  | TList x, TList y | TOpt x, TOpt y => ty_eqb x y
  | _, _ => false
  end.

Fixpoint val_eqb (a b : val) {struct a} : bool :=
  match a, b with
  | VNone, VNone => true
  | VInt x, VInt y => Z.eqb x y
  | VStr x, VStr y => str_eqb x y
  | VBool x, VBool y => Bool.eqb x y
  | VList x, VList y =>
      (fix go (x y : list val) : bool :=
         match x, y with
         | [], [] => true
         | u :: x', w :: y' => val_eqb u w && go x' y'
         | _, _ => false
         end) x y
  | VDict x, VDict y =>
      (fix go (x y : list (str * val)) : bool :=
         match x, y with
         | [], [] => true
         | (k, u) :: x', (k', w) :: y' => str_eqb k k' && val_eqb u w && go x' y'
         | _, _ => false
         end) x y
  | _, _ => false
  end.

Definition dflt_eqb (a b : dflt) : bool :=
  match a, b with
  | NoDefault, NoDefault => true
  | Dflt x, Dflt y => val_eqb x y
  | _, _ => false
  end.

Definition field_eqb (a b : field) : bool :=
  str_eqb (f_name a) (f_name b) && ty_eqb (f_ty a) (f_ty b) && dflt_eqb (f_default a) (f_default b).

Definition adef_eqb (a b : adef) : bool :=
  match a, b with
  | ASuppress, ASuppress => true
  | AVal x, AVal y => val_eqb x y
  | _, _ => false
  end.

Definition kind_eqb (a b : kind) : bool :=
  match a, b with
  | KLeaf, KLeaf | KGroupLoad, KGroupLoad => true
  | _, _ => false
  end.

Definition row_eqb (a b : row) : bool :=
  str_eqb (r_dest a) (r_dest b) && list_eqb str_eqb (r_opts a) (r_opts b)
  && option_eqb ty_eqb (r_ty a) (r_ty b) && adef_eqb (r_default a) (r_default b) && kind_eqb (r_kind a) (r_kind b).

Definition incl_str (a b : list str) : bool := forallb (fun x => mem_str x b) a.
Definition table_eqb (a b : table) : bool :=
  list_eqb row_eqb (t_rows a) (t_rows b)
  && incl_str (t_required a) (t_required b) && incl_str (t_required b) (t_required a).

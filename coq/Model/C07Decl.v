(* C07 — the four ways of declaring a nested group, as compilers from a field list to the parser's
   action table.  Written in the shape of the code (jsonargparse 4.38.0):

     as_dotted       : one  parser.add_argument("--g.name", type=T, default=d | required=True)  per field
                       (_core.py:116-160 -> ActionTypeHint.prepare_add_argument, _typehints.py:282-296)
     as_class_group  : parser.add_class_arguments(Class, "g")
                       (_signatures.py:235-442 _add_signature_arguments/_add_signature_parameter,
                        _signatures.py:517-548 _create_group_if_requested)
     as_dataclass    : parser.add_argument("--g", type=DataClass)  (_core.py:131-135: lstrip("-"), then the same
                       add_class_arguments)
     as_inner_parser : parser.add_argument("--g", action=ActionParser(parser=inner)) where inner got one
                       add_argument("--name", ...) per field (_actions.py:539-595 _move_parser_actions)

   A table is the list of the actions these calls add to the parser, in _actions order, plus the
   parser's required_args set (the parser's own --cfg / help / print_config actions are fixed and live in
   Model/C07Parse.v).  Bugs included (see move_parser_actions). *)
From JV Require Import Lib.Base.

Inductive ty := TInt | TStr | TBool | TList (t : ty) | TOpt (t : ty).

Inductive val :=
| VNone | VInt (z : Z) | VStr (s : str) | VBool (b : bool)
| VList (l : list val) | VDict (l : list (str * val)).

Inductive dflt := NoDefault | Dflt (v : val).
Record field := { f_name : str; f_ty : ty; f_default : dflt }.

Inductive kind := KLeaf | KGroupLoad.
Inductive adef := ASuppress | AVal (v : val).          (* action.default *)

Record row := { r_dest : str;                          (* action.dest *)
                r_opts : list str;                     (* action.option_strings *)
                r_ty : option ty;                      (* action._typehint *)
                r_default : adef;
                r_kind : kind }.

Record table := { t_rows : list row; t_required : list str }.

(* ---- characters ---- *)
Definition c_dash : N := 45.  Definition c_dot : N := 46.  Definition c_us : N := 95.  Definition c_plus : N := 43.
Definition dashes : str := [c_dash; c_dash].

(* argparse: dest = option_string.lstrip('-').replace('-', '_')   (for a key without leading dashes) *)
Definition replace_dash (s : str) : str := map (fun c => if N.eqb c c_dash then c_us else c) s.

Fixpoint lstrip_dash (s : str) : str :=
  match s with
  | c :: s' => if N.eqb c c_dash then lstrip_dash s' else s
  | [] => []
  end.

Definition is_optional (t : ty) : bool := match t with TOpt _ => true | _ => false end.

(* ActionTypeHint.supports_append: a sequence type, or a Union with a sequence member *)
Definition supports_append (t : ty) : bool :=
  match t with TList _ => true | TOpt (TList _) => true | _ => false end.

Definition is_none (v : val) : bool := match v with VNone => true | _ => false end.

Definition starts_underscore (s : str) : bool :=
  match s with c :: _ => N.eqb c c_us | [] => false end.

(* container.add_argument("--" + key, type=t, default=v)  or  (..., type=t, required=True):
   the created ActionTypeHint row, and whether add_argument registers it in parser.required_args
   (_core.py:156-159).  Without default= argparse stores default None. *)
Definition add_typed_argument (key : str) (t : ty) (d : dflt) : row * bool :=
  let opt := dashes ++ key in
  ({| r_dest := replace_dash key;
      r_opts := if supports_append t then [opt; opt ++ [c_plus]] else [opt];
      r_ty := Some t;
      r_default := AVal (match d with Dflt v => v | NoDefault => VNone end);
      r_kind := KLeaf |},
   match d with NoDefault => true | Dflt _ => false end).

Definition table_of (l : list (row * bool)) : table :=
  {| t_rows := map fst l;
     t_required := map (fun rb => r_dest (fst rb)) (filter snd l) |}.

(* ---- style 1: individual dotted arguments ---- *)
Definition dotted_key (gk : str) (f : field) : str := gk ++ [c_dot] ++ f_name f.

Definition as_dotted (gk : str) (fs : list field) : table :=
  table_of (map (fun f => add_typed_argument (dotted_key gk f) (f_ty f) (f_default f)) fs).

(* ---- styles 2 and 3: signature of a class / dataclass ---- *)
(* What _add_signature_parameter makes of one parameter before calling add_argument
   (_signatures.py:337-377): Optional without default gets default None (and is then never treated as private:
   "no default in the signature, so it can't be left out of the call"); required iff still no default;
   non-required names starting with "_" that HAVE a default in the signature are skipped; default None on a
   non-Optional annotation turns the annotation into Optional[annotation]. *)
Definition sig_norm (f : field) : list field :=
  let d := match f_default f with
           | NoDefault => if is_optional (f_ty f) then Dflt VNone else NoDefault
           | x => x
           end in
  let is_private := starts_underscore (f_name f)
                    && match f_default f with NoDefault => false | Dflt _ => true end in
  let is_required := match d with NoDefault => true | Dflt _ => false end in
  if negb is_required && is_private then []
  else
    let t := match d with
             | Dflt v => if is_none v && negb (is_optional (f_ty f)) then TOpt (f_ty f) else f_ty f
             | NoDefault => f_ty f
             end in
    [ {| f_name := f_name f; f_ty := t; f_default := d |} ].

Definition sig_param (nested_key : str) (f : field) : list (row * bool) :=
  map (fun f' => add_typed_argument (dotted_key nested_key f') (f_ty f') (f_default f')) (sig_norm f).

(* group.add_argument("--" + nested_key, action=_ActionConfigLoad): default SUPPRESS, never required *)
Definition group_load_row (key : str) : row :=
  {| r_dest := replace_dash key; r_opts := [dashes ++ key]; r_ty := None; r_default := ASuppress; r_kind := KGroupLoad |}.

(* _create_group_if_requested(..., config_load = len(params) > 0) *)
Definition create_group (nested_key : str) (config_load : bool) : list row :=
  if config_load then [group_load_row nested_key] else [].

Definition as_class_group (nested_key : str) (fs : list field) : table :=
  let body := table_of (flat_map (sig_param nested_key) fs) in
  {| t_rows := create_group nested_key (negb (Nat.eqb (length fs) 0)) ++ t_rows body;
     t_required := t_required body |}.

(* add_argument("--g", type=DataClass): nested_key = args[0].lstrip("-") *)
Definition as_dataclass (opt : str) (fs : list field) : table := as_class_group (lstrip_dash opt) fs.

(* ---- style 4: inner parser moved under a key ---- *)
Definition inner_table (fs : list field) : table :=
  table_of (map (fun f => add_typed_argument (f_name f) (f_ty f) (f_default f)) fs).

(* re.sub("^--", "--" + prefix + ".", key) *)
Definition add_prefix (prefix key : str) : str :=
  match key with
  | c1 :: c2 :: rest => if N.eqb c1 c_dash && N.eqb c2 c_dash then dashes ++ prefix ++ [c_dot] ++ rest else key
  | _ => key
  end.

(* ActionParser._move_parser_actions(parser, args=(opt,), ...), opt = "--" + prefix.
   NOTE (as in the code): the dests get  prefix.replace("-","_") + "."  but required_args gets the
   UNREPLACED prefix + "." . *)
Definition move_parser_actions (opt : str) (sub : table) : table :=
  let prefix := skipn 2 opt in
  let dest := replace_dash prefix in
  {| t_rows := group_load_row prefix
               :: map (fun r => {| r_dest := dest ++ [c_dot] ++ r_dest r;
                                   r_opts := map (add_prefix prefix) (r_opts r);
                                   r_ty := r_ty r; r_default := r_default r; r_kind := r_kind r |})
                      (t_rows sub);
     t_required := map (fun x => prefix ++ [c_dot] ++ x) (t_required sub) |}.

Definition as_inner_parser (opt : str) (fs : list field) : table := move_parser_actions opt (inner_table fs).

(* the repaired tree (fixes/C07-inner-hyphen-required.patch): required_args are prefixed like the dests *)
Definition move_parser_actions_fixed (opt : str) (sub : table) : table :=
  let prefix := skipn 2 opt in
  let dest := replace_dash prefix in
  {| t_rows := t_rows (move_parser_actions opt sub);
     t_required := map (fun x => dest ++ [c_dot] ++ x) (t_required sub) |}.

Definition as_inner_parser_fixed (opt : str) (fs : list field) : table :=
  move_parser_actions_fixed opt (inner_table fs).

(* ---- the documented signature rules as a normal form of the field list ----
   What the signature styles make of a field list: the add_argument styles (dotted, inner parser) are declared
   from this normal form, so that all four declarations describe the same set of options. *)
Definition norm (fs : list field) : list field := flat_map sig_norm fs.

(* a table plus the group's _ActionConfigLoad row in front: how the three grouped styles relate to the dotted one *)
Definition with_load (gk : str) (T : table) : table :=
  {| t_rows := group_load_row gk :: t_rows T; t_required := t_required T |}.

(* ---- guards on the declaration ---- *)
(* a field the signature rules leave alone *)
Definition explicit_field (f : field) : bool :=
  match f_default f with
  | NoDefault => negb (is_optional (f_ty f))
  | Dflt v => negb (starts_underscore (f_name f)) && (negb (is_none v) || is_optional (f_ty f))
  end.
Definition explicit (fs : list field) : bool := forallb explicit_field fs.
(* no private names *)
Definition public (fs : list field) : bool := forallb (fun f => negb (starts_underscore (f_name f))) fs.

Definition has_dot (s : str) : bool := existsb (fun c => N.eqb c c_dot) s.
Definition starts_dash (s : str) : bool := match s with c :: _ => N.eqb c c_dash | [] => false end.
Definition is_nil {A} (l : list A) : bool := match l with [] => true | _ => false end.

Definition has_dash (s : str) : bool := existsb (fun c => N.eqb c c_dash) s.
Definition has_required (fs : list field) : bool :=
  existsb (fun f => match f_default f with NoDefault => true | _ => false end) fs.
(* the inner-parser style is only sound when the key has no hyphen or nothing is required *)
Definition hyphen_safe (gk : str) (fs : list field) : bool := negb (has_dash gk && has_required fs).

(* ---- decidable equalities used by the judge ---- *)
Fixpoint ty_eqb (a b : ty) : bool :=
  match a, b with
  | TInt, TInt | TStr, TStr | TBool, TBool => true
  | TList x, TList y | TOpt x, TOpt y => ty_eqb x y
  | _, _ => false
  end.

Fixpoint val_eqb (a b : val) {struct a} : bool :=
  match a, b with
  | VNone, VNone => true
  | VInt x, VInt y => Z.eqb x y
  | VStr x, VStr y => str_eqb x y
  | VBool x, VBool y => Bool.eqb x y
  | VList x, VList y =>
      (fix go (x y : list val) : bool :=
         match x, y with
         | [], [] => true
         | u :: x', w :: y' => val_eqb u w && go x' y'
         | _, _ => false
         end) x y
  | VDict x, VDict y =>
      (fix go (x y : list (str * val)) : bool :=
         match x, y with
         | [], [] => true
         | (k, u) :: x', (k', w) :: y' => str_eqb k k' && val_eqb u w && go x' y'
         | _, _ => false
         end) x y
  | _, _ => false
  end.

Definition dflt_eqb (a b : dflt) : bool :=
  match a, b with
  | NoDefault, NoDefault => true
  | Dflt x, Dflt y => val_eqb x y
  | _, _ => false
  end.

Definition field_eqb (a b : field) : bool :=
  str_eqb (f_name a) (f_name b) && ty_eqb (f_ty a) (f_ty b) && dflt_eqb (f_default a) (f_default b).

Definition adef_eqb (a b : adef) : bool :=
  match a, b with
  | ASuppress, ASuppress => true
  | AVal x, AVal y => val_eqb x y
  | _, _ => false
  end.

Definition kind_eqb (a b : kind) : bool :=
  match a, b with
  | KLeaf, KLeaf | KGroupLoad, KGroupLoad => true
  | _, _ => false
  end.

Definition row_eqb (a b : row) : bool :=
  str_eqb (r_dest a) (r_dest b) && list_eqb str_eqb (r_opts a) (r_opts b)
  && option_eqb ty_eqb (r_ty a) (r_ty b) && adef_eqb (r_default a) (r_default b) && kind_eqb (r_kind a) (r_kind b).

Definition incl_str (a b : list str) : bool := forallb (fun x => mem_str x b) a.
Definition table_eqb (a b : table) : bool :=
  list_eqb row_eqb (t_rows a) (t_rows b)
  && incl_str (t_required a) (t_required b) && incl_str (t_required b) (t_required a).

(* ======================================================================================================
   Members: leaves whose default the DECLARATION may override, and dataclass-typed members (one nested
   sub-group).  The override is given as  default=<instance>  (dataclass style),  default=<dict>  (class style:
   add_class_arguments(..., default=...), _signatures.py:113-132) or as the plain default= of each add_argument
   (dotted / inner-parser styles).  The signature styles first add every parameter with its SIGNATURE default and
   then run  parser.set_defaults  over the mapping (_core.py:190-216): entries in order, the action found by
   dest, a whole-group (_ActionConfigLoad) entry expanded recursively, then the NEXT entry.
   ====================================================================================================== *)
Record ofield := { o_field : field; o_over : option val }.
(* mdef: the dataclass-typed member has a default instance (default_factory) in the signature *)
Inductive member := MLeaf (o : ofield) | MSub (name : str) (sub : list ofield) (mdef : bool).

Definition isSome {A} (o : option A) : bool := match o with Some _ => true | None => false end.

Definition onorm (l : list ofield) : list ofield :=
  flat_map (fun o => map (fun f => {| o_field := f; o_over := o_over o |}) (sig_norm (o_field o))) l.
Definition mnorm (ms : list member) : list member :=
  flat_map (fun m => match m with
                     | MLeaf o => map MLeaf (onorm [o])
                     | MSub n sub d => [MSub n (onorm sub) d]
                     end) ms.

(* the field as the add_argument styles declare it: the overriding default in place of the signature's *)
Definition eff (o : ofield) : field :=
  match o_over o with
  | Some v => {| f_name := f_name (o_field o); f_ty := f_ty (o_field o); f_default := Dflt v |}
  | None => o_field o
  end.
Definition prefixed (n : str) (f : field) : field :=
  {| f_name := n ++ [c_dot] ++ f_name f; f_ty := f_ty f; f_default := f_default f |}.
(* the leaves of the (normalised) members with their dotted paths below the group key *)
Definition flat (ms : list member) : list field :=
  flat_map (fun m => match m with
                     | MLeaf o => [eff o]
                     | MSub n sub _ => map (fun o => prefixed n (eff o)) sub
                     end) ms.

(* ---- style 1 ---- *)
Definition as_dotted_m (gk : str) (nms : list member) : table := as_dotted gk (flat nms).

(* ---- style 4: the inner parser holds a nested ActionParser per sub-group ---- *)
Definition tcat (a b : table) : table :=
  {| t_rows := t_rows a ++ t_rows b; t_required := t_required a ++ t_required b |}.
Definition inner_member (m : member) : table :=
  match m with
  | MLeaf o => inner_table [eff o]
  | MSub n sub _ => move_parser_actions_fixed (dashes ++ n) (inner_table (map eff sub))
  end.
Definition inner_table_m (nms : list member) : table :=
  fold_right (fun m acc => tcat (inner_member m) acc) {| t_rows := []; t_required := [] |} nms.
Definition as_inner_parser_m (opt : str) (nms : list member) : table :=
  move_parser_actions_fixed opt (inner_table_m nms).

(* ---- styles 2 and 3 ---- *)
Definition member_rows (nk : str) (m : member) : list (row * bool) :=
  match m with
  | MLeaf o => sig_param nk (o_field o)
  | MSub n sub _ =>
      let k := nk ++ [c_dot] ++ n in
      map (fun r => (r, false)) (create_group k (negb (Nat.eqb (length sub) 0)))
      ++ flat_map (sig_param k) (map o_field sub)
  end.

Definition dflt_val (f : field) : option val := match f_default f with Dflt v => Some v | NoDefault => None end.

(* what the default= mapping holds for one (normalised) parameter: the override; with a complete mapping (an
   instance, or a dict naming every member) the signature default elsewhere *)
Definition oentry (full : bool) (o : ofield) : list (str * val) :=
  match o_over o with
  | Some v => [(f_name (o_field o), v)]
  | None => if full then match dflt_val (o_field o) with Some v => [(f_name (o_field o), v)] | None => [] end else []
  end.
Definition mentry (full : bool) (m : member) : list (str * val) :=
  match m with
  | MLeaf o => oentry full o
  | MSub n sub _ => let l := flat_map (oentry full) sub in
                    if full || negb (is_nil l) then [(n, VDict l)] else []
  end.
(* defaults = {prefix + k: v}  with prefix = nested_key + "."  (the RAW nested key) *)
Definition with_prefix (k : str) (es : list (str * val)) : list (str * val) :=
  map (fun e => (k ++ [c_dot] ++ fst e, snd e)) es.
Definition entries (full : bool) (nk : str) (nms : list member) : list (str * val) :=
  with_prefix nk (flat_map (mentry full) nms).
(* a member's default instance: the nested add_class_arguments(Sub, nk.n, default=Sub()) sets every sub-parameter's
   default (to the signature's value) through set_defaults as well *)
Definition member_default_entries (nk : str) (nms : list member) : list (str * val) :=
  flat_map (fun m => match m with
                     | MSub n sub true =>
                         with_prefix (nk ++ [c_dot] ++ n)
                           (flat_map (fun o => oentry true {| o_field := o_field o; o_over := None |}) sub)
                     | _ => []
                     end) nms.

Definition ms_has_over (ms : list member) : bool :=
  existsb (fun m => match m with
                    | MLeaf o => isSome (o_over o)
                    | MSub _ sub _ => existsb (fun o => isSome (o_over o)) sub
                    end) ms.

(* _find_action(self, dest): the first non-load action with that dest, else the load action *)
Definition is_leaf_at (d : str) (r : row) : bool :=
  str_eqb (r_dest r) d && match r_kind r with KLeaf => true | KGroupLoad => false end.
Definition is_load_at (d : str) (r : row) : bool :=
  str_eqb (r_dest r) d && match r_kind r with KLeaf => false | KGroupLoad => true end.
Definition with_default (r : row) (v : val) : row :=
  {| r_dest := r_dest r; r_opts := r_opts r; r_ty := r_ty r; r_default := AVal v; r_kind := r_kind r |}.

(* action.default = default  on the action found *)
Fixpoint set_row_default (d : str) (v : val) (rows : list row) : list row :=
  match rows with
  | [] => []
  | r :: rs => if is_leaf_at d r then with_default r v :: rs else r :: set_row_default d v rs
  end.

(* set_defaults below a whole-group entry (one nesting level is modelled: a load action met here is an error) *)
Fixpoint set_defaults1 (rows : list row) (es : list (str * val)) : option (list row) :=
  match es with
  | [] => Some rows
  | e :: es' => if existsb (is_leaf_at (fst e)) rows
                then set_defaults1 (set_row_default (fst e) (snd e) rows) es'
                else None                                  (* NSKeyError: No action for key *)
  end.

(* for dest, default in arg.items(): ... _ActionConfigLoad: self.set_defaults({dest.k: v}); continue *)
Fixpoint set_defaults (rows : list row) (es : list (str * val)) : option (list row) :=
  match es with
  | [] => Some rows
  | e :: es' =>
      if existsb (is_leaf_at (fst e)) rows then set_defaults (set_row_default (fst e) (snd e) rows) es'
      else if existsb (is_load_at (fst e)) rows then
        match snd e with
        | VDict l => match set_defaults1 rows (with_prefix (fst e) l) with
                     | Some rows' => set_defaults rows' es'
                     | None => None
                     end
        | _ => None
        end
      else None
  end.

(* add_class_arguments(Class, nk, default=<mapping>): None = the declaration raises.
   fixkey = false: the tree as it is (the mapping's keys carry the RAW nested key);
   fixkey = true : with fixes/C07-hyphen-key-default-override.patch (the keys carry the dest prefix) *)
Definition as_class_group_m (fixkey full : bool) (nk : str) (ms : list member) : option table :=
  let body := flat_map (member_rows nk) ms in
  let rows0 := create_group nk (negb (Nat.eqb (length ms) 0)) ++ map fst body in
  let req := map (fun rb => r_dest (fst rb)) (filter snd body) in
  let k := if fixkey then replace_dash nk else nk in
  match set_defaults1 rows0 (member_default_entries k (mnorm ms)) with
  | None => None
  | Some rows1 =>
      match (if ms_has_over ms then set_defaults rows1 (entries full k (mnorm ms)) else Some rows1) with
      | Some rows => Some {| t_rows := rows; t_required := req |}
      | None => None
      end
  end.

(* add_argument("--g", type=DataClass, default=<instance>): the mapping is complete *)
Definition as_dataclass_m (fixkey : bool) (opt : str) (ms : list member) : option table :=
  as_class_group_m fixkey true (lstrip_dash opt) ms.

(* ---- guards on members ---- *)
Definition ofields_of (ms : list member) : list ofield :=
  flat_map (fun m => match m with MLeaf o => [o] | MSub _ sub _ => sub end) ms.
(* an override is only given to a parameter that has a default (after the signature rules) *)
Definition overrides_ok (nms : list member) : bool :=
  forallb (fun o => match o_over o, f_default (o_field o) with Some _, NoDefault => false | _, _ => true end)
          (ofields_of nms).
Definition sub_names (ms : list member) : list str :=
  flat_map (fun m => match m with MLeaf _ => [] | MSub n _ _ => [n] end) ms.
Definition has_nested (ms : list member) : bool := negb (is_nil (sub_names ms)).
Definition has_mdef (ms : list member) : bool :=
  existsb (fun m => match m with MSub _ _ true => true | _ => false end) ms.
Definition leaves_only (fs : list field) : list member := map (fun f => MLeaf {| o_field := f; o_over := None |}) fs.

(* a member that carries no declaration-time default (no default= override, no default instance on a
   dataclass-typed member); a dataclass-typed member has at least one parameter *)
Definition no_over (o : ofield) : bool := negb (isSome (o_over o)).
Definition plain_member (m : member) : bool :=
  match m with
  | MLeaf o => no_over o
  | MSub _ sub d => forallb no_over sub && negb d && negb (is_nil sub)
  end.
(* ... the same, but a dataclass-typed member may have a default instance (of the member type's own defaults) *)
Definition plain_member_d (m : member) : bool :=
  match m with
  | MLeaf o => no_over o
  | MSub _ sub _ => forallb no_over sub && negb (is_nil sub)
  end.

Definition ofield_eqb (a b : ofield) : bool :=
  field_eqb (o_field a) (o_field b) && option_eqb val_eqb (o_over a) (o_over b).
Definition member_eqb (a b : member) : bool :=
  match a, b with
  | MLeaf x, MLeaf y => ofield_eqb x y
  | MSub n x d, MSub n' y d' => str_eqb n n' && list_eqb ofield_eqb x y && Bool.eqb d d'
  | _, _ => false
  end.

(* C19 — model of jsonargparse._util.Path: mode validation (_check_mode, tables from Gen/C19PathFlags.v)
   and the local-file-system branch of Path.__init__ (_util.py:596-636), written in the order of the
   code, bugs included. Executable Gallina only. *)
From JV Require Import Lib.Base Gen.C19PathFlags.

(* ---- mode strings ------------------------------------------------------------------------- *)
Definition has (c : N) (m : str) : bool := existsb (N.eqb c) m.

Fixpoint count (c : N) (m : str) : N :=
  match m with
  | [] => 0
  | x :: m' => if N.eqb c x then N.succ (count c m') else count c m'
  end.

Fixpoint assoc_N (c : N) (l : list (N * N)) (d : N) : N :=
  match l with
  | [] => d
  | (k, v) :: l' => if N.eqb c k then v else assoc_N c l' d
  end.

(* Path._check_mode: alphabet, multiplicities, exclusions (isinstance(mode, str) holds by typing) *)
Definition check_mode_with (alpha : list N) (maxd : N) (maxs excl : list (N * N)) (m : str) : bool :=
  forallb (fun c => has c alpha) m
  && forallb (fun c => N.leb (count c m) (assoc_N c maxs maxd)) m
  && forallb (fun ab => negb (has (fst ab) m && has (snd ab) m)) excl.

Definition check_mode : str -> bool :=
  check_mode_with c19_alphabet c19_max_default c19_max_special c19_exclusions.

(* What Path.__init__ reads from the mode: membership of each flag and whether "c" occurs twice. *)
Record mfl := { ff : bool; fd : bool; fr : bool; fw : bool; fx : bool; fc : bool; fcc : bool;
                fu : bool; fs : bool; fF : bool; fD : bool; fR : bool; fW : bool; fX : bool }.

Definition flags_of (m : str) : mfl :=
  {| ff := has 102 m; fd := has 100 m; fr := has 114 m; fw := has 119 m; fx := has 120 m;
     fc := has 99 m; fcc := N.eqb (count 99 m) 2;
     fu := has 117 m; fs := has 115 m;
     fF := has 70 m; fD := has 68 m; fR := has 82 m; fW := has 87 m; fX := has 88 m |}.

(* flag character -> field (for the exclusion table) *)
Definition fl_has (c : N) (fl : mfl) : bool :=
  if N.eqb c 102 then ff fl else if N.eqb c 100 then fd fl else if N.eqb c 114 then fr fl else
  if N.eqb c 119 then fw fl else if N.eqb c 120 then fx fl else if N.eqb c 99 then fc fl else
  if N.eqb c 117 then fu fl else if N.eqb c 115 then fs fl else if N.eqb c 70 then fF fl else
  if N.eqb c 68 then fD fl else if N.eqb c 82 then fR fl else if N.eqb c 87 then fW fl else
  if N.eqb c 88 then fX fl else false.

Definition valid_fl_with (excl : list (N * N)) (fl : mfl) : bool :=
  forallb (fun ab => negb (fl_has (fst ab) fl && fl_has (snd ab) fl)) excl
  && implb (fcc fl) (fc fl).

Definition valid_fl : mfl -> bool := valid_fl_with c19_exclusions.

(* ---- what the operating system answers for abs_path ---------------------------------------- *)
Inductive kind := KReg | KDir | KFifo | KOther.

Record facts := {
  exists_ : bool;   (* os.access(abs_path, F_OK) / os.stat succeeds (symlinks followed) *)
  kd      : kind;   (* S_ISREG / S_ISDIR / S_ISFIFO / anything else; meaningful when exists_ *)
  ar : bool; aw : bool; ax : bool;   (* os.access R_OK / W_OK / X_OK *)
  par_dir : bool;   (* the (physical) parent of abs_path is a directory *)
  anc_dir : bool;   (* the first EXISTING proper ancestor is a directory *)
  dir_w   : bool    (* W_OK on the nearest proper ancestor that IS a directory *)
}.

Definition kind_eqb (a b : kind) : bool :=
  match a, b with KReg, KReg | KDir, KDir | KFifo, KFifo | KOther, KOther => true | _, _ => false end.

Definition os_isdir (f : facts) : bool := exists_ f && kind_eqb (kd f) KDir.
Definition os_isfile (f : facts) : bool := exists_ f && kind_eqb (kd f) KReg.
(* stat.S_ISFIFO(os.stat(p).st_mode): None = os.stat raised (FileNotFoundError, NotADirectoryError, ...) *)
Definition os_stat_isfifo (f : facts) : option bool :=
  if exists_ f then Some (kind_eqb (kd f) KFifo) else None.

Inductive outcome := Accept | PathErr | OsErr | ValErr.

Definition outcome_eqb (a b : outcome) : bool :=
  match a, b with
  | Accept, Accept | PathErr, PathErr | OsErr, OsErr | ValErr, ValErr => true
  | _, _ => false
  end.

(* Repairs proposed in /verif/fixes (C19-<key>.patch). The model is written once, in the shape of the code,
   with the patched lines selected by this record: `no_fixes` is the pinned tree, and a field is switched on
   (tie/props/c19.py, from the `fixed:` lines of known_findings/C19.txt) when the patch has landed in /repo. *)
Record fixes := {
  fx_F    : bool;   (* C19-not-file-missing: `"F" in mode and os.path.exists(abs_path)` before the isfile/S_ISFIFO test *)
  fx_fifo : bool;   (* C19-fc-fifo: the "c" block's file test gets the S_ISFIFO clause of the plain "f" test *)
  fx_cc   : bool;   (* C19-cc-through-file: the "cc" loop stops at the first EXISTING ancestor (`not os.path.exists(pdir)`) *)
  fx_lf   : bool;   (* C19-list-file-relative: _check_type's fallback no longer enters the config file's directory (Model/C19Cwd.v) *)
  fx_rp   : bool    (* C19-chdir-lexical-dotdot: change_to_path_dir enters os.path.realpath(path_dir) instead of abspath (Model/C19Cwd.v) *)
}.
Definition no_fixes : fixes := {| fx_F := false; fx_fifo := false; fx_cc := false; fx_lf := false; fx_rp := false |}.
Definition all_fixes : fixes := {| fx_F := true; fx_fifo := true; fx_cc := true; fx_lf := true; fx_rp := true |}.

(* `if "c" in mode:` block, _util.py:598-612. None = fall through to the next statement. *)
Definition check_c_fx (fxs : fixes) (fl : mfl) (f : facts) : option outcome :=
  (* pdir = realpath(abs_path/..); with "cc" the while loop climbs to the nearest directory
     (the root at the latest), so afterwards isdir(pdir) holds; repaired: it climbs to the first existing
     ancestor, which may or may not be a directory *)
  let pdir_isdir := if negb (par_dir f) && fcc fl then (if fx_cc fxs then anc_dir f else true) else par_dir f in
  if negb pdir_isdir then Some PathErr
  else if negb (dir_w f) then Some PathErr
  else if fd fl && exists_ f && negb (os_isdir f) then Some PathErr
  else if ff fl && exists_ f
          && negb (os_isfile f || (fx_fifo fxs && kind_eqb (kd f) KFifo)) then Some PathErr
  else None.

(* `elif "d" in mode or "f" in mode:` block, _util.py:613-619 *)
Definition check_fd (fl : mfl) (f : facts) : option outcome :=
  if negb (exists_ f) then Some PathErr
  else if fd fl && negb (os_isdir f) then Some PathErr
  else if ff fl then
    (if os_isfile f then None
     else match os_stat_isfifo f with
          | None => Some OsErr
          | Some true => None
          | Some false => Some PathErr
          end)
  else None.

(* _util.py:621-636, in order *)
Definition check_access_fx (fxs : fixes) (fl : mfl) (f : facts) : outcome :=
  if fr fl && negb (ar f) then PathErr
  else if fw fl && negb (aw f) then PathErr
  else if fx fl && negb (ax f) then PathErr
  else if fD fl && os_isdir f then PathErr
  else
    let after_F :=
      if fR fl && ar f then PathErr
      else if fW fl && aw f then PathErr
      else if fX fl && ax f then PathErr
      else Accept in
    if fF fl && (negb (fx_F fxs) || exists_ f) then      (* repaired: `and os.path.exists(abs_path)` *)
      (if os_isfile f then PathErr
       else match os_stat_isfifo f with
            | None => OsErr            (* os.stat on a missing path: not the documented error *)
            | Some true => PathErr
            | Some false => after_F
            end)
    else after_F.

Definition path_check_fl_fx (fxs : fixes) (fl : mfl) (f : facts) : outcome :=
  let first :=
    if fc fl then check_c_fx fxs fl f
    else if fd fl || ff fl then check_fd fl f
    else None in
  match first with
  | Some o => o
  | None => check_access_fx fxs fl f
  end.

(* the pinned tree *)
Definition check_c := check_c_fx no_fixes.
Definition check_access := check_access_fx no_fixes.
Definition path_check_fl := path_check_fl_fx no_fixes.

(* Path(path, mode) for a local path: ValueError for an invalid mode, no check at all for "-" *)
Definition path_check_fx (fxs : fixes) (m : str) (stdio : bool) (f : facts) : outcome :=
  if negb (check_mode m) then ValErr
  else if stdio then Accept
  else path_check_fl_fx fxs (flags_of m) f.

Definition path_check := path_check_fx no_fixes.

(* Path.__init__ from its first statement, for a spelling `given` (a str): `self._check_mode(mode)`, then
   `if isinstance(path, str) and "\0" in path: raise PathError(...)` — before "-" is looked at and before any
   question to the file system (os.stat / os.access would raise ValueError on such a string) —, then the checks. *)
Definition has_nul (given : str) : bool := existsb (N.eqb 0) given.

Definition path_init_fx (fxs : fixes) (m given : str) (f : facts) : outcome :=
  if negb (check_mode m) then ValErr
  else if has_nul given then PathErr
  else path_check_fx fxs m (str_eqb given [45]%N) f.

(* `_check_mode` starts with `if not isinstance(mode, str): raise ValueError(...)`: a mode that is not a string
   (None, a number, a list of flags, bytes) is never looked into *)
Definition path_init_nonstr_mode : outcome := ValErr.

(* ---- absolute / relative bookkeeping (_util.py:547-573, local branch) ----------------------- *)
Definition slash : N := 47.
Definition tilde : N := 126.

Definition is_abs (p : str) : bool := match p with c :: _ => N.eqb c slash | [] => false end.

Fixpoint ends_slash (p : str) : bool :=
  match p with
  | [] => false
  | [c] => N.eqb c slash
  | _ :: p' => ends_slash p'
  end.

(* posixpath.join for two arguments *)
Definition join (a b : str) : str :=
  if is_abs b then b
  else match a with
       | [] => b
       | _ => if ends_slash a then a ++ b else a ++ slash :: b
       end.

(* str.rstrip("/") *)
Fixpoint rstrip_slash (p : str) : str :=
  match p with
  | [] => []
  | c :: p' => let r := rstrip_slash p' in
               if N.eqb c slash && match r with [] => true | _ => false end then [] else c :: r
  end.

(* posixpath.expanduser with $HOME set, for "~" and "~/..." ; "~name" is left alone (generators do
   not produce it) *)
Definition expanduser (home p : str) : str :=
  match p with
  | c :: rest =>
      if N.eqb c tilde then
        match rest with
        | [] => match rstrip_slash home with [] => [slash] | h => h end
        | c2 :: _ => if N.eqb c2 slash
                     then match rstrip_slash home ++ rest with [] => [slash] | r => r end
                     else p
        end
      else p
  | [] => p
  end.

(* (relative, absolute) as stored by Path.__init__; cwd = os.getcwd() *)
Definition path_names (home cwd given : str) : str * str :=
  let e := expanduser home given in
  (given, if is_abs e then e else join cwd e).

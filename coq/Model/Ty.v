(* Model of the type-hint machinery: adapt_typehints (deserialising and serialising branches),
   ActionTypeHint._check_type, load_value / parse_value_or_config, in the shape of the code
   (jsonargparse/_typehints.py:554-617,731-934,1477-1489; _util.py:127-152; _loaders_dumpers.py:184-205).
   Executable only. The YAML loader is a parameter (`yload`): theorems hold for ANY loader; the
   correspondence instantiates it with Model/Scalar.v for plain scalars and with observed results
   of the real loader for structured text. *)
From JV Require Import Lib.Base Model.TyVal Model.Scalar.

Inductive lit := LInt (z : Z) | LStr (s : str) | LBool (b : bool) | LNone.

Inductive ty :=
| TStr | TInt | TFloat | TBool | TNone | TAny
| TLit (ls : list lit)
| TEnum (cls : str) (members : list str)
| TUnion (ts : list ty)
| TList (t : ty)
| TDict (int_keys : bool) (t : ty)       (* Dict[str, T] / Dict[int, T] *)
| TTuple (ts : list ty)
| TTupleVar (t : ty)                     (* Tuple[T, ...] *)
| TSet (t : ty).

(* outcome of the text loader *)
Inductive lres := LVal (v : val) | LYamlErr | LValErr.

Inductive err := ErrValue | ErrType.     (* ValueError / TypeError: the control flow tells them apart *)
Inductive ares := AOk (v : val) | AErr (e : err).

Definition lit_val (l : lit) : val :=
  match l with LInt z => VInt z | LStr s => VStr s | LBool b => VBool b | LNone => VNone end.

(* Python == on the scalars that can meet in `val in subtypehints` / `val == default` *)
Definition num_of (v : val) : option fl :=
  match v with
  | VBool b => Some (FFin (if b then 1 else 0) 0)
  | VInt z => Some (float_of_int z)
  | VFloat f => Some f
  | _ => None
  end.

Definition py_eq (a b : val) : bool :=
  match num_of a, num_of b with
  | Some FNan, _ | _, Some FNan => false
  | Some x, Some y => fl_eqb x y
  | None, None => val_eqb a b
  | _, _ => false
  end.

Definition lit_mem (v : val) (ls : list lit) : bool := existsb (fun l => py_eq v (lit_val l)) ls.

Definition is_str (v : val) : bool := match v with VStr _ => true | _ => false end.
Definition is_none_ty (t : ty) : bool := match t with TNone => true | _ => false end.
Definition is_str_ty (t : ty) : bool := match t with TStr => true | _ => false end.
Definition is_seq_or_map_ty (t : ty) : bool := match t with TList _ | TDict _ _ => true | _ => false end.

(* canonical form of a set value: the harness sorts observed sets the same way (ints ascending,
   then strings by code points, then False, True, anything else after) *)
Fixpoint str_leb (a b : str) : bool :=
  match a, b with
  | [], _ => true
  | _ :: _, [] => false
  | x :: a', y :: b' => if N.ltb x y then true else if N.ltb y x then false else str_leb a' b'
  end.

Definition set_rank (v : val) : nat := match v with VInt _ => 0 | VStr _ => 1 | VBool _ => 2 | _ => 3 end.
Definition set_leb (a b : val) : bool :=
  match a, b with
  | VInt x, VInt y => Z.leb x y
  | VStr x, VStr y => str_leb x y
  | VBool x, VBool y => implb x y
  | _, _ => Nat.leb (set_rank a) (set_rank b)
  end.

Fixpoint sorted_insert (x : val) (l : list val) : list val :=
  match l with
  | [] => [x]
  | y :: l' => if set_leb x y then x :: l else y :: sorted_insert x l'
  end.
(* set.add: an element == to one already there (1 / True / 1.0) is dropped, the one there stays *)
Definition set_insert (x : val) (l : list val) : list val := if existsb (py_eq x) l then l else sorted_insert x l.

Definition hashable (v : val) : bool :=
  match v with VList _ | VDict _ | VSet _ => false | _ => true end.

Definition canon_set (l : list val) : list val := fold_left (fun acc x => set_insert x acc) l [].

(* str(k) for the keys that can occur under Dict[int, _] when serialising *)
Fixpoint digits_of (fuel : nat) (z : Z) (acc : str) : str :=
  match fuel with
  | 0 => acc
  | S f => let acc' := (Z.to_N (z mod 10) + 48)%N :: acc in
           if Z.ltb z 10 then acc' else digits_of f (z / 10) acc'
  end.
Definition str_of_Z (z : Z) : str :=
  if Z.ltb z 0 then 45%N :: digits_of 400 (- z) [] else digits_of 400 z [].
Definition str_of_key (k : val) : val := match k with VInt z => VStr (str_of_Z z) | _ => k end.

(* Repair switches. The pinned tree is `as_is` (all false): the model is then faithful to the code, defects
   included. Each switch replaces one defective step by the behaviour of the corresponding patch in /verif/fixes:
     fx_union : Union returns the last NON-exception of the trial list instead of vals[-1]   (C02-union-vals-last)
     fx_lit   : Literal membership compares type and value instead of ==                       (C02-literal-eq)
     fx_key   : Dict[str, T] rejects keys that are not str                                     (C02-dict-key-unchecked)
     fx_valerr: a ValueError raised by a YAML scalar constructor counts as "not loadable"      (C02-any-str-valueerror) *)
Record fixes := { fx_union : bool; fx_lit : bool; fx_key : bool; fx_valerr : bool }.
Definition as_is : fixes := {| fx_union := false; fx_lit := false; fx_key := false; fx_valerr := false |}.
Definition all_fixed : fixes := {| fx_union := true; fx_lit := true; fx_key := true; fx_valerr := true |}.

(* type(v) is type(l) and v == l *)
Definition lit_mem_strict (v : val) (ls : list lit) : bool := existsb (fun l => val_eqb v (lit_val l)) ls.

(* the exception instance that `vals[-1]` can hand out as if it were a value *)
Definition exc_val : val := VOpaque [101;120;99]%N [].

Section Adapt.
Variable fx : fixes.
Variable yload0 : str -> lres.           (* yaml_load *)
Definition yload (s : str) : lres :=
  match yload0 s with
  | LValErr => if fx_valerr fx then LYamlErr else LValErr
  | r => r
  end.
Definition lmem (v : val) (ls : list lit) : bool := if fx_lit fx then lit_mem_strict v ls else lit_mem v ls.

(* json_or_yaml_load *)
Definition json_or_yaml_load (s : str) : lres :=
  match strip s with [] => LVal (VStr s) | _ => yload s end.

(* load_value (mode yaml: a JSON superset, so load_list_or_dict is skipped) *)
Definition is_simple_scalar (v : val) : bool :=
  match v with VInt _ | VFloat _ | VBool _ | VStr _ => true | _ => false end.

Definition load_value (simple_types : bool) (s : str) : lres :=
  if str_eqb (strip s) [45%N] then LVal (VStr s)
  else
    let loaded := match load_basic s with Some v => LVal v | None => yload s end in
    match loaded with
    | LVal v => if negb simple_types && is_simple_scalar v then LVal (VStr s) else LVal v
    | e => e
    end.

(* parse_value_or_config with enable_path = False *)
Definition parse_value (simple_types : bool) (v : val) : lres :=
  match v with
  | VStr s =>
      match strip s with
      | [] => LVal v
      | _ => match load_value simple_types s with
             | LVal (VStr _) => LVal v         (* `if type(parsed_val) is not str` *)
             | r => r
             end
      end
  | _ => LVal v
  end.

(* ---- leaf types --------------------------------------------------------------------------- *)
Inductive leaf := LfStr | LfInt | LfFloat | LfBool | LfNone.

Definition isinstance_leaf (k : leaf) (v : val) : bool :=
  match k, v with
  | LfStr, VStr _ => true
  | LfInt, VInt _ => true
  | LfFloat, VFloat _ => true
  | LfBool, VBool _ => true
  | LfNone, VNone => true
  | _, _ => false          (* bool for int/float is excluded explicitly by the code; same effect *)
  end.

Definition adapt_leaf (k : leaf) (v : val) : ares :=
  let loaded :=
    match v, k with
    | VStr _, LfStr => AOk v
    | VStr s, _ => match json_or_yaml_load s with
                   | LVal x => AOk x
                   | LYamlErr => AOk v            (* suppress(loader exceptions) *)
                   | LValErr => AErr ErrValue     (* constructor ValueError is not suppressed *)
                   end
    | _, _ => AOk v
    end in
  match loaded with
  | AErr e => AErr e
  | AOk v1 =>
      let v2 := match k, v1 with LfFloat, VInt z => VFloat (float_of_int z) | _, _ => v1 end in
      if isinstance_leaf k v2 then AOk v2 else AErr ErrValue
  end.

(* ---- Union machinery ------------------------------------------------------------------------ *)
(* sort_subtypes_for_union (append = False): a stable sort by the key
   (x != NoneType, origin not in sequence_or_mapping) for str values, (x != NoneType) otherwise *)
Definition union_key (val_is_str : bool) (t : ty) : nat :=
  (if is_none_ty t then 0 else 2) + (if val_is_str && negb (is_seq_or_map_ty t) then 1 else 0).

Fixpoint insert_by {A} (key : A -> nat) (x : A) (l : list A) : list A :=
  match l with
  | [] => [x]
  | y :: l' => if Nat.leb (key x) (key y) then x :: l else y :: insert_by key x l'   (* leb: stable (x comes from the left) *)
  end.
Definition stable_sort {A} (key : A -> nat) (l : list A) : list A :=
  fold_right (insert_by key) [] l.

(* the trial loop over the (already sorted) members, each paired with its adapt result:
   vals = results so far; stop at the first success; a failing `str` member contributes orig_val
   when val is not a str and orig_val is *)
Inductive uval := UOk (v : val) | UExc.

Fixpoint union_loop (orig : option str) (v : val) (rs : list (ty * ares)) (vals : list uval) : list uval :=
  match rs with
  | [] => vals
  | (t, AOk w) :: _ => vals ++ [UOk w]
  | (t, AErr _) :: rs' =>
      match orig with
      | Some o => if is_str_ty t && negb (is_str v)
                  then union_loop orig v rs' (vals ++ [UOk (VStr o)])
                  else union_loop orig v rs' (vals ++ [UExc])
      | None => union_loop orig v rs' (vals ++ [UExc])
      end
  end.

(* `if all(isinstance(v, Exception) for v in vals): raise ...; val = vals[-1]` — on the pinned tree the last entry
   can be an exception instance (a failing `str` member contributed orig_val, a later member failed): it is then
   returned as the value. With fx_union: the last entry that is not an exception. *)
Definition union_result (vals : list uval) : ares :=
  match filter (fun u => match u with UOk _ => true | UExc => false end) vals with
  | [] => AErr ErrValue
  | oks => if fx_union fx
           then match last oks UExc with UOk w => AOk w | UExc => AErr ErrValue end
           else match last vals UExc with UOk w => AOk w | UExc => AOk exc_val end
  end.

Definition adapt_union (orig : option str) (v : val) (rs : list (ty * ares)) : ares :=
  union_result (union_loop orig v (stable_sort (fun r => union_key (is_str v) (fst r)) rs) []).

(* ---- containers ------------------------------------------------------------------------------ *)
Definition seq_items (v : val) : option (list val) :=
  match v with VList l | VTuple l | VSet l => Some l | _ => None end.

Fixpoint map_ares (f : val -> ares) (l : list val) : option (list val) + err :=
  match l with
  | [] => inl (Some [])
  | x :: l' => match f x with
               | AErr e => inr e
               | AOk w => match map_ares f l' with
                          | inl (Some r) => inl (Some (w :: r))
                          | r => r
                          end
               end
  end.

(* int(k) for Dict[int, _] keys *)
Definition int_of_key (k : val) : option Z + err :=
  match k with
  | VInt z => inl (Some z)
  | VBool b => inl (Some (if b then 1 else 0)%Z)
  | VStr s => match signed_int (strip s) with Some z => inl (Some z) | None => inr ErrValue end
  | VFloat (FFin m e) => if Z.leb 0 e then inl (Some (m * 10 ^ e)%Z) else inl (Some (Z.quot m (10 ^ (- e))))
  | VFloat _ => inr ErrValue
  | _ => inr ErrType
  end.

Fixpoint dict_set (k v : val) (d : list (val * val)) : list (val * val) :=
  match d with
  | [] => [(k, v)]
  | (k', v') :: d' => if py_eq k k' && Bool.eqb (hashable k) true then (k', v) :: d' else (k', v') :: dict_set k v d'
  end.

(* ---- adapt_typehints (prev_val = None, append = False, default not passed);
   ser = the serialize flag: the same branches run, with the differences marked below ---- *)
Fixpoint adapt_g (ser : bool) (orig : option str) (t : ty) (v : val) {struct t} : ares :=
  match t with
  | TStr => adapt_leaf LfStr v
  | TInt => adapt_leaf LfInt v
  | TFloat => adapt_leaf LfFloat v
  | TBool => adapt_leaf LfBool v
  | TNone => adapt_leaf LfNone v
  | TAny =>
      match v with
      | VStr s => match parse_value true v with
                  | LVal x => AOk x
                  | LYamlErr => AOk v        (* suppress(loader exceptions) *)
                  | LValErr => AErr ErrValue
                  end
      | _ => AOk v
      end
  | TLit ls =>
      let step1 :=
        if negb (lmem v ls) && is_str v then
          (* adapt(val, Union[{type(l) for l in ls if type(l) is not str}]) *)
          let kinds := (if existsb (fun l => match l with LInt _ => true | _ => false end) ls then [(TInt, adapt_leaf LfInt v)] else [])
                    ++ (if existsb (fun l => match l with LBool _ => true | _ => false end) ls then [(TBool, adapt_leaf LfBool v)] else [])
                    ++ (if existsb (fun l => match l with LNone => true | _ => false end) ls then [(TNone, adapt_leaf LfNone v)] else []) in
          match kinds with
          | [] => AErr ErrType                      (* Union[()] raises TypeError *)
          | [(_, r)] => r                           (* Union[X] is X *)
          | _ => adapt_union orig v kinds
          end
        else AOk v in
      match step1 with
      | AErr e => AErr e
      | AOk v1 => if lmem v1 ls then AOk v1 else AErr ErrValue
      end
  | TEnum cls members =>
      match v with
      | VEnum c m => if str_eqb c cls && mem_str m members     (* isinstance(val, typehint): an instance IS a member *)
                     then AOk (if ser then VStr m else v)
                     else if ser then AOk v else AErr ErrValue
      | VStr s => if ser then AOk v else if mem_str s members then AOk (VEnum cls s) else AErr ErrValue
      | VList _ | VDict _ | VSet _ => if ser then AOk v else AErr ErrType    (* unhashable key in typehint[val] *)
      | _ => if ser then AOk v else AErr ErrValue
      end
  | TUnion ts =>
      adapt_union orig v
        ((fix go (ts : list ty) : list (ty * ares) :=
            match ts with [] => [] | t1 :: ts' => (t1, adapt_g ser orig t1 v) :: go ts' end) ts)
  | TTuple ts =>
      match seq_items v with
      | None => AErr ErrValue
      | Some l =>
          if negb (Nat.eqb (length l) (length ts)) then AErr ErrValue
          else
            (fix go (ts : list ty) (l : list val) (acc : list val) : ares :=
               match ts, l with
               | t1 :: ts', x :: l' => match adapt_g ser orig t1 x with
                                       | AOk w => go ts' l' (acc ++ [w])
                                       | AErr e => AErr e
                                       end
               | _, _ => AOk (if ser then VList acc else VTuple acc)
               end) ts l []
      end
  | TTupleVar t1 =>
      match seq_items v with
      | None => AErr ErrValue
      | Some l => match map_ares (adapt_g ser orig t1) l with
                  | inl (Some r) => AOk (if ser then VList r else VTuple r)
                  | inl None => AErr ErrValue
                  | inr e => AErr e
                  end
      end
  | TSet t1 =>
      match seq_items v with
      | None => AErr ErrValue
      | Some l => match map_ares (adapt_g ser orig t1) l with
                  | inl (Some r) => if ser then AOk (VList r)
                                    else if forallb hashable r then AOk (VSet (canon_set r)) else AErr ErrType
                  | inl None => AErr ErrValue
                  | inr e => AErr e
                  end
      end
  | TList t1 =>
      match v with
      | VList l | VTuple l | VSet l =>
          match map_ares (adapt_g ser orig t1) l with
          | inl (Some r) => AOk (VList r)
          | inl None => AErr ErrValue
          | inr e => AErr e
          end
      | _ => AErr ErrValue
      end
  | TDict int_keys t1 =>
      match v with
      | VDict d =>
          let casted :=
            if int_keys && ser then inl (map (fun kv => (str_of_key (fst kv), snd kv)) d)   (* cast = str *)
            else if int_keys then
              fold_left (fun acc kv => match acc with
                                       | inr e => inr e
                                       | inl d' => match int_of_key (fst kv) with
                                                   | inl (Some z) => inl (dict_set (VInt z) (snd kv) d')
                                                   | inl None => inr ErrValue
                                                   | inr e => inr e
                                                   end
                                       end) d (inl [])
            else if fx_key fx && negb ser && negb (forallb (fun kv => is_str (fst kv)) d) then inr ErrValue
            else inl d in
          match casted with
          | inr e => AErr e
          | inl d' =>
              (fix go (d : list (val * val)) (acc : list (val * val)) : ares :=
                 match d with
                 | [] => AOk (VDict acc)
                 | (k, x) :: d'' => match adapt_g ser orig t1 x with
                                    | AOk w => go d'' (acc ++ [(k, w)])
                                    | AErr e => AErr e
                                    end
                 end) d' []
          end
      | _ => AErr ErrValue
      end
  end.

(* ---- ActionTypeHint._check_type for a single (non-nargs) value ------------------------------- *)
Definition is_valid_string (t : ty) (v : val) : bool :=
  is_str v && match t with TStr => true | TUnion ts => existsb is_str_ty ts | _ => false end.

Definition check_type_g (t : ty) (v0 : val) : ares :=
  let orig := match v0 with VStr s => Some s | _ => None end in
  (* parse_value_or_config inside `try ... except loader exceptions` *)
  match parse_value false v0 with
  | LValErr => if is_valid_string t v0 then AOk v0 else AErr ErrType
  | pv =>
      let v := match pv with LVal x => x | _ => v0 end in
      let first := adapt_g false orig t v in
      let outcome :=
        match first with
        | AErr ErrValue =>
            (* retry with the original string *)
            match orig with
            | Some o => match adapt_g false orig t (VStr o) with
                        | AOk w => AOk w
                        | AErr ErrValue => AErr ErrValue
                        | AErr ErrType => AErr ErrType
                        end
            | None => AErr ErrValue
            end
        | r => r
        end in
      match outcome with
      | AOk w => AOk w
      | AErr _ => if is_valid_string t v then AOk v else AErr ErrType
      end
  end.

(* one key through a parse method: the action adapts the value, and validation re-checks the
   result (its outcome is discarded, only success matters; None is skipped) *)
Definition parse_key_g (t : ty) (v0 : val) : ares :=
  match v0 with
  | VNone => AOk VNone       (* a Python None given for a key means "unset": _check_value_key returns it (lenient_check) *)
  | _ =>
    match check_type_g t v0 with
    | AOk VNone => AOk VNone
    | AOk w => match check_type_g t w with AOk _ => AOk w | AErr e => AErr e end
    | r => r
    end
  end.

(* ---- serialisation: ActionTypeHint.serialize = adapt_typehints(value, serialize=True) ------------ *)
Definition serialize_g (t : ty) (v : val) : ares := adapt_g true None t v.

End Adapt.

(* the pinned tree *)
Definition adapt (yl : str -> lres) := adapt_g as_is yl.
Definition check_type (yl : str -> lres) := check_type_g as_is yl.
Definition parse_key (yl : str -> lres) := parse_key_g as_is yl.
Definition serialize (yl : str -> lres) := serialize_g as_is yl.


(* C10 — list-valued options (nargs '+', '*', N): ActionTypeHint._check_type with islist = True, in the shape of
   _typehints.py:559-618:

     islist = _is_action_value_list(self)
     if not islist: value = [value]
     elif isinstance(value, (dict, Namespace)): raise TypeError        (* a mapping is refused *)
     for num, val in enumerate(value):                                 (* anything else is iterated ... *)
         ... the scalar path (Model/C10Adapt.v, check_type) ...
         value[num] = val                                              (* ... and must support item assignment *)
     return value if islist else value[0]

   So a list has every item passed through the scalar path and is returned as a list; a str / tuple / set
   with at least one item fails at `value[num] = val` (TypeError, also from inside the except handler); an
   EMPTY str / tuple / set is never iterated and is returned as it is; a scalar that cannot be iterated raises
   TypeError at the for statement.  The whole configuration key is then validated by the same function. *)
From JV Require Import Lib.Base Model.C10Adapt.

Section Nargs.
Variable jload : str -> lres.
Variable pval : bool -> str -> lres.
Variable ikey : str -> option Z.

Fixpoint check_items (dflt : val) (t : ty) (l : list val) : option (list val) :=
  match l with
  | [] => Some []
  | x :: l' =>
      match check_type jload pval ikey dflt t x with
      | AOk w => match check_items dflt t l' with Some ws => Some (w :: ws) | None => None end
      | AErr _ => None
      end
  end.

Definition is_empty_seq (v : val) : bool :=
  match v with
  | VStr [] | VTuple [] | VSet [] => true
  | _ => false
  end.

Definition check_type_list (dflt : val) (t : ty) (v0 : val) : ares :=
  match v0 with
  | VList l => match check_items dflt t l with Some ws => AOk (VList ws) | None => AErr ErrType end
  | _ => if is_empty_seq v0 then AOk v0 else AErr ErrType
  end.

(* one list-valued key through a parse method: the action, then validation of the result (None is skipped) *)
Definition parse_list_key (dflt : val) (t : ty) (v0 : val) : ares :=
  match check_type_list dflt t v0 with
  | AOk VNone => AOk VNone
  | AOk w => match check_type_list dflt t w with AOk _ => AOk w | AErr e => AErr e end
  | r => r
  end.

Definition validate_list_key (dflt : val) (t : ty) (w : val) : bool :=
  match w with VNone => true | _ => is_ok (check_type_list dflt t w) end.

(* the guard: every item is inside the key-level guard (no Union re-selects a member on the adapted item) *)
Definition list_guard (dflt : val) (t : ty) (v0 : val) : bool :=
  match v0 with
  | VList l => forallb (key_guard jload pval ikey dflt t) l
  | _ => true
  end.

End Nargs.

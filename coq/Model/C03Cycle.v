(* C03 — model of `_loaders_dumpers._has_reference_cycle`, the check `yaml_load` runs on every loaded value so that a
   self-referential YAML alias is refused as a YAMLError (the channel) instead of sending the recursive walks of the parse
   path (recreate_branches, adapt_typehints, holds_subclass_spec, the dumper) into RecursionError.

       def _has_reference_cycle(value, parents=()) -> bool:
           if not isinstance(value, (dict, list)):            # <- which containers are descended: read from the source
               return False
           if any(value is p for p in parents):               # identity, not equality
               return True
           items = value.values() if isinstance(value, dict) else value
           return any(_has_reference_cycle(v, parents + (value,)) for v in items)

   A loaded value is a HEAP: node id = position in the list (object identity), every node has a kind and the ids of its
   items (for a mapping: its values).  `tuples` says whether tuples are descended (the regenerated flag Gen.C03Cycle.
   cyc_tuples: false on a tree whose isinstance test names dict and list only).  `any` stops at the first True: items
   after it are not visited (any_m).  Fuel: one unit per nesting level; None = out of fuel (the judge refuses it, the
   theorems exclude it). *)
From JV Require Import Lib.Base.
Require Import List Arith Bool.
Import ListNotations.

Inductive kind := KDict | KList | KTuple | KScalar.
Definition heap := list (kind * list nat).

Definition node (h : heap) (v : nat) : kind * list nat := nth v h (KScalar, []).

Definition descends (tuples : bool) (k : kind) : bool :=
  match k with KDict | KList => true | KTuple => tuples | KScalar => false end.

Fixpoint any_m (g : nat -> option bool) (items : list nat) : option bool :=
  match items with
  | [] => Some false
  | c :: r => match g c with
              | None => None
              | Some true => Some true
              | Some false => any_m g r
              end
  end.

Fixpoint has_cycle (tuples : bool) (fuel : nat) (h : heap) (parents : list nat) (v : nat) : option bool :=
  match fuel with
  | 0 => None
  | S f =>
      let (k, items) := node h v in
      if negb (descends tuples k) then Some false
      else if existsb (Nat.eqb v) parents then Some true
      else any_m (has_cycle tuples f h (v :: parents)) items
  end.

(* no tuple node anywhere in the heap *)
Definition tuple_free (h : heap) : bool :=
  forallb (fun nd => match fst nd with KTuple => false | _ => true end) h.

(* C20 — model of the built-in registered types of jsonargparse/typing.py whose conversion is
   jsonargparse's own code: the registry lookup, range (range_serializer / range_deserializer),
   datetime.timedelta (str(timedelta) / timedelta_deserializer), SecretStr, decimal.Decimal (both the
   registration of the tree — serialised with float — and the repaired one of
   fixes/C20-decimal-via-float.patch). The regular expressions of the source are transcribed as the
   deterministic scanners they denote; Gen/C20Regexes.v carries the translated patterns and
   Proofs/C20RangeRegexProofs.v / C20TdRegexProofs.v prove that patterns and scanners accept the same
   texts (the judge cross-checks it per case as well). \d is ASCII here (domain: no non-ASCII decimal
   digits in inputs). *)
From JV Require Import Lib.Base Lib.C20Text Model.C20Base.
Local Open Scope Z_scope.

Definition s_range_open : str := [114; 97; 110; 103; 101; 40]%N.  (* "range(" *)
Definition s_close : str := [41]%N.                               (* ")" *)
Definition s_comma_sp : str := [44; 32]%N.                        (* ", " *)
Definition s_day : str := [100; 97; 121]%N.                       (* "day" *)
Definition s_sp_day : str := [32; 100; 97; 121]%N.                (* " day" *)
Definition s_stars : str := [42; 42; 42; 42; 42; 42; 42; 42; 42; 42]%N.  (* "**********" *)

(* ------------------------------------------------------------------------------ range *)
Record prange := { rg_start : Z; rg_stop : Z; rg_step : Z }.

Definition range_serializer (r : prange) : str :=
  if rg_step r =? 1 then
    if rg_start r =? 0 then s_range_open ++ print_Z (rg_stop r) ++ s_close
    else s_range_open ++ print_Z (rg_start r) ++ s_comma_sp ++ print_Z (rg_stop r) ++ s_close
  else s_range_open ++ print_Z (rg_start r) ++ s_comma_sp ++ print_Z (rg_stop r) ++ s_comma_sp
       ++ print_Z (rg_step r) ++ s_close.

(* `$` without re.MULTILINE: end of string, or just before a final newline *)
Definition chop_nl (s : str) : str := if ends_with [10%N] s then removelast s else s.

(* -?\d+ *)
Definition int_tok (s : str) : bool :=
  let s' := match s with c :: r => if N.eqb c 45 then r else s | [] => [] end in
  negb (is_nil s') && forallb is_digit s'.

(* ^(-?\d+)(,(-?\d+)){n-1}$ : the groups *)
Definition match_ints (n : nat) (v : str) : option (list str) :=
  let parts := split_on 44 (chop_nl v) in
  if Nat.eqb (length parts) n && forallb int_tok parts then Some parts else None.

Definition is_some {A} (o : option A) : bool := match o with Some _ => true | None => false end.

(* range(a, b, c): ValueError when c = 0 *)
Definition make_range (a b c : Z) : option prange :=
  if c =? 0 then None else Some {| rg_start := a; rg_stop := b; rg_step := c |}.

Definition not_space32 (c : N) : bool := negb (N.eqb c 32).

(* None = raises (ValueError, or AttributeError for a non-str; both are "not of type range") *)
Definition range_deserializer (v : pyval) : option prange :=
  match v with
  | PStr s0 =>
      let s := strip s0 in
      if starts_with s_range_open s && ends_with s_close s then
        let w := filter not_space32 (removelast (skipn 6 s)) in
        match match_ints 1 w with
        | Some [a] => match parse_int_str a with Some x => make_range 0 x 1 | None => None end
        | _ =>
        match match_ints 2 w with
        | Some [a; b] =>
            match parse_int_str a, parse_int_str b with
            | Some x, Some y => make_range x y 1 | _, _ => None end
        | _ =>
        match match_ints 3 w with
        | Some [a; b; c] =>
            match parse_int_str a, parse_int_str b, parse_int_str c with
            | Some x, Some y, Some z => make_range x y z | _, _, _ => None end
        | _ => None
        end end end
      else None
  | _ => None
  end.

(* Python's range.__eq__: equal as sequences *)
Definition range_len (r : prange) : Z :=
  if 0 <? rg_step r then (if rg_start r <? rg_stop r then (rg_stop r - rg_start r - 1) / rg_step r + 1 else 0)
  else (if rg_stop r <? rg_start r then (rg_start r - rg_stop r - 1) / (- rg_step r) + 1 else 0).

Definition range_eqb (a b : prange) : bool :=
  (range_len a =? range_len b) &&
  ((range_len a =? 0) || ((rg_start a =? rg_start b) && ((range_len a =? 1) || (rg_step a =? rg_step b)))).

(* ------------------------------------------------------------------------------ timedelta *)
(* a timedelta is its total number of microseconds; Python keeps it normalised as
   (days, 0 <= seconds < 86400, 0 <= microseconds < 10^6) with |days| <= 999999999 *)
Definition us_per_day : Z := 86400000000.
Definition max_days : Z := 999999999.
Definition td_valid (total : Z) : bool :=
  (- max_days <=? total / us_per_day) && (total / us_per_day <=? max_days).

(* str(timedelta) *)
Definition td_str (total : Z) : str :=
  let days := total / us_per_day in
  let rem := total mod us_per_day in
  let secs := rem / 1000000 in
  let us := rem mod 1000000 in
  let h := secs / 3600 in
  let m := secs mod 3600 / 60 in
  let s := secs mod 60 in
  (if days =? 0 then []
   else print_Z days ++ s_sp_day ++ (if (days =? 1) || (days =? -1) then [] else [115%N]) ++ s_comma_sp)
  ++ print_Z h ++ 58%N :: pad2 m ++ 58%N :: pad2 s
  ++ (if us =? 0 then [] else 46%N :: pad6 us).

Definition daych (c : N) : bool := is_digit c || N.eqb c 45.                  (* [-\d] *)
Definition secch (c : N) : bool := is_digit c || N.eqb c 46 || N.eqb c 43.    (* [\.\d+] *)
Definition is_s (c : N) : bool := N.eqb c 115.

(* hours \d+ ":" minutes \d+ ":" seconds \d[\.\d+]* , with re.match: a prefix match *)
Definition match_hms (s : str) : option (str * str * str) :=
  let '(h, r1) := span is_digit s in
  if is_nil h then None else
  match r1 with
  | c1 :: r2 =>
      if negb (N.eqb c1 58) then None else
      let '(m, r3) := span is_digit r2 in
      if is_nil m then None else
      match r3 with
      | c2 :: r4 =>
          if negb (N.eqb c2 58) then None else
          match r4 with
          | d :: r5 => if is_digit d then Some (h, m, d :: fst (span secch r5)) else None
          | [] => None
          end
      | [] => None
      end
  | [] => None
  end.

(* days [-\d]+ then " day", "s" repeated, ", " and the rest *)
Definition match_days (s : str) : option (str * str) :=
  let '(d, r1) := span daych s in
  if is_nil d then None else
  if starts_with s_sp_day r1 then
    let r3 := snd (span is_s (skipn 4 r1)) in
    if starts_with s_comma_sp r3 then Some (d, skipn 2 r3) else None
  else None.

(* re.match of the days pattern succeeds: the days part, then h:m:s at once *)
Definition days_scan (s : str) : bool :=
  match match_days s with Some (_, rest) => is_some (match_hms rest) | None => false end.

Inductive td_res := TdOk (total : Z) | TdRej | TdOverflow.

Definition fin_of (f : option fl) : option Z := match f with Some (FFin m) => Some m | _ => None end.

(* timedelta(days=, hours=, minutes=, seconds=) from float(group) values *)
Definition td_build (d h m s : option Z) : td_res :=
  match d, h, m, s with
  | Some d', Some h', Some m', Some s' =>
      let total := d' * 86400 + h' * 3600 + m' * 60 + s' in
      if td_valid total then TdOk total else TdOverflow
  | _, _, _, _ => TdRej
  end.

Definition timedelta_deserializer (v : pyval) : td_res :=
  match v with
  | PStr s =>
      if contains s_day s then
        match match_days s with
        | Some (d, rest) =>
            match match_hms rest with
            | Some (h, m, sec) =>
                td_build (fin_of (parse_float_str d)) (fin_of (parse_float_str h))
                         (fin_of (parse_float_str m)) (fin_of (parse_float_str sec))
            | None => TdRej
            end
        | None => TdRej
        end
      else
        match match_hms s with
        | Some (h, m, sec) =>
            td_build (Some 0) (fin_of (parse_float_str h))
                     (fin_of (parse_float_str m)) (fin_of (parse_float_str sec))
        | None => TdRej
        end
  | _ => TdRej
  end.

(* RegisteredType.deserializer (what the registered-type branch of adapt_typehints and the handler call):
   the exceptions listed in deserializer_exceptions — register_type's default, read from the source into
   Gen/C20Registry.deserializer_catches_overflow — are turned into ValueError "Not of type ...". The
   OverflowError of the timedelta constructor is an ArithmeticError: a clean rejection when that is listed,
   an escaping exception otherwise. *)
Definition td_registered (catches_overflow : bool) (v : pyval) : td_res :=
  match timedelta_deserializer v with
  | TdOverflow => if catches_overflow then TdRej else TdOverflow
  | r => r
  end.

(* ------------------------------------------------------------------------------ SecretStr *)
(* register_type(SecretStr): serializer = str, and SecretStr.__str__ returns the mask *)
Definition secret_serializer (secret : str) : str := s_stars.

(* ------------------------------------------------------------------------------ registry *)
(* registered_type_handlers after import: the table of Gen/C20Registry.v, later entries win *)
Definition reg_lookup (tbl : list (str * (serfn * desfn))) (ty : str) : option (serfn * desfn) :=
  fold_left (fun acc e => if str_eqb (fst e) ty then Some (snd e) else acc) tbl None.

Definition ty_Decimal : str := [100;101;99;105;109;97;108;46;68;101;99;105;109;97;108]%N.  (* decimal.Decimal *)
Definition ty_timedelta : str := [100;97;116;101;116;105;109;101;46;116;105;109;101;100;101;108;116;97]%N.  (* datetime.timedelta *)
Definition ty_range : str := [114;97;110;103;101]%N.  (* range *)
Definition ty_SecretStr : str := [83;101;99;114;101;116;83;116;114]%N.  (* SecretStr *)
Definition ty_bytes : str := [98;117;105;108;116;105;110;115;46;98;121;116;101;115]%N.  (* builtins.bytes *)
Definition ty_bytearray : str := [98;117;105;108;116;105;110;115;46;98;121;116;101;97;114;114;97;121]%N.  (* builtins.bytearray *)
Definition ty_complex : str := [99;111;109;112;108;101;120]%N.  (* complex *)
Definition ty_UUID : str := [117;117;105;100;46;85;85;73;68]%N.  (* uuid.UUID *)
Definition ty_Path : str := [112;97;116;104;108;105;98;46;80;97;116;104]%N.  (* pathlib.Path *)
Definition ty_PosixPath : str := [112;97;116;104;108;105;98;46;80;111;115;105;120;80;97;116;104]%N.  (* pathlib.PosixPath *)

(* the registrations the models of this file stand for; the Decimal one is left out: it has two
   modelled variants (below) *)
Definition registry_expected : list (str * (serfn * desfn)) :=
  [(ty_range, (SerRange, DesRange)); (ty_timedelta, (SerStr, DesTimedelta)); (ty_SecretStr, (SerStr, DesClass));
   (ty_bytes, (SerBytes, DesBytes)); (ty_bytearray, (SerBytes, DesBytearray)); (ty_complex, (SerStr, DesClass));
   (ty_UUID, (SerStr, DesClass)); (ty_Path, (SerStr, DesClass)); (ty_PosixPath, (SerStr, DesClass))].

Definition serfn_eqb (a b : serfn) : bool :=
  match a, b with
  | SerStr, SerStr | SerFloat, SerFloat | SerDecimal, SerDecimal | SerBytes, SerBytes | SerRange, SerRange => true
  | SerOther x, SerOther y => str_eqb x y
  | _, _ => false
  end.
Definition desfn_eqb (a b : desfn) : bool :=
  match a, b with
  | DesClass, DesClass | DesStr, DesStr | DesDecimal, DesDecimal | DesTimedelta, DesTimedelta | DesBytes, DesBytes
  | DesBytearray, DesBytearray | DesRange, DesRange => true
  | DesOther x, DesOther y => str_eqb x y
  | _, _ => false
  end.

Definition registry_ok (tbl : list (str * (serfn * desfn))) : bool :=
  forallb (fun e => match reg_lookup tbl (fst e) with
                    | Some (s, d) => serfn_eqb s (fst (snd e)) && desfn_eqb d (snd (snd e))
                    | None => false end) registry_expected.

(* ------------------------------------------------------------------------------ Decimal *)
(* A finite Decimal is mant * 10^exp. Two registrations are modelled:
   RegFloat  — register_type_on_first_use("decimal.Decimal", float): serialised with float(), read
               back with Decimal(value) (exact for a float: the binary expansion of the double);
   RegHybrid — fixes/C20-decimal-via-float.patch: decimal_serializer gives float(d) when
               Decimal(repr(float(d))) == d and str(d) otherwise; decimal_deserializer reads a float
               through its repr and anything else with Decimal(value).
   float() and repr() are external: `to_double d` is float(d) exactly (num * 2^ex) and `to_text d` is
   Decimal(repr(float(d))); None = the float is infinite. *)
Record decimal := { d_mant : Z; d_exp : Z }.
Record dyadic := { y_num : Z; y_exp : Z }.
Inductive dec_reg := RegFloat | RegHybrid.

Definition decimal_registration (tbl : list (str * (serfn * desfn))) : option dec_reg :=
  match reg_lookup tbl ty_Decimal with
  | Some (SerFloat, DesClass) => Some RegFloat
  | Some (SerDecimal, DesDecimal) => Some RegHybrid
  | _ => None
  end.

(* d = y as rationals, by cross-multiplication with non-negative powers only *)
Definition pos_part (z : Z) : Z := Z.max z 0.
Definition dec_dy_eqb (d : decimal) (y : dyadic) : bool :=
  d_mant d * 10 ^ pos_part (d_exp d) * 2 ^ pos_part (- y_exp y)
  =? y_num y * 2 ^ pos_part (y_exp y) * 10 ^ pos_part (- d_exp d).

Definition dec_eqb (a b : decimal) : bool :=
  d_mant a * 10 ^ pos_part (d_exp a) * 10 ^ pos_part (- d_exp b)
  =? d_mant b * 10 ^ pos_part (d_exp b) * 10 ^ pos_part (- d_exp a).

(* the config representation: a float (its exact value and what its repr denotes) or a str *)
Inductive dec_cfg := CfgFloat (y : option dyadic) (t : option decimal) | CfgStr (d : decimal).

Section Decimal.
  Variable to_double : decimal -> option dyadic.
  Variable to_text : decimal -> option decimal.

  Definition text_denotes (d : decimal) : bool :=
    match to_text d with Some t => dec_eqb d t | None => false end.

  Definition decimal_serialize (reg : dec_reg) (d : decimal) : dec_cfg :=
    match reg with
    | RegFloat => CfgFloat (to_double d) (to_text d)
    | RegHybrid => if text_denotes d then CfgFloat (to_double d) (to_text d) else CfgStr d
    end.

  (* config-file / parse_string / json channel: the loader hands the deserializer the float (the very
     double that was dumped) or the str. Is what comes back equal to d? *)
  Definition decimal_file_equal (reg : dec_reg) (d : decimal) : bool :=
    match decimal_serialize reg d with
    | CfgFloat y t =>
        match reg with
        | RegFloat => match y with Some y' => dec_dy_eqb d y' | None => false end    (* Decimal(float): exact *)
        | RegHybrid => match t with Some t' => dec_eqb d t' | None => false end      (* Decimal(repr(float)) *)
        end
    | CfgStr d' => dec_eqb d d'                                                      (* Decimal(str(d)) *)
    end.

  (* command line: the text of the representation reaches the deserializer as a str *)
  Definition decimal_argv_equal (reg : dec_reg) (d : decimal) : bool :=
    match decimal_serialize reg d with
    | CfgFloat _ t => match t with Some t' => dec_eqb d t' | None => false end       (* Decimal(repr(float)) *)
    | CfgStr d' => dec_eqb d d'
    end.
End Decimal.

(* The pre-fix guard: d is exactly a binary double with a 53-bit significand and has at most 15
   significant digits (then repr(float(d)) denotes d as well). Outside: finding class 1 (only under
   RegFloat; under RegHybrid every finite decimal is inside the guard). *)
Fixpoint tz_pos (p : positive) : Z := match p with xO p' => 1 + tz_pos p' | _ => 0 end.
Definition odd_part (n : Z) : Z := match n with Zpos p | Zneg p => Zpos p / 2 ^ tz_pos p | Z0 => 0 end.
Definition is53 (n : Z) : bool := odd_part n <? 2 ^ 53.
Definition dec_guard (d : decimal) : bool :=
  (Z.abs (d_mant d) <? 10 ^ 15) && (Z.abs (d_exp d) <? 300) &&
  if 0 <=? d_exp d then is53 (d_mant d * 10 ^ d_exp d)
  else (d_mant d mod 5 ^ (- d_exp d) =? 0) && is53 (d_mant d / 5 ^ (- d_exp d)).

Definition dec_class (reg : option dec_reg) (d : decimal) : N :=
  match reg with
  | Some RegHybrid => 0
  | Some RegFloat => if dec_guard d then 0 else 1
  | None => 0            (* unknown registration: nothing is excused *)
  end.

(* what the theorem about RegFloat assumes of the external float()/repr(): on the guard they are exact *)
Definition float_faithful (to_double : decimal -> option dyadic) (to_text : decimal -> option decimal) : Prop :=
  forall d, dec_guard d = true ->
    (exists y, to_double d = Some y /\ dec_dy_eqb d y = true) /\ (exists t, to_text d = Some t /\ dec_eqb d t = true).

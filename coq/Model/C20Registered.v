(* C20 — model of the built-in registered types of jsonargparse/typing.py whose conversion is
   jsonargparse's own code: range (range_serializer / range_deserializer), datetime.timedelta
   (str(timedelta) / timedelta_deserializer), SecretStr, decimal.Decimal (serialised with float).
   The regular expressions of the source are transcribed as the deterministic scanners they
   denote (every repetition is followed by a character outside its class, so greedy matching never
   backtracks); Gen/C20Regexes.v carries the translated patterns and the judge cross-checks
   acceptance per case. \d is ASCII here (domain: no non-ASCII decimal digits in inputs). *)
From JV Require Import Lib.Base Lib.C20Text Model.C20Base.
Local Open Scope Z_scope.

Definition s_range_open : str := [114; 97; 110; 103; 101; 40]%N.  (* "range(" *)
Definition s_close : str := [41]%N.                               (* ")" *)
Definition s_comma_sp : str := [44; 32]%N.                        (* ", " *)
Definition s_day : str := [100; 97; 121]%N.                       (* "day" *)
Definition s_sp_day : str := [32; 100; 97; 121]%N.                (* " day" *)
Definition s_stars : str := [42; 42; 42; 42; 42; 42; 42; 42; 42; 42]%N.  (* "**********" *)

(* ------------------------------------------------------------------------------ range *)
Record prange := { rg_start : Z; rg_stop : Z; rg_step : Z }.

Definition range_serializer (r : prange) : str :=
  if rg_step r =? 1 then
    if rg_start r =? 0 then s_range_open ++ print_Z (rg_stop r) ++ s_close
    else s_range_open ++ print_Z (rg_start r) ++ s_comma_sp ++ print_Z (rg_stop r) ++ s_close
  else s_range_open ++ print_Z (rg_start r) ++ s_comma_sp ++ print_Z (rg_stop r) ++ s_comma_sp
       ++ print_Z (rg_step r) ++ s_close.

(* `$` without re.MULTILINE: end of string, or just before a final newline *)
Definition chop_nl (s : str) : str := if ends_with [10%N] s then removelast s else s.

(* -?\d+ *)
Definition int_tok (s : str) : bool :=
  let s' := match s with c :: r => if N.eqb c 45 then r else s | [] => [] end in
  negb (is_nil s') && forallb is_digit s'.

(* ^(-?\d+)(,(-?\d+)){n-1}$ : the groups *)
Definition match_ints (n : nat) (v : str) : option (list str) :=
  let parts := split_on 44 (chop_nl v) in
  if Nat.eqb (length parts) n && forallb int_tok parts then Some parts else None.

(* range(a, b, c): ValueError when c = 0 *)
Definition make_range (a b c : Z) : option prange :=
  if c =? 0 then None else Some {| rg_start := a; rg_stop := b; rg_step := c |}.

Definition not_space32 (c : N) : bool := negb (N.eqb c 32).

(* None = raises (ValueError, or AttributeError for a non-str; both are "not of type range") *)
Definition range_deserializer (v : pyval) : option prange :=
  match v with
  | PStr s0 =>
      let s := strip s0 in
      if starts_with s_range_open s && ends_with s_close s then
        let w := filter not_space32 (removelast (skipn 6 s)) in
        match match_ints 1 w with
        | Some [a] => match parse_int_str a with Some x => make_range 0 x 1 | None => None end
        | _ =>
        match match_ints 2 w with
        | Some [a; b] =>
            match parse_int_str a, parse_int_str b with
            | Some x, Some y => make_range x y 1 | _, _ => None end
        | _ =>
        match match_ints 3 w with
        | Some [a; b; c] =>
            match parse_int_str a, parse_int_str b, parse_int_str c with
            | Some x, Some y, Some z => make_range x y z | _, _, _ => None end
        | _ => None
        end end end
      else None
  | _ => None
  end.

(* Python's range.__eq__: equal as sequences *)
Definition range_len (r : prange) : Z :=
  if 0 <? rg_step r then (if rg_start r <? rg_stop r then (rg_stop r - rg_start r - 1) / rg_step r + 1 else 0)
  else (if rg_stop r <? rg_start r then (rg_start r - rg_stop r - 1) / (- rg_step r) + 1 else 0).

Definition range_eqb (a b : prange) : bool :=
  (range_len a =? range_len b) &&
  ((range_len a =? 0) || ((rg_start a =? rg_start b) && ((range_len a =? 1) || (rg_step a =? rg_step b)))).

(* ------------------------------------------------------------------------------ timedelta *)
(* a timedelta is its total number of microseconds; Python keeps it normalised as
   (days, 0 <= seconds < 86400, 0 <= microseconds < 10^6) with |days| <= 999999999 *)
Definition us_per_day : Z := 86400000000.
Definition max_days : Z := 999999999.
Definition td_valid (total : Z) : bool :=
  (- max_days <=? total / us_per_day) && (total / us_per_day <=? max_days).

(* str(timedelta) *)
Definition td_str (total : Z) : str :=
  let days := total / us_per_day in
  let rem := total mod us_per_day in
  let secs := rem / 1000000 in
  let us := rem mod 1000000 in
  let h := secs / 3600 in
  let m := secs mod 3600 / 60 in
  let s := secs mod 60 in
  (if days =? 0 then []
   else print_Z days ++ s_sp_day ++ (if (days =? 1) || (days =? -1) then [] else [115%N]) ++ s_comma_sp)
  ++ print_Z h ++ 58%N :: pad2 m ++ 58%N :: pad2 s
  ++ (if us =? 0 then [] else 46%N :: pad6 us).

Definition daych (c : N) : bool := is_digit c || N.eqb c 45.                  (* [-\d] *)
Definition secch (c : N) : bool := is_digit c || N.eqb c 46 || N.eqb c 43.    (* [\.\d+] *)
Definition is_s (c : N) : bool := N.eqb c 115.

(* hours \d+ ":" minutes \d+ ":" seconds \d[\.\d+]* , with re.match: a prefix match *)
Definition match_hms (s : str) : option (str * str * str) :=
  let '(h, r1) := span is_digit s in
  if is_nil h then None else
  match r1 with
  | c1 :: r2 =>
      if negb (N.eqb c1 58) then None else
      let '(m, r3) := span is_digit r2 in
      if is_nil m then None else
      match r3 with
      | c2 :: r4 =>
          if negb (N.eqb c2 58) then None else
          match r4 with
          | d :: r5 => if is_digit d then Some (h, m, d :: fst (span secch r5)) else None
          | [] => None
          end
      | [] => None
      end
  | [] => None
  end.

(* days [-\d]+ then " day", "s" repeated, ", " and the rest *)
Definition match_days (s : str) : option (str * str) :=
  let '(d, r1) := span daych s in
  if is_nil d then None else
  if starts_with s_sp_day r1 then
    let r3 := snd (span is_s (skipn 4 r1)) in
    if starts_with s_comma_sp r3 then Some (d, skipn 2 r3) else None
  else None.

Inductive td_res := TdOk (total : Z) | TdRej | TdOverflow.

Definition fin_of (f : option fl) : option Z := match f with Some (FFin m) => Some m | _ => None end.

(* timedelta(days=, hours=, minutes=, seconds=) from float(group) values *)
Definition td_build (d h m s : option Z) : td_res :=
  match d, h, m, s with
  | Some d', Some h', Some m', Some s' =>
      let total := d' * 86400 + h' * 3600 + m' * 60 + s' in
      if td_valid total then TdOk total else TdOverflow
  | _, _, _, _ => TdRej
  end.

Definition timedelta_deserializer (v : pyval) : td_res :=
  match v with
  | PStr s =>
      if contains s_day s then
        match match_days s with
        | Some (d, rest) =>
            match match_hms rest with
            | Some (h, m, sec) =>
                td_build (fin_of (parse_float_str d)) (fin_of (parse_float_str h))
                         (fin_of (parse_float_str m)) (fin_of (parse_float_str sec))
            | None => TdRej
            end
        | None => TdRej
        end
      else
        match match_hms s with
        | Some (h, m, sec) =>
            td_build (Some 0) (fin_of (parse_float_str h))
                     (fin_of (parse_float_str m)) (fin_of (parse_float_str sec))
        | None => TdRej
        end
  | _ => TdRej
  end.

(* ------------------------------------------------------------------------------ SecretStr *)
(* register_type(SecretStr): serializer = str, and SecretStr.__str__ returns the mask *)
Definition secret_serializer (secret : str) : str := s_stars.

(* ------------------------------------------------------------------------------ Decimal *)
(* A finite Decimal is mant * 10^exp. It is serialised with float(): the nearest binary double,
   an external function; a double is num * 2^ex. The deserializer Decimal(float) is exact. *)
Record decimal := { d_mant : Z; d_exp : Z }.
Record dyadic := { y_num : Z; y_exp : Z }.

(* d = y as rationals, by cross-multiplication with non-negative powers only *)
Definition pos_part (z : Z) : Z := Z.max z 0.
Definition dec_dy_eqb (d : decimal) (y : dyadic) : bool :=
  d_mant d * 10 ^ pos_part (d_exp d) * 2 ^ pos_part (- y_exp y)
  =? y_num y * 2 ^ pos_part (y_exp y) * 10 ^ pos_part (- d_exp d).

Definition dec_eqb (a b : decimal) : bool :=
  d_mant a * 10 ^ pos_part (d_exp a) * 10 ^ pos_part (- d_exp b)
  =? d_mant b * 10 ^ pos_part (d_exp b) * 10 ^ pos_part (- d_exp a).

(* config-file channel: dump writes float(d); the loader reads that double; Decimal(double) *)
Definition decimal_roundtrip_file_equal (to_double : decimal -> dyadic) (d : decimal) : bool :=
  dec_dy_eqb d (to_double d).

(* C20 — creation of restricted number types: restricted_number_type's argument checks and register key, and
   extend_base_type / add_type's registry (jsonargparse/typing.py), in the shape of the code.

     if base_type not in {int, float} / join not in {"or", "and"}: ValueError     (typed away: base, join)
     restrictions = [restrictions] if isinstance(restrictions, tuple) else restrictions
     all(x[0] in _operators2 and x[1] == base_type(x[1]) for x in restrictions)   else ValueError
     register_key = (tuple(sorted(restrictions)), base_type, join)
     restrictions = [(_operators2[x[0]], x[1]) for x in restrictions]              (the type's own list)
   extend_base_type:
     if register_key in registered_types:
         registered_type = registered_types[register_key]
         if registered_type.__name__ != name: raise ValueError
         return registered_type
     ... created_type = type(name, ...); add_type(created_type, register_key)
   add_type: if type_class.__name__ in globals(): raise ValueError;  globals()[name] = type_class;  register

   Keys are compared as Python compares tuples: symbols as strings, references NUMERICALLY (1 == 1.0 and their
   hashes agree), so a restriction list is found again in any order and with int/float spellings of a reference. *)
From JV Require Import Lib.Base Lib.C20Text Model.C20Base Gen.C20Operators Model.C20Restricted Spec.C20RestrictedSpec.
Local Open Scope Z_scope.

Definition entry := (str * num)%type.

(* x[1] == base_type(x[1])  (an exception raised by base_type(...) refuses the creation as well) *)
Definition ref_ok (b : base) (r : num) : bool :=
  match b, r with
  | BInt, NI _ => true
  | BInt, NF (FFin m) => m mod 1000000 =? 0            (* 2.0 == int(2.0); 2.5 != int(2.5) *)
  | BInt, NF _ => false                                (* int(inf): OverflowError, int(nan): ValueError *)
  | BFloat, NI z => match float_of_int z with Some (FFin m) => m =? z * 1000000 | _ => false end
  | BFloat, NF FNan => false                           (* nan != nan *)
  | BFloat, NF _ => true
  end.

Definition known_op (sym : str) : bool := match operators2 sym with Some _ => true | None => false end.

Definition creation_ok (b : base) (rs : list entry) : bool :=
  forallb (fun e => known_op (fst e) && ref_ok b (snd e)) rs.

(* ---- sorted(restrictions): tuples (str, number) ---------------------------------------------- *)
Fixpoint str_leb (a b : str) : bool :=
  match a, b with
  | [], _ => true
  | _ :: _, [] => false
  | x :: a', y :: b' => if N.ltb x y then true else if N.eqb x y then str_leb a' b' else false
  end.

Definition num_numeq (a b : num) : bool := ext_eqb (ext_of a) (ext_of b).
Definition num_leb (a b : num) : bool := negb (ext_ltb (ext_of b) (ext_of a)).

(* tuple comparison: the first component that differs decides *)
Definition entry_leb (a b : entry) : bool :=
  if str_eqb (fst a) (fst b) then num_leb (snd a) (snd b) else str_leb (fst a) (fst b).

Fixpoint insert_sorted (e : entry) (l : list entry) : list entry :=
  match l with
  | [] => [e]
  | x :: l' => if entry_leb e x then e :: l else x :: insert_sorted e l'
  end.
Definition sorted (l : list entry) : list entry := fold_right insert_sorted [] l.

(* ---- the register key and its equality (tuple ==) --------------------------------------------- *)
Definition nkey := (list entry * base * join)%type.
Definition entry_eqb (a b : entry) : bool := str_eqb (fst a) (fst b) && num_numeq (snd a) (snd b).
Definition base_eqb (a b : base) : bool := match a, b with BInt, BInt | BFloat, BFloat => true | _, _ => false end.
Definition join_eqb (a b : join) : bool := match a, b with JAnd, JAnd | JOr, JOr => true | _, _ => false end.
Definition nkey_eqb (a b : nkey) : bool :=
  list_eqb entry_eqb (fst (fst a)) (fst (fst b)) && base_eqb (snd (fst a)) (snd (fst b)) && join_eqb (snd a) (snd b).

Definition nkey_of (t : rtype) : nkey := (sorted (r_restr t), r_base t, r_join t).

(* registered_types restricted to number types: key |-> (name, the type as it was created);
   names: what add_type finds in globals() *)
Definition num_registry := list (nkey * (str * rtype)).
Record nstate := { ns_reg : num_registry; ns_names : list str }.

Fixpoint nreg_find (reg : num_registry) (k : nkey) : option (str * rtype) :=
  match reg with
  | [] => None
  | (k', t) :: reg' => if nkey_eqb k' k then Some t else nreg_find reg' k
  end.

(* restricted_number_type(name, base, restrictions, join); None = ValueError *)
Definition create_num (st : nstate) (name : str) (t : rtype) : option rtype * nstate :=
  if negb (creation_ok (r_base t) (r_restr t)) then (None, st)
  else match nreg_find (ns_reg st) (nkey_of t) with
       | Some (n, t0) => if str_eqb n name then (Some t0, st) else (None, st)
       | None =>
           if mem_str name (ns_names st) then (None, st)
           else (Some t, {| ns_reg := (nkey_of t, (name, t)) :: ns_reg st; ns_names := name :: ns_names st |})
       end.

(* a history of creations; the results in order *)
Fixpoint create_all (st : nstate) (calls : list (str * rtype)) : list (option rtype) * nstate :=
  match calls with
  | [] => ([], st)
  | (name, t) :: calls' =>
      let '(r, st1) := create_num st name t in
      let '(rs, st2) := create_all st1 calls' in
      (r :: rs, st2)
  end.

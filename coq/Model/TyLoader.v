(* Shared by the C01/C02/C05/C10 judges: the loader handed to the model. For a text that is
   certainly one plain scalar (`plain_ok`) the model computes the result itself (Model/Scalar.v
   with the regenerated loader table); for structured text it looks up what the real yaml_load
   answered (PyYAML's document parser is outside the model). *)
From JV Require Import Lib.Base Lib.Regex Model.TyVal Model.Scalar Model.Ty Gen.C01Resolvers.

Definition safe_char (c : N) : bool :=
  (N.leb 48 c && N.leb c 57) || (N.leb 65 c && N.leb c 90) || (N.leb 97 c && N.leb c 122)
  || N.eqb c 95 || N.eqb c 46 || N.eqb c 43 || N.eqb c 45 || N.eqb c 126.

Fixpoint has_prefix (p s : str) : bool :=
  match p, s with
  | [], _ => true
  | x :: p', y :: s' => N.eqb x y && has_prefix p' s'
  | _, [] => false
  end.

Definition plain_ok (s : str) : bool :=
  negb (nil_str s) && forallb safe_char s
  && negb (str_eqb s [45%N])
  && negb (has_prefix [45;45;45]%N s) && negb (has_prefix [46;46;46]%N s).

Definition lres_eqb (a b : lres) : bool :=
  match a, b with
  | LVal x, LVal y => val_eqb x y
  | LYamlErr, LYamlErr | LValErr, LValErr => true
  | _, _ => false
  end.

Definition model_yload (s : str) : lres :=
  match yaml_scalar loader_table s with COk v => LVal v | CErr => LValErr end.

Fixpoint oracle_get (s : str) (o : list (str * lres)) : option lres :=
  match o with [] => None | (k, r) :: o' => if str_eqb s k then Some r else oracle_get s o' end.

Definition case_yload (o : list (str * lres)) (s : str) : lres :=
  if plain_ok s then model_yload s
  else match oracle_get s o with
       | Some r => r
       | None => LVal (VOpaque [109;105;115;115;105;110;103]%N s)   (* "missing": forces a disagreement *)
       end.

(* every plain scalar in the oracle must be reproduced by the scalar model *)
(* a constructor ValueError reported as a loader error (fixes/C02-any-str-valueerror.patch) is the same text-level fact *)
Definition lres_agree (m o : lres) : bool :=
  lres_eqb m o || match m, o with LValErr, LYamlErr => true | _, _ => false end.
Definition oracle_consistent (o : list (str * lres)) : bool :=
  forallb (fun sr => if plain_ok (fst sr) then lres_agree (model_yload (fst sr)) (snd sr) else true) o.

Inductive obs := Accepted (w : val) | Rejected | Crashed.

Definition obs_eqb (a b : obs) : bool :=
  match a, b with
  | Accepted x, Accepted y => val_eqb x y
  | Rejected, Rejected | Crashed, Crashed => true
  | _, _ => false
  end.

Definition obs_of (r : ares) : obs := match r with AOk w => Accepted w | AErr _ => Rejected end.
Definition is_accepted (o : obs) : bool := match o with Accepted _ => true | _ => false end.

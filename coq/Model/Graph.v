(* Model of jsonargparse._link_arguments.DirectedGraph (lines 75-109), in the shape of the code.
   Executable definitions only; proofs live in Proofs/GraphProofs.v. *)
From JV Require Import Lib.Base.

(* nodes: labels in first-seen order; adj: per node index, the target indices in insertion order
   (edges_dict is a defaultdict(list): a missing entry is the empty list). *)
Record graph := { nodes : list str; adj : list (list nat) }.

Definition empty_graph : graph := {| nodes := []; adj := [] |}.

Definition add_node (ns : list str) (x : str) : list str :=
  if mem_str x ns then ns else ns ++ [x].

Fixpoint adj_get (a : list (list nat)) (i : nat) : list nat :=
  match a, i with
  | [], _ => []
  | l :: _, 0 => l
  | _ :: a', S i' => adj_get a' i'
  end.

Fixpoint adj_set (a : list (list nat)) (i : nat) (l : list nat) : list (list nat) :=
  match a, i with
  | [], 0 => [l]
  | [], S i' => [] :: adj_set [] i' l
  | _ :: a', 0 => l :: a'
  | x :: a', S i' => x :: adj_set a' i' l
  end.

Definition add_edge (g : graph) (s t : str) : graph :=
  let ns := add_node (add_node (nodes g) s) t in
  match index_str s ns, index_str t ns with
  | Some si, Some ti =>
      let l := adj_get (adj g) si in
      {| nodes := ns; adj := adj_set (adj g) si (if mem_nat ti l then l else l ++ [ti]) |}
  | _, _ => g (* unreachable: both were just added *)
  end.

Definition build (es : list (str * str)) : graph :=
  fold_left (fun g e => add_edge g (fst e) (snd e)) es empty_graph.

Inductive tres :=
| TOk (visited order : list nat)
| TCycle (u v : nat)          (* ValueError: found while checking u --> v *)
| TFuel.

(* topological_sort(source, exploring, visited, order).  The `exploring` flags of the code are
   exactly the recursion stack, so they are passed down as the list E and need no restoring.
   `loop` is the `for target in self.edges_dict[source]` loop, `rec` the recursive call. *)
Fixpoint loop (rec : nat -> list nat -> list nat -> tres) (s : nat) (E' : list nat)
              (ts : list nat) (V O : list nat) : tres :=
  match ts with
  | [] => TOk (s :: V) (s :: O)     (* visited[source] = True; order.insert(0, source) *)
  | t :: ts' =>
      if mem_nat t E' then TCycle s t
      else if mem_nat t V then loop rec s E' ts' V O
      else match rec t V O with
           | TOk V' O' => loop rec s E' ts' V' O'
           | r => r
           end
  end.

Fixpoint dfs (fuel : nat) (succ : nat -> list nat) (s : nat) (E V O : list nat) : tres :=
  match fuel with
  | 0 => TFuel
  | S f => loop (fun t V O => dfs f succ t (s :: E) V O) s (s :: E) (succ s) V O
  end.

(* get_topological_order: for source in range(len(nodes)): if not visited: topological_sort *)
Fixpoint outer (fuel : nat) (succ : nat -> list nat) (srcs : list nat) (V O : list nat) : tres :=
  match srcs with
  | [] => TOk V O
  | s :: srcs' =>
      if mem_nat s V then outer fuel succ srcs' V O
      else match dfs fuel succ s [] V O with
           | TOk V' O' => outer fuel succ srcs' V' O'
           | r => r
           end
  end.

Definition topo_idx (n : nat) (succ : nat -> list nat) : tres :=
  outer (S n) succ (seq 0 n) [] [].

Inductive topo_out :=
| Order (o : list str)
| Cycle (u v : str)
| Broken.

Definition label (g : graph) (i : nat) : str := nth i (nodes g) [].

Definition topo (g : graph) : topo_out :=
  match topo_idx (length (nodes g)) (adj_get (adj g)) with
  | TOk _ ord => Order (map (label g) ord)
  | TCycle u v => Cycle (label g u) (label g v)
  | TFuel => Broken
  end.

(* C02, two extensions of the case space that reuse Model/Ty.v unchanged:
   (1) Union members that are REGISTERED / RESTRICTED types (PositiveFloat, Decimal, ...): opaque members whose
       adapt_typehints behaviour on each value is observed (table `tbl`: AOk w, AErr ErrValue for a ValueError, AErr ErrType for any other
       exception — inside the Union trial loop `except Exception` makes every exception a member failure); the trial loop, the sort and the
       choice of the result are Model/Ty.v's adapt_union itself;
   (2) a declared default: ActionTypeHint._check_type passes `default=self.default` to the retry with the original
       string, and adapt_typehints starts with `if type(val) in {str,bool,int,float} and val == default: return val`.
   Executable only. *)
From JV Require Import Lib.Base Model.TyVal Model.Scalar Model.Ty.

(* MOpq: a registered / restricted type; MTd: a TypedDict class (total) with its fields. The behaviour of both on a value is
   OBSERVED (table); for MTd the declared fields serve the SPEC only (what a conforming result looks like). *)
Inductive member := MTy (t : ty) | MOpq (name : str) | MTd (name : str) (fields : list (str * ty)).

(* the hint that decides the sort key / the str fallback of a member: an opaque member is neither None, str, nor a
   sequence/mapping *)
Definition member_key (m : member) : ty :=
  match m with
  | MTy t => t
  | MOpq n => TEnum n []
  | MTd _ _ => TDict false TAny        (* get_typehint_origin(TypedDict class) is dict: a mapping for the Union sort *)
  end.

Definition opq_table := list (str * val * ares).

Fixpoint opq_lookup (tbl : opq_table) (n : str) (v : val) : ares :=
  match tbl with
  | [] => AOk (VOpaque [109;105;115;115;105;110;103]%N n)      (* "missing": forces a disagreement if it is ever used *)
  | (n', v', r) :: tbl' => if str_eqb n n' && val_eqb v v' then r else opq_lookup tbl' n v
  end.

Section Ext.
Variable fx : fixes.
Variable yl : str -> lres.
Variable tbl : opq_table.
Variable dflt : option val.

Definition member_result (orig : option str) (v : val) (m : member) : ty * ares :=
  (member_key m, match m with
                 | MTy t => adapt_g fx yl false orig t v
                 | MOpq n | MTd n _ => match opq_lookup tbl n v with AOk w => AOk w | AErr _ => AErr ErrValue end
                 end).

(* the hint is the member itself when there is one, Union[members] otherwise *)
Definition adapt_ms (orig : option str) (ms : list member) (v : val) : ares :=
  match ms with
  | [MTy t] => adapt_g fx yl false orig t v
  | [MOpq n] | [MTd n _] => opq_lookup tbl n v   (* not a Union: the kind of the exception decides about the retry *)
  | _ => adapt_union fx orig v (map (member_result orig v) ms)
  end.

Definition valid_string_ms (ms : list member) (v : val) : bool :=
  match ms with
  | [MTy t] => is_valid_string t v
  | _ => is_str v && existsb (fun m => match m with MTy TStr => true | _ => false end) ms
  end.

(* `type(val) in {str, bool, int, float} and val == default` for the only val it is ever applied to with a default:
   the original string *)
Definition equals_default (o : str) : bool :=
  match dflt with Some (VStr d) => str_eqb o d | _ => false end.

Definition check_type_x (ms : list member) (v0 : val) : ares :=
  let orig := match v0 with VStr s => Some s | _ => None end in
  match parse_value fx yl false v0 with
  | LValErr => if valid_string_ms ms v0 then AOk v0 else AErr ErrType
  | pv =>
      let v := match pv with LVal x => x | _ => v0 end in
      let first := adapt_ms orig ms v in
      let outcome :=
        match first with
        | AErr ErrValue =>
            match orig with
            | Some o => if equals_default o then AOk (VStr o)
                        else match adapt_ms orig ms (VStr o) with
                             | AOk w => AOk w
                             | AErr ErrValue => AErr ErrValue
                             | AErr ErrType => AErr ErrType
                             end
            | None => AErr ErrValue
            end
        | r => r
        end in
      match outcome with
      | AOk w => AOk w
      | AErr _ => if valid_string_ms ms v then AOk v else AErr ErrType
      end
  end.

Definition parse_key_x (ms : list member) (v0 : val) : ares :=
  match v0 with
  | VNone => AOk VNone
  | _ =>
    match check_type_x ms v0 with
    | AOk VNone => AOk VNone
    | AOk w => match check_type_x ms w with AOk _ => AOk w | AErr e => AErr e end
    | r => r
    end
  end.

End Ext.

(* (3) the NESTED command-line channel `--k.<key>=<text>` for a Dict-typed key (ActionTypeHint.__call__ wraps the text in
   NestedArg(key, text)): parse_value_or_config loads the text inside the NestedArg, the Dict branch of adapt_typehints
   builds {key: loaded} (no previous value) and adapts the value under the item type — orig_val is the NestedArg, not a
   str, so the Union str-fallback does not apply —; on ValueError _check_type retries with {key: text}; a NestedArg is
   never a "valid string". The result is then re-checked by validate like any other value. *)
Definition check_type_nested (fx : fixes) (yl : str -> lres) (int_keys : bool) (t : ty) (key s : str) : ares :=
  let td := TDict int_keys t in
  match parse_value fx yl false (VStr s) with
  | LValErr => AErr ErrType
  | pv =>
      let v := match pv with LVal x => x | _ => VStr s end in
      match adapt_g fx yl false None td (VDict [(VStr key, v)]) with
      | AErr ErrValue => match adapt_g fx yl false None td (VDict [(VStr key, VStr s)]) with
                         | AOk w => AOk w
                         | AErr _ => AErr ErrType
                         end
      | r => r
      end
  end.

Definition parse_key_nested (fx : fixes) (yl : str -> lres) (int_keys : bool) (t : ty) (key s : str) : ares :=
  match check_type_nested fx yl int_keys t key s with
  | AOk w => match check_type_g fx yl (TDict int_keys t) w with AOk _ => AOk w | AErr e => AErr e end
  | r => r
  end.

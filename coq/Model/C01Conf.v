(* C01 — value-level model of "serialise a configuration, read the text back, parse it again":
     adapt            adapt_typehints, serialising (mode Ser skip_none) and deserialising (Des) branches
                      (jsonargparse/_typehints.py:731-934) over the type grammar `cty`
     check_type       ActionTypeHint._check_type for one value (_typehints.py:554-610)
     entry / trim     ArgumentParser.dump: _dump_cleanup_actions (None entries, per-action serialisation) and
                      _dump_delete_default_entries (skip_default)            (_core.py:754-854)
     reload           what the YAML loader makes of the text the dumper writes for a serialised value, scalar by
                      scalar (plain iff the dumper's resolver says `str` and PyYAML's analysis allows it; a plain
                      scalar is resolved and constructed by the loader's tables)  (_loaders_dumpers.py:43-96,208-236)
     leaf_rt / roundtrip   the three composed, leaf by leaf (a configuration is a flat list of leaves: nested groups
                      are dotted keys; dict-VALUED leaves stay values, which is where skip_default goes wrong)
   Executable only; proofs are in Proofs/C01Proofs.v. *)
From JV Require Import Lib.Base Lib.Regex Model.TyVal Model.Scalar.

Inductive cty :=
| CStr | CInt | CFloat | CBool | CNone | CAny
| CLit (ls : list val)                   (* str and int literals *)
| CEnum (cls : str) (members : list str)
| CUnion (ts : list cty)                 (* Optional[T] = CUnion [T; CNone] *)
| CList (t : cty)
| CDict (int_keys : bool) (t : cty)
| CTuple (ts : list cty)
| CTupleVar (t : cty)
| CSet (t : cty)
| CData (fields : list (str * cty * val))    (* a dataclass used as a type hint VALUE: field name, type, default *)
| CSub (classes : list (str * cty)).         (* a subclass-typed argument: admissible class paths, each with the CData of
                                                its resolvable constructor parameters; value = {class_path, init_args?,
                                                dict_kwargs?} *)

(* adapt_typehints runs deserialising, or serialising with the dump options of the enclosing dump (dump_kwargs
   context: skip_none reaches the nested parser.dump of a dataclass-typed value) *)
(* how far missing dataclass fields are given their defaults while deserialising:
   FAll    = the sub_defaults context (ActionTypeHint.add_sub_defaults re-applies, after every parse, each top-level
             value that is a str or a Namespace): every dataclass below is completed
   FParser = parse_object(..., defaults=True) of this dataclass only (an item of List[Dataclass]: list_item)
   FNo     = parse_object(..., defaults=False): missing fields stay missing (dataclass below a Dict / Tuple / Set / Union
             item, which add_sub_defaults skips) *)
Inductive fill := FNo | FParser | FAll.
(* prev = prev_val: the value the key holds while a configuration source is applied (the declared default); it
   reaches a subclass spec directly or through a Union, not through containers *)
Inductive mode := Des (f : fill) (prev : val) | Ser (skip_none : bool).
Definition is_ser (m : mode) : bool := match m with Des _ _ => false | Ser _ => true end.
Definition union_mode (m : mode) : mode := match m with Des FParser p => Des FNo p | _ => m end.   (* a Union member *)
Definition sub_mode (m : mode) : mode :=                                                          (* below a container *)
  match m with Des FParser _ => Des FNo VNone | Des f _ => Des f VNone | _ => m end.

(* ---- equalities ------------------------------------------------------------------------------------------------ *)
Definition num_of (v : val) : option fl :=
  match v with
  | VBool b => Some (FFin (if b then 1 else 0) 0)
  | VInt z => Some (float_of_int z)
  | VFloat f => Some f
  | _ => None
  end.

Definition is_num (v : val) : bool := match num_of v with Some _ => true | None => false end.

Definition num_eq (a b : val) : bool :=
  match num_of a, num_of b with
  | Some FNan, _ | _, Some FNan => false
  | Some x, Some y => fl_eqb x y
  | _, _ => false
  end.

(* Python ==  (1 == 1.0 == True; list/tuple distinct; dict and set unordered) *)
Fixpoint py_eq (a b : val) {struct a} : bool :=
  let all2 := fix all2 (x y : list val) : bool :=
    match x, y with
    | [], [] => true
    | u :: x', w :: y' => py_eq u w && all2 x' y'
    | _, _ => false
    end in
  let subset := fix subset (x y : list val) : bool :=
    match x with
    | [] => true
    | u :: x' => existsb (py_eq u) y && subset x' y
    end in
  let dsubset := fix dsubset (x y : list (val * val)) : bool :=
    match x with
    | [] => true
    | (k, u) :: x' => existsb (fun kw => py_eq k (fst kw) && py_eq u (snd kw)) y && dsubset x' y
    end in
  match a, b with
  | VNone, VNone => true
  | VStr x, VStr y => str_eqb x y
  | VList x, VList y | VTuple x, VTuple y => all2 x y
  | VSet x, VSet y => Nat.eqb (length x) (length y) && subset x y
  | VDict x, VDict y => Nat.eqb (length x) (length y) && dsubset x y
  | VEnum c m, VEnum c' m' => str_eqb c c' && str_eqb m m'
  | VOpaque k r, VOpaque k' r' => str_eqb k k' && str_eqb r r'
  | _, _ => if is_num a && is_num b then num_eq a b else false
  end.

(* the equality of the property: value for value and type for type; dict and set unordered as in Python;
   NaN equals NaN (the same configuration) *)
Fixpoint veq (a b : val) {struct a} : bool :=
  let all2 := fix all2 (x y : list val) : bool :=
    match x, y with
    | [], [] => true
    | u :: x', w :: y' => veq u w && all2 x' y'
    | _, _ => false
    end in
  let subset := fix subset (x y : list val) : bool :=
    match x with
    | [] => true
    | u :: x' => existsb (veq u) y && subset x' y
    end in
  let dsubset := fix dsubset (x y : list (val * val)) : bool :=
    match x with
    | [] => true
    | (k, u) :: x' => existsb (fun kw => veq k (fst kw) && veq u (snd kw)) y && dsubset x' y
    end in
  match a, b with
  | VNone, VNone => true
  | VBool x, VBool y => Bool.eqb x y
  | VInt x, VInt y => Z.eqb x y
  | VFloat x, VFloat y => fl_eqb x y
  | VStr x, VStr y => str_eqb x y
  | VList x, VList y | VTuple x, VTuple y => all2 x y
  | VSet x, VSet y => Nat.eqb (length x) (length y) && subset x y
  | VDict x, VDict y => Nat.eqb (length x) (length y) && dsubset x y
  | VEnum c m, VEnum c' m' => str_eqb c c' && str_eqb m m'
  | VOpaque k r, VOpaque k' r' => str_eqb k k' && str_eqb r r'
  | _, _ => false
  end.

(* ---- int <-> text ------------------------------------------------------------------------------------------------ *)
Fixpoint digits_acc (fuel : nat) (z : Z) (acc : str) : str :=
  match fuel with
  | 0 => acc
  | S f => let acc' := (Z.to_N (z mod 10) + 48)%N :: acc in
           if Z.ltb z 10 then acc' else digits_acc f (z / 10) acc'
  end.
(* str(z) / represent_int / json: fuel grows with the number, so this is total on Z *)
Definition repr_nat (z : Z) : str := digits_acc (S (Z.to_nat (Z.log2 z))) z [].
Definition repr_int (z : Z) : str := if Z.ltb z 0 then 45%N :: repr_nat (- z) else repr_nat z.

Section Conf.
Variable yl : str -> option val.         (* yaml_load of a text on its own; None = the loader raised *)

(* ---- leaf types ---------------------------------------------------------------------------------------------- *)
Inductive lk := KStr | KInt | KFloat | KBool | KNone.

Definition isinst (k : lk) (v : val) : bool :=
  match k, v with
  | KStr, VStr _ | KInt, VInt _ | KFloat, VFloat _ | KBool, VBool _ | KNone, VNone => true
  | _, _ => false
  end.

Definition adapt_leaf (k : lk) (v : val) : option val :=
  let v1 := match v, k with
            | VStr _, KStr => v
            | VStr s, _ => match strip s with
                           | [] => v
                           | _ => match yl s with Some x => x | None => v end
                           end
            | _, _ => v
            end in
  let v2 := match k, v1 with KFloat, VInt z => VFloat (float_of_int z) | _, _ => v1 end in
  if isinst k v2 then Some v2 else None.

(* ---- Union ------------------------------------------------------------------------------------------------------ *)
Definition is_str (v : val) : bool := match v with VStr _ => true | _ => false end.
Definition is_cnone (t : cty) : bool := match t with CNone => true | _ => false end.
Definition is_cstr (t : cty) : bool := match t with CStr => true | _ => false end.
Definition is_seqmap (t : cty) : bool := match t with CList _ | CDict _ _ => true | _ => false end.
(* the value of such a type is a Namespace at its top: add_sub_defaults re-applies it *)
Definition is_cdata (t : cty) : bool := match t with CData _ => true | _ => false end.
Definition is_nslike (t : cty) : bool := match t with CData _ | CSub _ => true | _ => false end.
Definition is_dc_direct (t : cty) : bool := match t with CData _ | CSub _ => true | CUnion ts => existsb is_nslike ts | _ => false end.
Definition k_class_path : str := [99;108;97;115;115;95;112;97;116;104]%N.
Definition k_init_args : str := [105;110;105;116;95;97;114;103;115]%N.
Definition k_dict_kwargs : str := [100;105;99;116;95;107;119;97;114;103;115]%N.
Definition cdata_has (t : cty) (k : val) : bool :=
  match t with CData fs => existsb (fun f => py_eq k (VStr (fst (fst f)))) fs | _ => false end.
Definition field_mode (f : fill) (t1 : cty) : mode :=
  match f with
  | FAll => Des FAll VNone
  | FParser => if is_dc_direct t1 then Des FAll VNone else Des FNo VNone    (* the nested parser's own add_sub_defaults *)
  | FNo => Des FNo VNone
  end.
Definition item_mode (m : mode) (t1 : cty) : mode :=            (* List[T]: list_item=True reaches a dataclass T only *)
  match m with
  | Des FAll _ => Des FAll VNone
  | Des _ _ => if is_cdata t1 then Des FParser VNone else Des FNo VNone
  | _ => m
  end.

(* sort_subtypes_for_union: stable sort by (x != NoneType[, origin not in sequence_or_mapping]) *)
Definition union_key (val_is_str : bool) (t : cty) : nat :=
  (if is_cnone t then 0 else 2) + (if val_is_str && negb (is_seqmap t) then 1 else 0).

Fixpoint insert_by {A} (key : A -> nat) (x : A) (l : list A) : list A :=
  match l with
  | [] => [x]
  | y :: l' => if Nat.leb (key x) (key y) then x :: l else y :: insert_by key x l'
  end.
Definition stable_sort {A} (key : A -> nat) (l : list A) : list A := fold_right (insert_by key) [] l.

Inductive uval := UOk (v : val) | UExc.

Fixpoint union_loop (orig : option str) (v : val) (rs : list (cty * option val)) (vals : list uval) : list uval :=
  match rs with
  | [] => vals
  | (_, Some w) :: _ => vals ++ [UOk w]
  | (t, None) :: rs' =>
      match orig with
      | Some o => if is_cstr t && negb (is_str v)
                  then union_loop orig v rs' (vals ++ [UOk (VStr o)])
                  else union_loop orig v rs' (vals ++ [UExc])
      | None => union_loop orig v rs' (vals ++ [UExc])
      end
  end.

Definition exc_val : val := VOpaque [101;120;99]%N [].

(* `if all(isinstance(v, Exception) for v in vals): raise; val = [v for v in vals if not isinstance(v, Exception)][-1]`
   (fix ec37b24: the last member that accepted, never a member's exception) *)
Definition union_result (vals : list uval) : option val :=
  match filter (fun u => match u with UOk _ => true | UExc => false end) vals with
  | [] => None
  | oks => match last oks UExc with UOk w => Some w | UExc => None end
  end.

Definition adapt_union (orig : option str) (v : val) (rs : list (cty * option val)) : option val :=
  union_result (union_loop orig v (stable_sort (fun r => union_key (is_str v) (fst r)) rs) []).

(* ---- containers ------------------------------------------------------------------------------------------------ *)
Definition seq_items (v : val) : option (list val) :=
  match v with VList l | VTuple l | VSet l => Some l | _ => None end.

Fixpoint map_opt {A B} (f : A -> option B) (l : list A) : option (list B) :=
  match l with
  | [] => Some []
  | x :: l' => match f x, map_opt f l' with Some y, Some r => Some (y :: r) | _, _ => None end
  end.

Fixpoint dedup (l : list val) (acc : list val) : list val :=
  match l with
  | [] => acc
  | x :: l' => if existsb (py_eq x) acc then dedup l' acc else dedup l' (acc ++ [x])
  end.

Fixpoint dict_put (k v : val) (d : list (val * val)) : list (val * val) :=
  match d with
  | [] => [(k, v)]
  | (k', v') :: d' => if py_eq k k' then (k', v) :: d' else (k', v') :: dict_put k v d'
  end.

Definition key_to_str (k : val) : val :=
  match k with
  | VInt z => VStr (repr_int z)
  | VBool true => VStr [84;114;117;101]%N
  | VBool false => VStr [70;97;108;115;101]%N
  | _ => k
  end.
Definition key_to_int (k : val) : option val :=
  match k with
  | VInt z => Some k
  | VBool b => Some (VInt (if b then 1 else 0))
  | VStr s => match signed_int (strip s) with Some z => Some (VInt z) | None => None end
  | _ => None
  end.

(* is_literal_member (fix d000fe2): same type and equal value *)
Definition lit_in (v : val) (ls : list val) : bool := existsb (val_eqb v) ls.
Definition has_int_lit (ls : list val) : bool := existsb (fun l => match l with VInt _ => true | _ => false end) ls.

(* ---- ActionTypeHint._check_type for one value --------------------------------------------------------------- *)
Definition simple_scalar (v : val) : bool :=
  match v with VInt _ | VFloat _ | VBool _ | VStr _ => true | _ => false end.

(* parse_value_or_config (no path) + load_value(simple_types = False) *)
Definition parse_value (v : val) : val :=
  match v with
  | VStr s =>
      match strip s with
      | [] => v
      | [45%N] => v
      | _ => match yl s with
             | Some x => if simple_scalar x then v else x
             | None => v
             end
      end
  | _ => v
  end.

Definition valid_string (t : cty) (v : val) : bool :=
  is_str v && match t with CStr => true | CUnion ts => existsb is_cstr ts | _ => false end.

(* ActionTypeHint._check_type for one value, given the type's own adapt_typehints `ad` (orig_val, value).
   dflt = the action's default: the retry with the original string passes it, and adapt_typehints returns a str /
   bool / int / float that == the default unchanged *)
Definition check_with (ad : option str -> val -> option val) (vstring : val -> bool) (dflt : val) (v0 : val) : option val :=
  let orig := match v0 with VStr s => Some s | _ => None end in
  let v := parse_value v0 in
  let r := match ad orig v with
           | Some w => Some w
           | None => match orig with
                     | Some o => if py_eq (VStr o) dflt then Some (VStr o) else ad orig (VStr o)
                     | None => None
                     end
           end in
  match r with
  | Some w => Some w
  | None => if vstring v then Some v else None
  end.

Fixpoint dict_get (k : val) (d : list (val * val)) : option val :=
  match d with
  | [] => None
  | (k', x) :: d' => if py_eq k k' then Some x else dict_get k d'
  end.

(* ---- adapt_typehints -------------------------------------------------------------------------------------------- *)
Fixpoint adapt (m : mode) (orig : option str) (t : cty) (v : val) {struct t} : option val :=
  let ser := is_ser m in
  match t with
  | CStr => adapt_leaf KStr v
  | CInt => adapt_leaf KInt v
  | CFloat => adapt_leaf KFloat v
  | CBool => adapt_leaf KBool v
  | CNone => adapt_leaf KNone v
  | CAny => Some v                       (* str values under Any are kept off the generated space when loadable *)
  | CLit ls =>
      if lit_in v ls then Some v
      else if is_str v && has_int_lit ls then
        match adapt_leaf KInt v with
        | Some x => if lit_in x ls then Some x else None
        | None => None
        end
      else None
  | CEnum cls members =>
      match v with
      | VEnum c m => if str_eqb c cls then Some (if ser then VStr m else v) else if ser then Some v else None
      | VStr s => if ser then Some v else if mem_str s members then Some (VEnum cls s) else None
      | _ => if ser then Some v else None
      end
  | CUnion ts =>
      adapt_union orig v
        ((fix go (ts : list cty) : list (cty * option val) :=
            match ts with [] => [] | t1 :: ts' => (t1, adapt (union_mode m) orig t1 v) :: go ts' end) ts)
  | CTuple ts =>
      match seq_items v with
      | None => None
      | Some l =>
          if negb (Nat.eqb (length l) (length ts)) then None
          else
            match (fix go (ts : list cty) (l : list val) : option (list val) :=
                     match ts, l with
                     | t1 :: ts', x :: l' => match adapt (sub_mode m) orig t1 x, go ts' l' with
                                             | Some w, Some r => Some (w :: r)
                                             | _, _ => None
                                             end
                     | _, _ => Some []
                     end) ts l with
            | Some r => Some (if ser then VList r else VTuple r)
            | None => None
            end
      end
  | CTupleVar t1 =>
      match seq_items v with
      | None => None
      | Some l => match map_opt (adapt (sub_mode m) orig t1) l with
                  | Some r => Some (if ser then VList r else VTuple r)
                  | None => None
                  end
      end
  | CSet t1 =>
      match seq_items v with
      | None => None
      | Some l => match map_opt (adapt (sub_mode m) orig t1) l with
                  | Some r => Some (if ser then VList r else VSet (dedup r []))
                  | None => None
                  end
      end
  | CList t1 =>
      match seq_items v with
      | Some l => match map_opt (adapt (item_mode m t1) orig t1) l with
                  | Some r => Some (VList r)
                  | None => None
                  end
      | None => None
      end
  | CDict int_keys t1 =>
      match v with
      | VDict d =>
          let casted :=
            if int_keys then
              if ser then Some (map (fun kv => (key_to_str (fst kv), snd kv)) d)
              else fold_left (fun acc kv => match acc, key_to_int (fst kv) with
                                            | Some d', Some k => Some (dict_put k (snd kv) d')
                                            | _, _ => None
                                            end) d (Some [])
            else Some d in
          match casted with
          | None => None
          | Some d' =>
              match map_opt (fun kv => match adapt (sub_mode m) orig t1 (snd kv) with
                                       | Some w => Some (fst kv, w)
                                       | None => None
                                       end) d' with
              | Some r => Some (VDict r)
              | None => None
              end
          end
      | _ => None
      end
  | CData fs =>
      (* dataclass-like: serialising = load_value(parser.dump(val, **dump_kwargs)) with the nested parser (its own
         _dump_cleanup_actions: None fields dropped under skip_none, each field serialised with its default; the nested
         text is YAML and is read back at once — identity by C01_reload_identity); deserialising =
         parser.parse_object(val): unknown keys rejected, present fields checked (None kept), missing ones defaulted *)
      match v with
      | VDict d =>
          match m with
          | Ser sn =>
              match (fix go (fs : list (str * cty * val)) : option (list (val * val)) :=
                       match fs with
                       | [] => Some []
                       | (n, t1, dflt) :: fs' =>
                           match go fs' with
                           | None => None
                           | Some r =>
                               match dict_get (VStr n) d with
                               | None => Some r
                               | Some VNone => Some (if sn then r else (VStr n, VNone) :: r)
                               | Some x =>
                                   match (if simple_scalar x && py_eq x dflt then Some x else adapt m None t1 x) with
                                   | Some j => Some ((VStr n, j) :: r)
                                   | None => None
                                   end
                               end
                           end
                       end) fs with
              | Some r => Some (VDict r)
              | None => None
              end
          | Des f _ =>
              if forallb (fun kv => existsb (fun f => py_eq (fst kv) (VStr (fst (fst f)))) fs) d then
                match (fix go (fs : list (str * cty * val)) : option (list (val * val)) :=
                         match fs with
                         | [] => Some []
                         | (n, t1, dflt) :: fs' =>
                             match go fs' with
                             | None => None
                             | Some r =>
                                 match dict_get (VStr n) d with
                                 | None => Some (match f with FNo => r | _ => (VStr n, dflt) :: r end)
                                 | Some VNone => Some ((VStr n, VNone) :: r)
                                 | Some x =>
                                     match check_with (fun o y => adapt (field_mode f t1) o t1 y) (valid_string t1) dflt x with
                                     | Some w => Some ((VStr n, w) :: r)
                                     | None => None
                                     end
                                 end
                             end
                         end) fs with
                | Some r => Some (VDict r)
                | None => None
                end
              else None
          end
      | _ => None
      end
  | CSub cs =>
      (* adapt_class_type on a subclass spec. Serialising: init_args, when there are any, go through the class parser's
         dump (dump options forwarded); class_path and dict_kwargs stay. Deserialising (the spec is re-applied by
         add_sub_defaults: every parameter completed): given init_args over those of prev_val that the class also has,
         over the class's own defaults *)
      match v with
      | VDict d =>
          match dict_get (VStr k_class_path) d with
          | Some (VStr cp) =>
              let ia := dict_get (VStr k_init_args) d in
              let head := (VStr k_class_path, VStr cp) in
              let tail := match dict_get (VStr k_dict_kwargs) d with Some x => [(VStr k_dict_kwargs, x)] | None => [] end in
              (fix find (cs : list (str * cty)) : option val :=
                 match cs with
                 | [] => None
                 | (p, t1) :: cs' =>
                     if str_eqb p cp then
                       match m with
                       | Ser _ =>
                           match ia with
                           | Some (VDict (kv :: l)) =>
                               match adapt m None t1 (VDict (kv :: l)) with
                               | Some r => Some (VDict (head :: (VStr k_init_args, r) :: tail))
                               | None => None
                               end
                           | Some x => Some (VDict (head :: (VStr k_init_args, x) :: tail))
                           | None => Some (VDict (head :: tail))
                           end
                       | Des _ prev =>
                           let pia := match prev with
                                      | VDict pd => match dict_get (VStr k_init_args) pd with Some (VDict x) => Some x | _ => None end
                                      | _ => None
                                      end in
                           let given := match ia with Some (VDict l) => l | _ => [] end in
                           let inherited := filter (fun kv => negb (existsb (fun g => py_eq (fst g) (fst kv)) given)
                                                              && cdata_has t1 (fst kv))
                                                   (match pia with Some x => x | None => [] end) in
                           match adapt (Des FAll VNone) orig t1 (VDict (given ++ inherited)) with
                           | Some (VDict r) =>
                               let has_ia := match r, pia with [], None => false | _, _ => true end in
                               Some (VDict (head :: (if has_ia then [(VStr k_init_args, VDict r)] else []) ++ tail))
                           | _ => None
                           end
                       end
                     else find cs'
                 end) cs
          | _ => None
          end
      | _ => None
      end
  end.

Definition check_type (t : cty) (dflt : val) (v0 : val) : option val :=
  check_with (fun o y => adapt (Des (if is_dc_direct t then FAll else FNo) dflt) o t y) (valid_string t) dflt v0.

(* a value found under a key of a configuration source (file, string, object): None is kept as it is *)
Definition check_entry (t : cty) (dflt : val) (v : val) : option val :=
  match v with VNone => Some VNone | _ => check_type t dflt v end.

(* ---- dump ------------------------------------------------------------------------------------------------------ *)
Record leaf := { lf_key : str; lf_ty : cty; lf_def : val }.
Inductive fmt := FYaml | FJson.
Record variant := { vr_fmt : fmt; vr_skip_none : bool; vr_skip_default : bool;
                    vr_comments : bool (* yaml_comments: the text is re-emitted by a second YAML library *) }.

Inductive entry := EErr | EAbsent | EPresent (j : val).

(* _dump_cleanup_actions for one action; strict = not skip_validation (defaults are cleaned with
   skip_validation=True: a failing serialisation leaves the raw default) *)
(* ActionTypeHint.serialize passes default=self.default: a str / bool / int / float that == the default is
   returned as it is (first line of adapt_typehints; not propagated to nested calls) *)
Definition ser_leaf (skip_none : bool) (t : cty) (dflt : val) (v : val) : option val :=
  if simple_scalar v && py_eq v dflt then Some v else adapt (Ser skip_none) None t v.

Definition cleanup (strict skip_none : bool) (t : cty) (dflt : val) (v : val) : entry :=
  match v with
  | VNone => if skip_none then EAbsent else EPresent VNone
  | _ => match ser_leaf skip_none t dflt v with
         | Some j => EPresent j
         | None => if strict then EErr else EPresent v
         end
  end.

(* _dump_delete_default_entries below one declared key (since /repo d576475 a dict VALUE is kept or dropped whole).
   A subclass spec is compared by its init_args: with those of the default when the class is the default's, else with the
   class's own defaults; equal -> the key is deleted (same class) or only its init_args (other class, /repo fix of
   skip-default-drops-changed-class); different -> init_args are pruned parameter by parameter. A default that is None
   makes `default.get("class_path")` raise. *)
Inductive tres := TErr | TDel | TKeep (j : val).

Fixpoint sub_classes (t : cty) : list (str * cty) :=
  match t with
  | CSub cs => cs
  | CUnion ts => (fix go (ts : list cty) : list (str * cty) := match ts with [] => [] | t1 :: ts' => sub_classes t1 ++ go ts' end) ts
  | _ => []
  end.

Fixpoint class_fields (cs : list (str * cty)) (cp : str) : option (list (str * cty * val)) :=
  match cs with
  | [] => None
  | (p, t1) :: cs' => if str_eqb p cp then match t1 with CData fs => Some fs | _ => None end else class_fields cs' cp
  end.

Definition spec_class (j : val) : option str :=
  match j with
  | VDict d => match dict_get (VStr k_class_path) d with Some (VStr cp) => Some cp | _ => None end
  | _ => None
  end.

Definition opt_py_eq (a b : option val) : bool :=
  match a, b with Some x, Some y => py_eq x y | None, None => true | _, _ => false end.

Definition dict_del (k : val) (d : list (val * val)) : list (val * val) := filter (fun kv => negb (py_eq (fst kv) k)) d.

(* fx = true: the tree since /repo 2b39397 (fixes/C01-skip-default-subclass-spec.patch): a default that is not a spec
   counts as "another class", and a spec is deleted only if its dict_kwargs are the default's too (otherwise only its
   init_args go).  fx = false: the tree before (findings skip-default-none-default-crash, skip-default-drops-dict-kwargs),
   kept for the regression witnesses in Properties/C01.v *)
Definition fx_subclass_trim : bool := true.

Definition trim_gen (fx_subclass_trim : bool) (t : cty) (j dj : val) : tres :=
  match spec_class j, j with
  | Some cp, VDict jd =>
      match (match dj with VDict dd => Some dd | _ => if fx_subclass_trim then Some [] else None end) with
      | Some dd =>
          let same := match dict_get (VStr k_class_path) dd with Some (VStr cpd) => str_eqb cp cpd | _ => false end in
          let default_ia :=
            if same then dict_get (VStr k_init_args) dd
            else match class_fields (sub_classes t) cp with
                 | Some fs => Some (VDict (map (fun f => (VStr (fst (fst f)), snd f)) fs))
                 | None => None
                 end in
          let val_ia := dict_get (VStr k_init_args) jd in
          if opt_py_eq val_ia default_ia then
            (if same && negb (fx_subclass_trim
                              && negb (opt_py_eq (dict_get (VStr k_dict_kwargs) jd) (dict_get (VStr k_dict_kwargs) dd)))
             then TDel else TKeep (VDict (dict_del (VStr k_init_args) jd)))
          else match val_ia, default_ia with
               | Some (VDict a), Some (VDict b) =>
                   let a' := filter (fun kv => match dict_get (fst kv) b with
                                               | Some y => negb (py_eq (snd kv) y)
                                               | None => true
                                               end) a in
                   TKeep (VDict (match a' with
                                 | [] => dict_del (VStr k_init_args) jd
                                 | _ => map (fun kv => if py_eq (fst kv) (VStr k_init_args) then (fst kv, VDict a') else kv) jd
                                 end))
               | _, _ => TKeep j
               end
      | None => TErr
      end
  | _, _ => if py_eq j dj then TDel else TKeep j
  end.

Definition trim (t : cty) (j dj : val) : tres := trim_gen fx_subclass_trim t j dj.

Definition dump_entry (vr : variant) (lf : leaf) (w : val) : entry :=
  match cleanup true (vr_skip_none vr) (lf_ty lf) (lf_def lf) w with
  | EPresent j =>
      if vr_skip_default vr then
        match cleanup false (vr_skip_none vr) (lf_ty lf) (lf_def lf) (lf_def lf) with
        | EPresent dj => match trim (lf_ty lf) j dj with
                         | TErr => EErr
                         | TDel => EAbsent
                         | TKeep j' => EPresent (if val_eqb j' j then j else j')
                         end
        | _ => EPresent j
        end
      else EPresent j
  | e => e
  end.

(* ---- the text layer ---------------------------------------------------------------------------------------------- *)
Variable plain_ok : str -> bool.         (* PyYAML's analyze_scalar / context verdict "may be written plain": ANY predicate *)
Variable yrepr : fl -> str.              (* text of represent_float (YAML) *)
Variable jrepr : fl -> str.              (* text of float.__repr__ (JSON) *)
Variable dtab ltab : rtable.             (* dumper's and loader's implicit-resolver tables *)

Definition cres_val (c : cres) : val := match c with COk v => v | CErr => VOpaque [101;114;114]%N [] end.

(* a str node: written plain iff the dumper resolves its text to `str` (implicit) and the emitter allows plain;
   a plain scalar is resolved by the loader's table and constructed; a quoted one is a str *)
Definition reload_str (s : str) : val :=
  if tag_eqb (resolve dtab s) TgStr && plain_ok s then cres_val (yaml_scalar ltab s) else VStr s.

(* a node with an explicit non-str tag: written plain iff the dumper resolves its text to that tag; otherwise the
   tag is written out and the loader constructs by that tag *)
Definition reload_tagged (tg : tag) (text : str) : val :=
  if tag_eqb (resolve dtab text) tg then cres_val (yaml_scalar ltab text) else cres_val (construct tg text).

Definition bool_text (b : bool) : str := if b then [116;114;117;101]%N else [102;97;108;115;101]%N.
Definition null_text : str := [110;117;108;108]%N.

Fixpoint reload (f : fmt) (v : val) {struct v} : val :=
  match v with
  | VStr s => match f with FYaml => reload_str s | FJson => VStr s end      (* JSON strings are always quoted *)
  | VInt z => match f with
              | FYaml => reload_tagged TgInt (repr_int z)
              | FJson => cres_val (yaml_scalar ltab (repr_int z))
              end
  | VFloat x => match f with
                | FYaml => reload_tagged TgFloat (yrepr x)
                | FJson => cres_val (yaml_scalar ltab (jrepr x))
                end
  | VBool b => match f with
               | FYaml => reload_tagged TgBool (bool_text b)
               | FJson => cres_val (yaml_scalar ltab (bool_text b))
               end
  | VNone => match f with
             | FYaml => reload_tagged TgNull null_text
             | FJson => cres_val (yaml_scalar ltab null_text)
             end
  | VList l => VList (map (reload f) l)
  | VDict d => VDict ((fix go (d : list (val * val)) : list (val * val) :=
                         match d with [] => [] | (k, x) :: d' => (reload f k, reload f x) :: go d' end) d)
  | _ => v
  end.

(* ---- one leaf through dump, text, and the parser again -------------------------------------------------------- *)
Definition leaf_rt (vr : variant) (lf : leaf) (w : val) : option val :=
  match dump_entry vr lf w with
  | EErr => None
  | EAbsent => Some (lf_def lf)
  | EPresent j => check_entry (lf_ty lf) (lf_def lf) (reload (vr_fmt vr) j)
  end.

Definition roundtrip (vr : variant) (lvs : list (leaf * val)) : option (list val) :=
  map_opt (fun lw => leaf_rt vr (fst lw) (snd lw)) lvs.

(* ArgumentParser.dump(skip_default=True) taken by a parser that has a REQUIRED subcommand (_core.py dump): the defaults it
   compares with come from get_defaults(), in which no subcommand is chosen, and ActionLink.strip_link_target_keys(defaults)
   -> _ActionSubCommands.get_subcommands raises NSKeyError: there is no text at all.  (--print_config given inside the
   subcommand is dumped by the subcommand's own parser: req_sub = false there.) *)
Definition dump_crashes_pinned (req_sub : bool) (vr : variant) : bool := req_sub && vr_skip_default vr.
(* repaired in /repo (fix: dump(skip_default=True) of a parser with a required subcommand no longer raises): the stripping of
   the DEFAULTS tolerates that they choose no subcommand, so there is a text again; dump_crashes_pinned keeps the old
   behaviour as a regression witness *)
Definition dump_crashes (req_sub : bool) (vr : variant) : bool := false.
(* the chosen subcommand's options live under the prefix `sub` ("fit."); if the dump holds none of them (the subcommand
   has no options, or all are None under skip_none, or skip_default dropped them all) the text says `fit: {}` (or nothing),
   which the parser does not take for a choice of the subcommand: the re-parse is rejected (required subcommand) or comes
   back without the subcommand *)
Fixpoint is_prefix (p s : str) : bool :=
  match p, s with
  | [], _ => true
  | a :: p', b :: s' => N.eqb a b && is_prefix p' s'
  | _ :: _, [] => false
  end.
(* the top-level parser's get_defaults() does not hold the defaults of its subcommands' options: skip_default leaves the
   chosen subcommand's options as they are *)
Definition no_skip_default (vr : variant) : variant :=
  {| vr_fmt := vr_fmt vr; vr_skip_none := vr_skip_none vr; vr_skip_default := false; vr_comments := vr_comments vr |}.
Definition leaf_var (sub : option str) (vr : variant) (lf : leaf) : variant :=
  match sub with
  | Some pre => if is_prefix pre (lf_key lf) then no_skip_default vr else vr
  | None => vr
  end.
Definition sub_emptied (sub : option str) (vr : variant) (lvs : list (leaf * val)) : bool :=
  match sub with
  | None => false
  | Some pre => forallb (fun lw => if is_prefix pre (lf_key (fst lw))
                                   then match dump_entry (leaf_var sub vr (fst lw)) (fst lw) (snd lw) with
                                        | EPresent _ => false
                                        | _ => true
                                        end
                                   else true) lvs
  end.
Definition roundtrip_top (req_sub : bool) (sub : option str) (vr : variant) (lvs : list (leaf * val)) : option (list val) :=
  if dump_crashes req_sub vr then None else if sub_emptied sub vr lvs then None
  else map_opt (fun lw => leaf_rt (leaf_var sub vr (fst lw)) (fst lw) (snd lw)) lvs.

End Conf.

(* ---- strings the text layer is not claimed for -------------------------------------------------------------- *)
(* U+0085 is taken for a line break by PyYAML's scanner (both formats); U+007F-U+009F, U+FFFE, U+FFFF are
   written raw by json.dumps(ensure_ascii=False) and refused by the YAML reader; U+2028/U+2029, raw in a JSON
   string, are line breaks to the YAML scanner (fatal in a mapping key) *)
Definition bad_char (f : fmt) (c : N) : bool :=
  match f with
  | FYaml => N.eqb c 133
  | FJson => (N.leb 127 c && N.leb c 159) || N.eqb c 65534 || N.eqb c 65535 || N.eqb c 8232 || N.eqb c 8233
  end.

Definition nonfinite (x : fl) : bool := match x with FFin _ _ => false | _ => true end.

Fixpoint val_any (p : val -> bool) (v : val) {struct v} : bool :=
  p v ||
  match v with
  | VList l | VTuple l | VSet l => existsb (val_any p) l
  | VDict d => existsb (fun kv => val_any p (fst kv) || val_any p (snd kv)) d
  | _ => false
  end.

Definition has_bad_str (f : fmt) (v : val) : bool :=
  val_any (fun x => match x with VStr s => existsb (bad_char f) s | _ => false end) v.
Definition has_nonfinite (v : val) : bool :=
  val_any (fun x => match x with VFloat y => nonfinite y | _ => false end) v.

Definition null_member : str := [110;117;108;108]%N.
Definition has_null_enum (v : val) : bool :=
  val_any (fun x => match x with VEnum _ m => str_eqb m null_member | _ => false end) v.

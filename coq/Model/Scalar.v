(* What a piece of text is taken for (C01, C05, C02): PyYAML's implicit resolution in the shape of
   yaml/resolver.py `resolve` with the tables regenerated from the live loader/dumper classes,
   the SafeConstructor scalar constructors, and jsonargparse's load_basic. Executable only. *)
From JV Require Import Lib.Base Lib.Regex Model.TyVal.

Inductive tag := TgStr | TgNull | TgBool | TgInt | TgFloat | TgTimestamp | TgMerge | TgValue | TgYaml | TgOther.

Definition tag_eqb (a b : tag) : bool :=
  match a, b with
  | TgStr, TgStr | TgNull, TgNull | TgBool, TgBool | TgInt, TgInt | TgFloat, TgFloat
  | TgTimestamp, TgTimestamp | TgMerge, TgMerge | TgValue, TgValue | TgYaml, TgYaml | TgOther, TgOther => true
  | _, _ => false
  end.

(* yaml_implicit_resolvers: first character -> ordered [(tag, regexp)]; key '' for the empty
   scalar; key None = wildcard list appended to every lookup *)
Record rtable := {
  by_char : list (N * list (tag * re));
  on_empty : list (tag * re);
  wildcard : list (tag * re) }.

Fixpoint lookup_char (c : N) (t : list (N * list (tag * re))) : list (tag * re) :=
  match t with
  | [] => []
  | (c', es) :: t' => if N.eqb c c' then es else lookup_char c t'
  end.

Definition candidates (t : rtable) (s : str) : list (tag * re) :=
  match s with
  | [] => on_empty t
  | c :: _ => lookup_char c (by_char t)
  end ++ wildcard t.

Fixpoint first_match (es : list (tag * re)) (s : str) : tag :=
  match es with
  | [] => TgStr
  | (tg, r) :: es' => if matches r s then tg else first_match es' s
  end.

(* Resolver.resolve(ScalarNode, value, (True, False)) *)
Definition resolve (t : rtable) (s : str) : tag := first_match (candidates t s) s.

(* the strings that resolve to something (anything listed) — as one regular expression *)
Definition first_is (c : N) : re := Cat (chr c) (Star any_char).
Definition any_of (es : list (tag * re)) : re := alt_list (map snd es).
Definition listed_re (t : rtable) : re :=
  alt_list (map (fun ce => And (first_is (fst ce)) (any_of (snd ce))) (by_char t)
            ++ [And Eps (any_of (on_empty t))]).

(* ---- characters ------------------------------------------------------------------------------ *)
Definition is_digit (c : N) : bool := N.leb 48 c && N.leb c 57.
Definition digit_val (c : N) : Z := (Z.of_N c - 48)%Z.
Definition is_space (c : N) : bool :=   (* str.isspace() per character, as str.strip() uses it *)
  N.eqb c 32 || (N.leb 9 c && N.leb c 13) || (N.leb 28 c && N.leb c 31) || N.eqb c 133 || N.eqb c 160
  || N.eqb c 5760 || (N.leb 8192 c && N.leb c 8202) || N.eqb c 8232 || N.eqb c 8233 || N.eqb c 8239
  || N.eqb c 8287 || N.eqb c 12288.
Fixpoint lstrip (s : str) : str := match s with c :: s' => if is_space c then lstrip s' else s | [] => [] end.
Definition strip (s : str) : str := rev (lstrip (rev (lstrip s))).
Definition lower (c : N) : N := if N.leb 65 c && N.leb c 90 then (c + 32)%N else c.
Definition remove_char (x : N) (s : str) : str := filter (fun c => negb (N.eqb c x)) s.
Fixpoint remove_first (n : nat) (x : N) (s : str) : str :=   (* str.replace(x, "", n) *)
  match n, s with
  | 0, _ => s
  | _, [] => []
  | S n', c :: s' => if N.eqb c x then remove_first n' x s' else c :: remove_first n x s'
  end.
Definition mem_chr (x : N) (s : str) : bool := existsb (N.eqb x) s.
Definition nil_str (s : str) : bool := match s with [] => true | _ => false end.
Definition all_digits (s : str) : bool := negb (nil_str s) && forallb is_digit s.

(* int(s, base) for a digit string already known to be well-formed; None = ValueError *)
Definition digit_in_base (base : Z) (c : N) : option Z :=
  let c := lower c in
  let v := if is_digit c then Some (digit_val c)
           else if N.leb 97 c && N.leb c 122 then Some (Z.of_N c - 87)%Z else None in
  match v with Some d => if Z.ltb d base then Some d else None | None => None end.

Fixpoint int_base_acc (base : Z) (s : str) (acc : Z) : option Z :=
  match s with
  | [] => Some acc
  | c :: s' => match digit_in_base base c with
               | Some dv => int_base_acc base s' (acc * base + dv)%Z
               | None => None
               end
  end.
Definition int_base (base : Z) (s : str) : option Z :=
  match s with [] => None | _ => int_base_acc base s 0%Z end.

Inductive cres := COk (v : val) | CErr.   (* CErr: the constructor raised ValueError *)

Fixpoint split_on (x : N) (s : str) (cur : str) : list str :=
  match s with
  | [] => [rev cur]
  | c :: s' => if N.eqb c x then rev cur :: split_on x s' [] else split_on x s' (c :: cur)
  end.

(* SafeConstructor.construct_yaml_int *)
Definition construct_int (s0 : str) : cres :=
  let s := remove_char 95 s0 in
  let '(sign, s) := match s with
                    | 45%N :: r => ((-1)%Z, r)
                    | 43%N :: r => (1%Z, r)
                    | _ => (1%Z, s)
                    end in
  let wrap (o : option Z) := match o with Some z => COk (VInt (sign * z)%Z) | None => CErr end in
  match s with
  | [48%N] => COk (VInt 0%Z)
  | 48%N :: 98%N :: r => wrap (int_base 2%Z r)
  | 48%N :: 120%N :: r => wrap (int_base 16%Z r)
  | 48%N :: r => wrap (int_base 8%Z (48%N :: r))
  | _ =>
      if mem_chr 58 s then
        (* sexagesimal: digits reversed, base *= 60 *)
        let parts := split_on 58 s [] in
        let r := fold_left (fun acc p => match acc, int_base 10%Z p with
                                         | Some a, Some v => Some (a * 60 + v)%Z
                                         | _, _ => None
                                         end) parts (Some 0%Z) in
        wrap r
      else wrap (int_base 10%Z s)
  end.

(* a decimal literal [digits][.digits][e[sign]digits] (Python float(); at least one mantissa digit) *)
Definition split_exp (s : str) : str * option str :=
  match split_on 101 (map lower s) [] with
  | [m] => (m, None)
  | [m; e] => (m, Some e)
  | _ => (s, Some [])   (* two exponents: invalid *)
  end.

Definition signed_int (s : str) : option Z :=
  match s with
  | 45%N :: r => option_map Z.opp (if forallb is_digit r then int_base 10%Z r else None)
  | 43%N :: r => if forallb is_digit r then int_base 10%Z r else None
  | _ => if forallb is_digit s then int_base 10%Z s else None
  end.

Definition parse_decimal (s : str) : option fl :=
  let '(neg, s) := match s with
                   | 45%N :: r => (true, r)
                   | 43%N :: r => (false, r)
                   | _ => (false, s)
                   end in
  let '(mant, ex) := split_exp s in
  let e := match ex with None => Some 0%Z | Some t => signed_int t end in
  match split_on 46 mant [] with
  | [ip] =>
      match e, (if forallb is_digit ip then int_base 10%Z ip else None) with
      | Some e, Some m => Some (norm_dec 400 (if neg then - m else m)%Z e)
      | _, _ => None
      end
  | [ip; fp] =>
      if forallb is_digit ip && forallb is_digit fp && negb (match ip ++ fp with [] => true | _ => false end) then
        match e, int_base 10%Z (ip ++ fp) with
        | Some e, Some m => Some (norm_dec 400 (if neg then - m else m)%Z (e - Z.of_nat (length fp))%Z)
        | _, _ => None
        end
      else None
  | _ => None
  end.

(* SafeConstructor.construct_yaml_float *)
Definition construct_float (s0 : str) : cres :=
  let s := map lower (remove_char 95 s0) in
  let '(neg, s) := match s with
                   | 45%N :: r => (true, r)
                   | 43%N :: r => (false, r)
                   | _ => (false, s)
                   end in
  if str_eqb s [46; 105; 110; 102]%N then COk (VFloat (FInf neg))
  else if str_eqb s [46; 110; 97; 110]%N then COk (VFloat FNan)
  else if mem_chr 58 s then
    (* sexagesimal float: only whole-number pieces are computed exactly; a fractional last piece
       is outside the modelled domain (binary rounding) *)
    match rev (split_on 58 s []) with
    | last :: front =>
        match parse_decimal last,
              fold_left (fun acc p => match acc, (if forallb is_digit p then int_base 10%Z p else None) with
                                      | Some a, Some v => Some (a * 60 + v)%Z
                                      | _, _ => None
                                      end) (rev front) (Some 0%Z) with
        | Some (FFin m e), Some hi =>
            if Z.leb 0 e then COk (VFloat (norm_dec 400 ((if neg then -1 else 1) * (hi * 60 + m * 10 ^ e))%Z 0%Z)) else CErr
        | _, _ => CErr
        end
    | [] => CErr
    end
  else match parse_decimal s with
       | Some (FFin m e) => COk (VFloat (FFin (if neg then - m else m)%Z e))
       | _ => CErr
       end.

Definition bool_words_true : list str :=
  [[121;101;115]; [116;114;117;101]; [111;110]]%N.   (* yes true on (lower-cased) *)

Definition construct_bool (s : str) : cres :=
  COk (VBool (mem_str (map lower s) bool_words_true)).

(* construct a plain scalar whose tag was resolved; tags jsonargparse never produces a value for
   (merge, value, timestamp in the loader ...) are outside the modelled domain: CErr *)
Definition construct (tg : tag) (s : str) : cres :=
  match tg with
  | TgStr => COk (VStr s)
  | TgNull => COk VNone
  | TgBool => construct_bool s
  | TgInt => construct_int s
  | TgFloat => construct_float s
  | _ => CErr
  end.

(* yaml.load of a text that is one plain scalar *)
Definition yaml_scalar (t : rtable) (s : str) : cres := construct (resolve t s) s.

(* jsonargparse._loaders_dumpers.load_basic; None = not_loaded *)
Definition load_basic (s0 : str) : option val :=
  let s := strip s0 in
  if str_eqb s [116;114;117;101]%N then Some (VBool true)
  else if str_eqb s [102;97;108;115;101]%N then Some (VBool false)
  else if str_eqb s [110;117;108;108]%N then Some VNone
  else
    if all_digits s || (match s with 45%N :: r => all_digits r | _ => false end) then
      match signed_int s with Some z => Some (VInt z) | None => None end
    else if all_digits (remove_first 2 45 (remove_first 1 101 (remove_first 1 46 s)))
            && (mem_chr 101 s || mem_chr 46 s) then
      match parse_decimal s with Some f => Some (VFloat f) | None => None end
    else None.

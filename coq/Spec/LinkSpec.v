(* Reference semantics for C16's link half: an executable checker, independent of Model/LinkOrder's ordering logic,
   of what `link_arguments(..., apply_on="instantiate")` + `instantiate_classes` may do for a set of declarations and
   links.  It only shares the data types (decl, link, event, ...) and the elementary string functions with the model.

   The property: for an acyclic set of links every source object is constructed before any object fed from it, every
   such parameter receives the source object / its attribute (through the compute function if given, which is
   called once), and every class is constructed exactly once; a link that closes a cycle is rejected (ValueError)
   when it is added.  "Acyclic" is about the dependencies between the constructed objects: the links, plus the fact
   that an object passed to another object's constructor (a nested class-typed value) exists before it. *)
From JV Require Import Lib.Base Model.Graph Model.LinkOrder Spec.GraphSpec.

(* ---- equality on observations -------------------------------------------------------------- *)
Definition base_eqb (a b : base) : bool :=
  match a, b with
  | BObj x, BObj y | BAttr x, BAttr y => str_eqb x y
  | BLit m, BLit n => N.eqb m n
  | BNs _, BNs _ => true
  | _, _ => false
  end.
Definition value_eqb (a b : value) : bool :=
  match a, b with
  | VBase x, VBase y => base_eqb x y
  | VFn i x, VFn j y => Nat.eqb i j && list_eqb base_eqb x y
  | _, _ => false
  end.
Definition arg_eqb (a b : nat * value) : bool := Nat.eqb (fst a) (fst b) && value_eqb (snd a) (snd b).
Definition event_eqb (a b : event) : bool :=
  match a, b with
  | ENew u x, ENew v y => str_eqb u v && list_eqb arg_eqb x y
  | ECall i x, ECall j y => Nat.eqb i j && list_eqb base_eqb x y
  | ECfg u x, ECfg v y => str_eqb u v && list_eqb arg_eqb x y
  | _, _ => false
  end.

(* ---- the objects of a declaration and who is passed to whose constructor ------------------- *)
Definition spec_units (d : decl) : list (str * option str) :=      (* (unit, the unit whose constructor receives it) *)
  let n := d_name d in
  let nested (outer : str) := join_dot [outer; s_init_args; s_sub] in
  match d_shape d with
  | ShG | ShS => [(n, None)]
  | ShGI | ShTI => []          (* nothing is constructed *)
  | ShSN => [(nested n, Some n); (n, None)]
  | ShSNN => [(nested (nested n), Some (nested n)); (nested n, Some n); (n, None)]
  | ShGN => [(join_dot [n; s_child], Some n); (n, None)]
  | ShGNN => [(nested (join_dot [n; s_child]), Some (join_dot [n; s_child])); (join_dot [n; s_child], Some n); (n, None)]
  end.

Definition all_units (ds : list decl) : list (str * option str) := flat_map spec_units ds.
Definition is_unit (us : list (str * option str)) (k : str) : bool := mem_str k (map fst us).

(* source key: a unit (the whole object) or unit.attribute -> (the unit that must exist, the value handed on) *)
Definition src_base (us : list (str * option str)) (k : str) : option (str * base) :=
  if is_unit us k then Some (k, BObj k)
  else if is_unit us (key_parent k) then Some (key_parent k, attr_value (key_parent k) (key_leaf k))
  else None.

(* target key: unit.param (class group) or unit.init_args.param (class-typed value) *)
Definition tgt_unit (us : list (str * option str)) (sk : list str) (tk : str) : option str :=
  let q := key_parent tk in
  if is_unit us q || mem_str q sk then Some q
  else if str_eqb (last (split_key q) []) s_init_args && is_unit us (key_parent q) then Some (key_parent q)
  else None.

Fixpoint opt_all {A} (l : list (option A)) : option (list A) :=
  match l with
  | [] => Some []
  | None :: _ => None
  | Some x :: l' => match opt_all l' with Some r => Some (x :: r) | None => None end
  end.

Record slink := { sl_id : nat; sl_srcs : list (str * base); sl_tgt : str; sl_fn : bool }.
Definition sl_vals (l : slink) : list base := map snd (sl_srcs l).

Definition spec_link (us : list (str * option str)) (sk : list str) (l : link) : option slink :=
  match opt_all (map (src_base us) (l_srcs l)), tgt_unit us sk (l_target l) with
  | Some (b :: bs), Some t => Some {| sl_id := l_id l; sl_srcs := b :: bs; sl_tgt := t; sl_fn := l_fn l |}
  | _, _ => None
  end.

Definition containment (us : list (str * option str)) : list edge :=
  flat_map (fun u => match snd u with Some p => [(fst u, p)] | None => [] end) us.

Definition dep_edges (us : list (str * option str)) (sls : list slink) : list edge :=
  flat_map (fun l => map (fun b => (fst b, sl_tgt l)) (sl_srcs l)) sls ++ containment us.

Definition has_cycle (es : list edge) : bool := existsb (fun e => reach_b es (snd e) (fst e)) es.

(* index of the first link whose addition makes the dependencies cyclic *)
Fixpoint first_cycle (us : list (str * option str)) (done todo : list slink) (k : nat) : option nat :=
  match todo with
  | [] => None
  | l :: todo' => if has_cycle (dep_edges us (done ++ [l])) then Some k else first_cycle us (done ++ [l]) todo' (S k)
  end.

(* ---- reading the event log ------------------------------------------------------------------ *)
Fixpoint pos_new (u : str) (log : list event) : option nat :=
  match log with
  | [] => None
  | ENew v _ :: log' | ECfg v _ :: log' => if str_eqb u v then Some 0 else option_map S (pos_new u log')
  | _ :: log' => option_map S (pos_new u log')
  end.
Fixpoint pos_call (j : nat) (log : list event) : option nat :=
  match log with
  | [] => None
  | ECall i _ :: log' => if Nat.eqb i j then Some 0 else option_map S (pos_call j log')
  | _ :: log' => option_map S (pos_call j log')
  end.
Definition new_units (log : list event) : list str :=
  flat_map (fun e => match e with ENew u _ => [u] | _ => [] end) log.
Definition calls (log : list event) : list (nat * list base) :=
  flat_map (fun e => match e with ECall j a => [(j, a)] | _ => [] end) log.
Definition args_of (u : str) (log : list event) : list (nat * value) :=
  flat_map (fun e => match e with ENew v a | ECfg v a => if str_eqb u v then a else [] | _ => [] end) log.

Definition lt_opt (a b : option nat) : bool :=
  match a, b with Some i, Some j => Nat.ltb i j | _, _ => false end.

Definition expected (l : slink) : value :=
  if sl_fn l then VFn (sl_id l) (sl_vals l) else VBase (hd (BNs []) (sl_vals l)).

Definition link_ok (log : list event) (l : slink) : bool :=
  (* the parameter receives the source object / attribute (through the compute function) *)
  existsb (arg_eqb (sl_id l, expected l)) (args_of (sl_tgt l) log)
  (* every source is constructed before the object fed from it *)
  && forallb (fun b => lt_opt (pos_new (fst b) log) (pos_new (sl_tgt l) log)) (sl_srcs l)
  (* the compute function runs exactly once, on the sources, after they exist and before the target is built *)
  && (if sl_fn l
      then Nat.eqb (length (filter (fun c => Nat.eqb (fst c) (sl_id l)) (calls log))) 1
           && existsb (fun c => Nat.eqb (fst c) (sl_id l) && list_eqb base_eqb (snd c) (sl_vals l)) (calls log)
           && forallb (fun b => lt_opt (pos_new (fst b) log) (pos_call (sl_id l) log)) (sl_srcs l)
           && lt_opt (pos_call (sl_id l) log) (pos_new (sl_tgt l) log)
      else negb (existsb (fun c => Nat.eqb (fst c) (sl_id l)) (calls log))).

Definition cfg_units (log : list event) : list str :=
  flat_map (fun e => match e with ECfg u _ => [u] | _ => [] end) log.

Definition log_ok (us : list (str * option str)) (sk : list str) (sls : list slink) (log : list event) : bool :=
  (* every class is constructed exactly once *)
  nodup_b (new_units log)
  && forallb (fun u => mem_str (fst u) (new_units log)) us
  && forallb (fun u => is_unit us u) (new_units log)
  (* the never instantiated groups are never constructed; each is read exactly once *)
  && list_eqb str_eqb (cfg_units log) sk
  && forallb (link_ok log) sls
  (* nothing else is written into a link parameter, no other compute function runs *)
  && forallb (fun e => match e with
                       | ENew u args | ECfg u args => forallb (fun a => existsb (fun l => Nat.eqb (sl_id l) (fst a) && str_eqb (sl_tgt l) u) sls) args
                       | ECall j _ => existsb (fun l => Nat.eqb (sl_id l) j && sl_fn l) sls
                       end) log.

Definition link_spec_ok (ds : list decl) (ls : list link) (obs : outcome * list event) : bool :=
  let us := all_units ds in
  let sk := sinks_of ds in
  match opt_all (map (spec_link us sk) ls) with
  | None => false                     (* ill-formed case: not judged as fine *)
  | Some sls =>
      match first_cycle us [] sls 0 with
      | Some k => match fst obs with OLinkErr k' => Nat.eqb k k' | _ => false end
      | None => match fst obs with OOk => log_ok us sk sls (snd obs) | _ => false end
      end
  end.

(* ---- histories that go on after a rejected link: every link that would close a cycle with the links accepted so far is
   rejected (and only those); what is finally constructed obeys the accepted links. *)
Fixpoint cont_walk (us : list (str * option str)) (acc todo : list slink) (k : nat) : list slink * list nat :=
  match todo with
  | [] => (acc, [])
  | l :: t => if has_cycle (dep_edges us (acc ++ [l]))
              then let (a, r) := cont_walk us acc t (S k) in (a, k :: r)
              else cont_walk us (acc ++ [l]) t (S k)
  end.

Definition link_spec_cont_ok (ds : list decl) (ls : list link) (rej : list nat) (obs : outcome * list event) : bool :=
  let us := all_units ds in
  let sk := sinks_of ds in
  match opt_all (map (spec_link us sk) ls) with
  | None => false
  | Some sls =>
      let (acc, r) := cont_walk us [] sls 0 in
      list_eqb Nat.eqb r rej && match fst obs with OOk => log_ok us sk acc (snd obs) | _ => false end
  end.

(* Reference semantics for C02 (DESIGN Appendix A.3): an independent structural validator.
   Exact Python kind at every level (bool is not an int, int is not a float), tuple arity,
   Literal by equal value AND equal kind, Enum by member, Union by some member, Dict keys of
   the declared kind. None conforms everywhere (the property speaks of non-null values). *)
From JV Require Import Lib.Base Model.TyVal Model.Ty.

Fixpoint conforms (t : ty) (v : val) {struct t} : bool :=
  match v with
  | VNone => true
  | _ =>
    match t with
    | TStr => match v with VStr _ => true | _ => false end
    | TInt => match v with VInt _ => true | _ => false end
    | TFloat => match v with VFloat _ => true | _ => false end
    | TBool => match v with VBool _ => true | _ => false end
    | TNone => false
    | TAny => true
    | TLit ls => existsb (fun l => val_eqb v (lit_val l)) ls
    | TEnum cls ms => match v with VEnum c m => str_eqb c cls && mem_str m ms | _ => false end
    | TUnion ts => (fix any (ts : list ty) : bool :=
                      match ts with [] => false | t1 :: ts' => conforms t1 v || any ts' end) ts
    | TList t1 => match v with VList l => forallb (conforms t1) l | _ => false end
    | TTupleVar t1 => match v with VTuple l => forallb (conforms t1) l | _ => false end
    | TSet t1 => match v with VSet l => forallb (conforms t1) l | _ => false end
    | TTuple ts =>
        match v with
        | VTuple l => (fix all2 (ts : list ty) (l : list val) : bool :=
                         match ts, l with
                         | [], [] => true
                         | t1 :: ts', x :: l' => conforms t1 x && all2 ts' l'
                         | _, _ => false
                         end) ts l
        | _ => false
        end
    | TDict int_keys t1 =>
        match v with
        | VDict d => forallb (fun kv => match fst kv with
                                        | VInt _ => int_keys
                                        | VStr _ => negb int_keys
                                        | _ => false
                                        end && conforms t1 (snd kv)) d
        | _ => false
        end
    end
  end.

(* C02: the model of the pinned tree (`impl`) and the guard of the property theorems (`class_in`).
   The guard is semantic and executable: an input is inside the guard (class 0) when none of the recorded defects
   changes what the pinned tree does with it, i.e. when the pinned model answers exactly like the fully repaired
   model; otherwise the class names the first single repair that changes the answer:
     5  union-trial-mutates     (in-place adaptation seen by the next Union member, Model/C02TyMut.v)
     1  union-vals-last         2  literal-eq        3  dict-key-unchecked      4  any-str-valueerror
     6  only a combination of repairs changes the answer
     8  optional-enum-order     (declaring the argument raises AttributeError)
   `pinned` / `pinned_copy` say which repairs the pinned tree already contains (none). When a fix lands in /repo the
   lead flips the corresponding switch here; nothing else changes. *)
From JV Require Import Lib.Base Model.TyVal Model.Scalar Model.Ty Model.C02TyMut Spec.C02Defs.

(* /repo now contains ec37b24 (union-vals-last), d000fe2 (literal-eq), f7876f0 (any-str-valueerror), ce28ec8
   (union-trial-mutates), c374a1a (optional-enum-order); dict-key-unchecked is NOT repaired and stays an open finding *)
Definition pinned : fixes := {| fx_union := true; fx_lit := true; fx_key := false; fx_valerr := true |}.
Definition pinned_copy : bool := true.      (* ce28ec8: lists and dicts are copied before their items are adapted *)

(* add_argument itself: typehint_metavar (_typehints.py:1557-1559) takes `__args__[0]` of an Optional[Enum] for the Enum,
   so Union[None, E] (None written first) raises AttributeError when the argument is declared *)
Definition pinned_metavar : bool := true.   (* c374a1a *)
Definition decl_crash_g (repaired : bool) (t : ty) : bool :=
  match t with
  | TUnion [TNone; TEnum _ _] => negb repaired
  | _ => false
  end.
Definition decl_crash (t : ty) : bool := decl_crash_g pinned_metavar t.

(* the tree before the C02 repairs (regression witnesses in Properties/C02.v are stated about it) *)
Definition impl_before (yl : str -> lres) (t : ty) (v0 : val) : ares := parse_key_m as_is yl t v0.

Definition impl (yl : str -> lres) (t : ty) (v0 : val) : ares :=
  if pinned_copy then parse_key_g pinned yl t v0 else parse_key_m pinned yl t v0.

Definition ares_eqb (a b : ares) : bool :=
  match a, b with
  | AOk x, AOk y => val_eqb x y
  | AErr _, AErr _ => true
  | _, _ => false
  end.

Definition with_union (f : fixes) := {| fx_union := true; fx_lit := fx_lit f; fx_key := fx_key f; fx_valerr := fx_valerr f |}.
Definition with_lit (f : fixes) := {| fx_union := fx_union f; fx_lit := true; fx_key := fx_key f; fx_valerr := fx_valerr f |}.
Definition with_key (f : fixes) := {| fx_union := fx_union f; fx_lit := fx_lit f; fx_key := true; fx_valerr := fx_valerr f |}.
Definition with_valerr (f : fixes) := {| fx_union := fx_union f; fx_lit := fx_lit f; fx_key := fx_key f; fx_valerr := true |}.

Definition class_in (yl : str -> lres) (t : ty) (v0 : val) : N :=
  let p := parse_key_g pinned yl t v0 in
  if decl_crash t then 8
  else if negb (ares_eqb (impl yl t v0) p) then 5
  else if negb (ares_eqb (parse_key_g (with_union pinned) yl t v0) p) then 1
  else if negb (ares_eqb (parse_key_g (with_lit pinned) yl t v0) p) then 2
  else if negb (ares_eqb (parse_key_g (with_key pinned) yl t v0) p) then 3
  else if negb (ares_eqb (parse_key_g (with_valerr pinned) yl t v0) p) then 4
  else if negb (ares_eqb (parse_key_g all_fixed yl t v0) p) then 6
  else 0.

Definition in_guard (yl : str -> lres) (t : ty) (v0 : val) : bool := N.eqb (class_in yl t v0) 0.

Fixpoint first_class (l : list N) : N :=
  match l with [] => 0%N | k :: l' => if N.eqb k 0 then first_class l' else k end.

(* an element given as a str is compared with its stand-alone parse only when the text is not structured YAML/JSON
   (as the value of a key a str is configuration text and would be expanded; as an item of a container it is not) *)
Definition comparable (yl : str -> lres) (x : val) : bool :=
  match x with
  | VStr _ => match parse_value pinned yl false x with
              | LVal (VStr _) | LYamlErr | LValErr => true
              | LVal _ => false
              end
  | VNone => false      (* a None given for a key means "unset" and is never checked; as an item it is a value *)
  | _ => true
  end.

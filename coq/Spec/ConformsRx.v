(* Conformance with two switchable relaxations, used to state exactly how far the pinned tree is
   from Spec/Conforms.v: rl = Literal members compared with Python == (True == 1 == 1.0),
   rk = Dict keys not checked. conforms_rx false false = conforms (proved in Proofs/TyProofs.v). *)
From JV Require Import Lib.Base Model.TyVal Model.Ty.

Fixpoint conforms_rx (rl rk : bool) (t : ty) (v : val) {struct t} : bool :=
  match v with
  | VNone => true
  | _ =>
    match t with
    | TStr => match v with VStr _ => true | _ => false end
    | TInt => match v with VInt _ => true | _ => false end
    | TFloat => match v with VFloat _ => true | _ => false end
    | TBool => match v with VBool _ => true | _ => false end
    | TNone => false
    | TAny => true
    | TLit ls => existsb (fun l => if rl then py_eq v (lit_val l) else val_eqb v (lit_val l)) ls
    | TEnum cls ms => match v with VEnum c m => str_eqb c cls && mem_str m ms | _ => false end
    | TUnion ts => (fix any (ts : list ty) : bool :=
                      match ts with [] => false | t1 :: ts' => conforms_rx rl rk t1 v || any ts' end) ts
    | TList t1 => match v with VList l => forallb (conforms_rx rl rk t1) l | _ => false end
    | TTupleVar t1 => match v with VTuple l => forallb (conforms_rx rl rk t1) l | _ => false end
    | TSet t1 => match v with VSet l => forallb (conforms_rx rl rk t1) l | _ => false end
    | TTuple ts =>
        match v with
        | VTuple l => (fix all2 (ts : list ty) (l : list val) : bool :=
                         match ts, l with
                         | [], [] => true
                         | t1 :: ts', x :: l' => conforms_rx rl rk t1 x && all2 ts' l'
                         | _, _ => false
                         end) ts l
        | _ => false
        end
    | TDict int_keys t1 =>
        match v with
        | VDict d => forallb (fun kv => (rk || match fst kv with
                                               | VInt _ => int_keys
                                               | VStr _ => negb int_keys
                                               | _ => false
                                               end) && conforms_rx rl rk t1 (snd kv)) d
        | _ => false
        end
    end
  end.

(* strict about None as well: for "a value of the right shape is never rejected" *)
Fixpoint shaped (t : ty) (v : val) {struct t} : bool :=
  match t with
  | TStr => match v with VStr _ => true | _ => false end
  | TInt => match v with VInt _ => true | _ => false end
  | TFloat => match v with VFloat _ => true | _ => false end
  | TBool => match v with VBool _ => true | _ => false end
  | TNone => match v with VNone => true | _ => false end
  | TAny => true
  | TLit ls => existsb (fun l => val_eqb v (lit_val l)) ls
  | TEnum cls ms => match v with VEnum c m => str_eqb c cls && mem_str m ms | _ => false end
  | TUnion ts => (fix any (ts : list ty) : bool :=
                    match ts with [] => false | t1 :: ts' => shaped t1 v || any ts' end) ts
  | TList t1 => match v with VList l => forallb (shaped t1) l | _ => false end
  | TTupleVar t1 => match v with VTuple l => forallb (shaped t1) l | _ => false end
  | TSet t1 => match v with VSet l => forallb (shaped t1) l | _ => false end
  | TTuple ts =>
      match v with
      | VTuple l => (fix all2 (ts : list ty) (l : list val) : bool :=
                       match ts, l with
                       | [], [] => true
                       | t1 :: ts', x :: l' => shaped t1 x && all2 ts' l'
                       | _, _ => false
                       end) ts l
      | _ => false
      end
  | TDict int_keys t1 =>
      match v with
      | VDict d => forallb (fun kv => match fst kv with
                                      | VInt _ => int_keys
                                      | VStr _ => negb int_keys
                                      | _ => false
                                      end && shaped t1 (snd kv)) d
      | _ => false
      end
  end.

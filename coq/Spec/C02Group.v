(* C02, group keys: a parser declares g.<field> : type (no defaults); parse_object({'g': value}).
   Model of the pinned tree (_core.py:_apply_actions / check_values, `_is_branch_key(...)`: continue): a mapping is
   expanded field by field, every field through its type hint; ANY OTHER value is stored under `g` as it is, and
   validation skips the key because it is a branch key. Spec: the value under a group key is absent/None or a mapping
   from declared fields to values that are None or conform to the field's hint. *)
From JV Require Import Lib.Base Model.TyVal Model.Scalar Model.Ty Model.C02TyMut Spec.Conforms Spec.C02Defs Spec.C02Guard.

Fixpoint field_ty (n : str) (fs : list (str * ty)) : option ty :=
  match fs with [] => None | (m, t) :: fs' => if str_eqb n m then Some t else field_ty n fs' end.

Fixpoint lookup_val (n : str) (d : list (val * val)) : option val :=
  match d with
  | [] => None
  | (VStr m, x) :: d' => if str_eqb n m then Some x else lookup_val n d'
  | _ :: d' => lookup_val n d'
  end.

Definition group_fix : bool := true.     (* 895597a: a non-mapping given for a group key is rejected *)

Definition group_parse_g (repaired : bool) (yl : str -> lres) (fs : list (str * ty)) (v : val) : ares :=
  match v with
  | VDict d =>
      if negb (forallb (fun kv => match fst kv with VStr n => is_some (field_ty n fs) | _ => false end) d)
      then AErr ErrValue     (* undeclared key *)
      else
        (fix go (fs' : list (str * ty)) (acc : list (val * val)) : ares :=
           match fs' with
           | [] => AOk (VDict acc)
           | (n, t) :: fs'' =>
               match lookup_val n d with
               | None | Some VNone => go fs'' (acc ++ [(VStr n, VNone)])
               | Some x => match impl yl t x with
                           | AOk w => go fs'' (acc ++ [(VStr n, w)])
                           | AErr e => AErr e
                           end
               end
           end) fs []
  | VNone => AOk VNone
  | _ => if repaired then AErr ErrValue else AOk v
  end.
Definition group_parse := group_parse_g group_fix.

Definition group_conforms (fs : list (str * ty)) (w : val) : bool :=
  match w with
  | VNone => true
  | VDict d => forallb (fun kv => match fst kv with
                                  | VStr n => match field_ty n fs with Some t => conforms t (snd kv) | None => false end
                                  | _ => false
                                  end) d
  | _ => false
  end.

(* the guard: the group key is given a mapping (or None), and every field value is inside the guard of its hint *)
Definition group_class (yl : str -> lres) (fs : list (str * ty)) (v : val) : N :=
  match v with
  | VNone => 0
  | VDict d => first_class (map (fun kv => match fst kv with
                                          | VStr n => match field_ty n fs with Some t => class_in yl t (snd kv) | None => 0 end
                                          | _ => 0
                                          end) d)
  | _ => if group_fix then 0 else 7
  end%N.

(* C07 — the property itself, on observations only (no model involved): what the four declaration styles of one
   nested group answered is THE SAME — the same action rows below the group key and the same required keys /
   the same accept-reject decision, the same nested values, the same dumped content and dump text.
   Order of the four components: dotted arguments, dataclass-typed argument, class added under the key, inner
   parser attached under the key. *)
From JV Require Import Lib.Base Model.C07Decl Model.C07Parse.

Inductive obs_out := OOk (c : ns) | OReject | OExit | OOther.

Record style_run := { sr_out : obs_out; sr_dump : option (ns * str) }.

Record four (A : Type) := { q_dotted : A; q_dcls : A; q_cls : A; q_inner : A }.
Arguments q_dotted {A}. Arguments q_dcls {A}. Arguments q_cls {A}. Arguments q_inner {A}.

Definition tv_eqb (a b : tv) : bool :=
  match a, b with
  | TLeaf x, TLeaf y => val_eqb x y
  | TNs x, TNs y => list_eqb (fun p q => str_eqb (fst p) (fst q) && val_eqb (snd p) (snd q)) x y
  | _, _ => false
  end.
Definition ns_eqb (a b : ns) : bool := list_eqb (fun p q => str_eqb (fst p) (fst q) && tv_eqb (snd p) (snd q)) a b.

Definition out_eqb (a b : obs_out) : bool :=
  match a, b with
  | OOk x, OOk y => ns_eqb x y
  | OReject, OReject | OExit, OExit | OOther, OOther => true
  | _, _ => false
  end.

Definition dump_text_eqb (a b : option (ns * str)) : bool :=
  match a, b with
  | None, None => true
  | Some x, Some y => ns_eqb (fst x) (fst y) && str_eqb (snd x) (snd y)
  | _, _ => false
  end.

(* two styles answered one input identically (an answer that is neither a result, a rejection nor a clean exit
   — an internal exception — never counts as agreement) *)
Definition same_answer (a b : style_run) : bool :=
  out_eqb (sr_out a) (sr_out b) && dump_text_eqb (sr_dump a) (sr_dump b)
  && match sr_out a with OOther => false | _ => true end.

Definition answers_agree (o : four style_run) : bool :=
  same_answer (q_dotted o) (q_dcls o) && same_answer (q_dcls o) (q_cls o) && same_answer (q_cls o) (q_inner o).

(* the declared options are the same: the three grouped styles have identical tables, the dotted style the same
   leaf actions and required keys *)
Definition leaf_rows (T : table) : list row :=
  filter (fun r => match r_kind r with KLeaf => true | KGroupLoad => false end) (t_rows T).
Definition same_leaves (a b : table) : bool :=
  list_eqb row_eqb (leaf_rows a) (leaf_rows b)
  && incl_str (t_required a) (t_required b) && incl_str (t_required b) (t_required a).

Definition tables_agree (o : four table) : bool :=
  same_leaves (q_dotted o) (q_dcls o) && table_eqb (q_dcls o) (q_cls o) && table_eqb (q_cls o) (q_inner o).

(* a declaration that raises in one style only is a disagreement; raising in all four is not *)
Definition tables_agree_opt (o : four (option table)) : bool :=
  match q_dotted o, q_dcls o, q_cls o, q_inner o with
  | Some a, Some b, Some c, Some d => tables_agree {| q_dotted := a; q_dcls := b; q_cls := c; q_inner := d |}
  | None, None, None, None => true
  | _, _, _, _ => false
  end.

(* C02: the notions the property theorems are stated with (executable, no proofs).
     accepts       the parser accepts the input for the key (ActionTypeHint._check_type, then the re-check of validate)
     accepts_item  the element type accepts a value as an item of a container (adapt_typehints on the item)
     wf_ty         the modelled type space: the element type of Set[...] is a hashable type
   Everything is parameterised by the repair switches `fx` (Model/Ty.v) and by the YAML loader `yl`. *)
From JV Require Import Lib.Base Model.TyVal Model.Scalar Model.Ty Spec.Conforms Spec.ConformsRx.

Definition is_ok (r : ares) : bool := match r with AOk _ => true | AErr _ => false end.

Definition accepts (fx : fixes) (yl : str -> lres) (t : ty) (v0 : val) : bool := is_ok (parse_key_g fx yl t v0).
Definition accepts_item (fx : fixes) (yl : str -> lres) (t : ty) (x : val) : bool := is_ok (adapt_g fx yl false None t x).

(* types whose values are hashable: what Set[...] can hold *)
Fixpoint hashable_ty (t : ty) : bool :=
  match t with
  | TStr | TInt | TFloat | TBool | TNone | TLit _ | TEnum _ _ => true
  | TAny | TList _ | TDict _ _ | TSet _ => false
  | TTupleVar t1 => hashable_ty t1
  | TTuple ts => (fix all (ts : list ty) : bool := match ts with [] => true | t1 :: ts' => hashable_ty t1 && all ts' end) ts
  | TUnion ts => (fix all (ts : list ty) : bool := match ts with [] => true | t1 :: ts' => hashable_ty t1 && all ts' end) ts
  end.

Fixpoint wf_ty (t : ty) : bool :=
  match t with
  | TStr | TInt | TFloat | TBool | TNone | TAny | TLit _ | TEnum _ _ => true
  | TList t1 | TDict _ t1 | TTupleVar t1 => wf_ty t1
  | TSet t1 => hashable_ty t1 && wf_ty t1
  | TTuple ts => (fix all (ts : list ty) : bool := match ts with [] => true | t1 :: ts' => wf_ty t1 && all ts' end) ts
  | TUnion ts => (fix all (ts : list ty) : bool := match ts with [] => true | t1 :: ts' => wf_ty t1 && all ts' end) ts
  end.

Definition is_some {A} (o : option A) : bool := match o with Some _ => true | None => false end.

(* the one way a Union accepts a value that no member accepts: the value is not a str, it came from
   command-line/config text, and `str` is a member — the original text is then taken *)
Definition str_fallback (orig : option str) (v : val) (ts : list ty) : bool :=
  is_some orig && negb (is_str v) && existsb is_str_ty ts.

(* ---- command-line / config TEXT of the right shape (theorems: Proofs/C02TextProofs.v; judge: text_right_shape) ------
   the text is not blank and not '-' (the parser keeps those as text), jsonargparse's load_basic — tried by load_value
   before YAML — reads it as the loader does, and the loader reads it as a value that is not a str and has the shape of
   the hint *)
Definition lres_is (r : lres) (x : val) : bool := match r with LVal y => val_eqb y x | _ => false end.

Definition basic_agrees (yl : str -> lres) (s : str) : bool :=
  match load_basic s with Some v => lres_is (yl s) v | None => true end.

(* the premise of the theorems below, executable: the judge (Corr/C02Judge.v text_right_shape) evaluates the same function *)
Definition text_shaped (yl : str -> lres) (t : ty) (s : str) : bool :=
  match strip s with
  | [] => false
  | _ => negb (str_eqb (strip s) [45%N]) && basic_agrees yl s
         && match yl s with LVal x => negb (is_str x) && shaped t x | _ => false end
  end.


(* C18 — what the property demands of one observed call of save(), stated on directory snapshots.
   Independent of Model/SaveFS.v's step semantics (it only shares the snapshot datatype).

     before / after : the target directory before and after the call
     failed         : save raised
     reparsed       : after a successful save, parsing the saved path gave the configuration back
     targets        : the file names save was asked to produce (main file, sub-config files)

   (1) all-or-nothing: a failed save leaves the directory exactly as it was;
   (2) no silent overwrite: without overwrite=True every entry that existed is still there, unchanged;
   (3) nothing but the targets is ever touched (even with overwrite=True), nothing else appears;
   (4) a successful save can be parsed back to the same configuration. *)
From JV Require Import Lib.Base Model.SaveFS.

Definition agrees_on (a b : fs) (n : name) : bool :=
  option_eqb node_eqb (lookup a n) (lookup b n).

Definition names (f : fs) : list name := map fst f.

Definition fs_same (a b : fs) : bool := forallb (agrees_on a b) (names a ++ names b).

Definition spec_ok (overwrite : bool) (targets : list name) (before after : fs)
                   (failed : bool) (reparsed : bool) : bool :=
  (if failed then fs_same before after else reparsed)
  && (if overwrite then true else forallb (agrees_on before after) (names before))
  && forallb (fun n => mem_str n targets || agrees_on before after n) (names before ++ names after).

(* C04 — the reference semantics (DESIGN.md Appendix A.2): the final configuration is the left fold
   of apply_assignment over the sources taken in the documented order.  Independent of the model. *)
From JV Require Import Lib.Base Lib.C04Base.

Definition state := list (tpath * val).          (* key -> value built so far *)

Definition lookup (k : tpath) (st : state) : val :=
  match alist_get k st with Some v => v | None => VNone end.

Fixpoint put (k : tpath) (v : val) (st : state) : state :=
  match st with
  | [] => [(k, v)]
  | (k', v') :: st' => if path_eqb k k' then (k, v) :: st' else (k', v') :: put k v st'
  end.

(* the list / dict built so far: None or absent counts as empty *)
Definition list_so_far (v : val) : list Z :=
  match v with VList l => l | VTok z => [z] | _ => [] end.
Definition dict_so_far (v : val) : list (str * Z) :=
  match v with VDict m => m | _ => [] end.
(* a list value is concatenated, any other value appended *)
Definition appended (v : val) : list Z :=
  match v with VList l => l | VTok z => [z] | _ => [] end.

Definition apply_assignment (st : state) (a : assignment) : state :=
  let (k, o) := a in
  match o with
  | Set_ v => put k v st
  | Append v => put k (VList (list_so_far (lookup k st) ++ appended v)) st
  | DictItem i z => put k (VDict (dict_set i z (dict_so_far (lookup k st)))) st
  end.

(* whether the environment is a source at all: the env= argument, else JSONARGPARSE_DEFAULT_ENV,
   else default_env; parse_env always reads it *)
Definition env_is_source (c : call) : bool :=
  match c_entry c with
  | EEnv => true
  | _ =>
      match c_env_arg c, c_os_default_env c with
      | Some b, _ => b
      | None, Some b => b
      | None, None => c_default_env c
      end
  end.

Definition declared_defaults (p : parser) : doc := map (fun d => (d_key d, Set_ (d_default d))) p.

(* default config files: patterns in listed order, the matches of one pattern sorted by name *)
Definition default_files (c : call) : list doc :=
  concat (map (fun m => map snd (sort_matches m)) (c_patterns c)).

Definition environment (c : call) : list doc :=
  if env_is_source c then
    [match c_envcfg c with Some d => d | None => [] end;
     map (fun kv => (fst kv, Set_ (snd kv))) (c_envvars c)]
  else [].

(* command line items left to right; a config file or string expands at its position *)
Definition given (c : call) : list doc :=
  match c_entry c with
  | EArgs argv => map (fun a => match a with AAsg x => [x] | ACfg d => d end) argv
  | EEnv => []
  | EString d | EObject d => [d]
  end.

Definition early_sources (c : call) : list doc := declared_defaults (c_parser c) :: default_files c.

Definition sources_in_documented_order (c : call) : list doc :=
  early_sources c ++ environment c ++ given c.

Definition fold_sources (c : call) : state :=
  fold_left apply_assignment (concat (sources_in_documented_order c)) [].

Definition final_values (c : call) : list val :=
  map (fun d => lookup (d_key d) (fold_sources c)) (c_parser c).

(* ---- with a subcommand: the same fold over the keys of both levels ------------------------------
   The subcommand's keys are NAME.key; its defaults are defaults, its environment variables are
   individual environment variables, and its items come after the parent's items on the command line. *)
Definition prefix_asg (nm : name) (a : assignment) : assignment := (nm :: fst a, snd a).
Definition prefix_arg (nm : name) (a : arg) : arg :=
  match a with
  | AAsg x => AAsg (prefix_asg nm x)
  | ACfg d => ACfg (map (prefix_asg nm) d)
  end.

Definition flat_call (sc : scall) : call :=
  let c := s_parent sc in
  let nm := s_name sc in
  {| c_parser := all_decls sc;
     c_default_env := c_default_env c; c_os_default_env := c_os_default_env c; c_env_arg := c_env_arg c;
     c_patterns := c_patterns c; c_envcfg := c_envcfg c;
     c_envvars := c_envvars c ++ map (fun kv => (nm :: fst kv, snd kv)) (s_subenv sc);
     c_entry := match c_entry c with
                | EArgs argv => EArgs (argv ++ map (prefix_arg nm) (s_subargv sc))
                | e => e
                end |}.

Definition final_values_sub (sc : scall) : list val := final_values (flat_call sc).

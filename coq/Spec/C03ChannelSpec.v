(* C03 — the reference semantics of the property, independent of the exception-flow model.

   What a caller can observe of one call of a parse method:
     Returned             the method returned a configuration
     Exited status usage  SystemExit(status) left the method (--help, --print_config, or the error exit);
                          usage = stderr holds a usage message followed by an "error: ..." line
     Raised is_argerr     any other exception left the method; is_argerr = it is jsonargparse.ArgumentError
     Hung                 the call did not terminate within the harness limit

   The property: a parse method returns, or exits with status 0 (help / version / print_config), or reports the
   failure through THE channel of its mode — ArgumentError when exit_on_error is false, exit status 2 otherwise.
   Nothing else (no other exception class, no other exit status, no ArgumentError in exit mode, no exit 2 in
   exception mode, no hang). *)
From JV Require Import Lib.Base.
Open Scope Z_scope.

Inductive observation := Returned | Exited (status : Z) (usage_and_error_line : bool) | Raised (is_argument_error : bool) | Hung.

Definition channel_ok (exit_on_error : bool) (o : observation) : bool :=
  match o with
  | Returned => true
  | Exited s u => Z.eqb s 0 || (exit_on_error && Z.eqb s 2 && u)
  | Raised ae => negb exit_on_error && ae
  | Hung => false
  end.

(* Exit status 0 is the outcome of a REQUEST (--help, --version, --print_config, a .help option): a call whose own input
   holds no such request and that nevertheless ends in SystemExit(0) did not report through the channel either (for
   instance a request left behind by an earlier, failed call on the same parser). *)
Definition channel_ok_asked (exit_on_error asked : bool) (o : observation) : bool :=
  channel_ok exit_on_error o &&
  match o with
  | Exited s _ => if Z.eqb s 0 then asked else true
  | _ => true
  end.

(* C13 — reference semantics: what CPython does when a callable of the DSL is called with a list of
   keyword names (values do not matter), and the property stated on top of it.
   `call` is not a specification of jsonargparse but of CPython's keyword binding; it is itself
   validated against the interpreter by the correspondence run (DESIGN Appendix A.7).
   It shares the DSL, the C3 linearisation and the frame look-up (mode Interp) with Model/Kwargs.v and
   nothing of the resolver. *)
From JV Require Import Lib.Base Model.Kwargs.

Inductive outcome :=
| COk
| CUnexpected   (* TypeError: f() got an unexpected keyword argument *)
| CObjInit      (* TypeError: object.__init__() takes exactly one argument / C() takes no arguments *)
| CMultiple     (* TypeError: got multiple values for (keyword) argument *)
| CMissing      (* TypeError: missing required argument *)
| CTooMany      (* TypeError: takes n positional arguments but m were given *)
| COther        (* NameError / AttributeError: the program is not in the DSL *)
| CFuel.

Definition outcome_eqb (a b : outcome) : bool :=
  match a, b with
  | COk, COk | CUnexpected, CUnexpected | CObjInit, CObjInit | CMultiple, CMultiple
  | CMissing, CMissing | CTooMany, CTooMany | COther, COther | CFuel, CFuel => true
  | _, _ => false
  end.

(* who received a keyword that came from the outermost call: name, annotation, default *)
Definition binding := (str * (list N * rdflt))%type.

Fixpoint find_param (n : str) (ps : list sparam) (i : nat) : option (nat * sparam) :=
  match ps with
  | [] => None
  | p :: r => if str_eqb n (sp_name p) then Some (i, p) else find_param n r (S i)
  end.

(* the keyword loop of CPython's argument binding, in keyword order *)
Fixpoint bind (own : list sparam) (npos : nat) (haskw : bool) (kws : list str)
  : outcome * list str * list binding :=
  match kws with
  | [] => (COk, [], [])
  | n :: r =>
      match find_param n own 0 with
      | Some (i, p) =>
          if i <? npos then (CMultiple, [], [])
          else let '(o, kw, bs) := bind own npos haskw r in
               (o, kw, (n, ([sp_ty p], of_dflt (sp_def p))) :: bs)
      | None =>
          if haskw then let '(o, kw, bs) := bind own npos haskw r in (o, n :: kw, bs)
          else (CUnexpected, [], [])
      end
  end.

Fixpoint missing (own : list sparam) (i npos : nat) (kws : list str) : bool :=
  match own with
  | [] => false
  | p :: r => ((npos <=? i) && (match sp_def p with DReq => true | _ => false end)
               && negb (mem_str (sp_name p) kws)) || missing r (S i) npos kws
  end.

Definition remove_str (n : str) (l : list str) : list str := filter (fun x => negb (str_eqb x n)) l.

(* the body, with the current contents of the kwargs dict *)
Fixpoint run_body (rec : frame -> nat -> list str -> outcome * list binding)
         (cf : callee -> res (option frame)) (body : list stmt) (kw : list str)
  : outcome * list binding :=
  match body with
  | [] => (COk, [])
  | s :: body' =>
      match s with
      | SPG pop n k z =>
          let here := if mem_str n kw then [(n, (@nil N, RVal k z))] else [] in
          let '(o, bs) := run_body rec cf body' (if pop then remove_str n kw else kw) in
          (o, here ++ bs)
      | SCall c npos given =>
          if existsb (fun g => mem_str g kw) given then (CMultiple, [])
          else
            let kws' := given ++ kw in
            let r := match cf c with
                     | Err _ => (COther, [])
                     | Ok (Some fr') => rec fr' npos kws'
                     | Ok None =>
                         match c with
                         | KSuper | KSuperOf _ | KClass _ =>
                             if Nat.eqb npos 0 && is_nil kws' then (COk, []) else (CObjInit, [])
                         | _ => (COther, [])
                         end
                     end in
            match r with
            | (COk, bs1) =>
                let '(o, bs2) := run_body rec cf body' kw in
                (o, filter (fun b => negb (mem_str (fst b) given)) bs1 ++ bs2)
            | (o, _) => (o, [])
            end
      end
  end.

Definition call_step (rec : frame -> nat -> list str -> outcome * list binding)
           (cf : callee -> res (option frame)) (fr : frame) (npos : nat) (kws : list str)
  : outcome * list binding :=
  let f := fr_fn fr in
  match bind (f_params f) npos (f_kw f) kws with
  | (COk, kw, bs) =>
      if npos_cap f <? npos then (CTooMany, [])
      else if missing (f_params f) 0 npos kws then (CMissing, [])
      else let '(o, bs') := run_body rec cf (f_body f) kw in (o, bs ++ bs')
  | (o, _, _) => (o, [])
  end.

Fixpoint call_frame (fuel : nat) (P : prog) (fr : frame) (npos : nat) (kws : list str)
  : outcome * list binding :=
  match fuel with
  | 0 => (CFuel, [])
  | S f' => call_step (call_frame f' P) (callee_frame Interp f' P fr) fr npos kws
  end.

(* instantiate class c with the keyword names kws *)
Definition call (fuel : nat) (P : prog) (c : nat) (kws : list str) : outcome * list binding :=
  match class_frame Interp fuel P c with
  | Err _ => (COther, [])
  | Ok None => if is_nil kws then (COk, []) else (CObjInit, [])
  | Ok (Some fr) => call_frame fuel P fr 0 kws
  end.

(* ---- the property, decided per program from an offered parameter list ---------------------- *)
(* a keyword was refused: unexpected, swallowed by object.__init__, or clashing with a hard-coded one *)
Definition rejected (o : outcome) : bool :=
  match o with CUnexpected | CObjInit | CMultiple => true | _ => false end.

Definition required_names (offered : list rparam) : list str :=
  names (filter (fun p => is_req (r_def p)) offered).

Definition with_name (base : list str) (n : str) : list str :=
  if mem_str n base then base else base ++ [n].

(* every name of the program text: declared parameters and pop/get keys *)
Definition fn_names (f : fn) : list str :=
  map sp_name (f_params f)
  ++ flat_map (fun s => match s with SPG _ n _ _ => [n] | SCall _ _ g => g end) (f_body f).

Definition universe (P : prog) : list str :=
  flat_map fn_names (p_funcs P)
  ++ flat_map (fun k => (match c_init k with Some f => fn_names f | None => [] end)
                        ++ flat_map (fun mf => fn_names (snd mf)) (c_meths k)) (p_classes P).

Definition binding_matches (p : rparam) (b : binding) : bool :=
  str_eqb (fst b) (r_name p) && list_eqb N.eqb (fst (snd b)) (r_ann p)
  && match snd (snd b), r_def p with
     | RReq, RReq => true
     | RVal k z, RVal k' z' => N.eqb k k' && Z.eqb z z'
     | _, _ => false
     end.

(* sound: calling with all offered names, and with the required ones plus any single offered name, is
   accepted (no keyword refused) *)
Definition sound_b (fuel : nat) (P : prog) (c : nat) (offered : list rparam) : bool :=
  let base := required_names offered in
  negb (rejected (fst (call fuel P c (names offered))))
  && forallb (fun n => negb (rejected (fst (call fuel P c (with_name base n))))) (names offered).

(* complete: a name that is not offered is never received by anything in a successful call *)
Definition complete_b (fuel : nat) (P : prog) (c : nat) (offered : list rparam) : bool :=
  let base := required_names offered in
  negb (outcome_eqb (fst (call fuel P c (names offered))) CMissing)
  && forallb (fun n => mem_str n (names offered)
                       || match call fuel P c (with_name base n) with
                          | (COk, bs) => negb (mem_str n (map fst bs))
                          | _ => true
                          end) (universe P).

(* type and default: an offered, non-conditional parameter that is received in a successful call is
   received by a parameter / pop / get with that annotation and that default *)
Definition tydef_b (fuel : nat) (P : prog) (c : nat) (offered : list rparam) : bool :=
  let base := required_names offered in
  forallb (fun p => match r_def p with
                    | RCond => true
                    | _ => match call fuel P c (with_name base (r_name p)) with
                           | (COk, bs) =>
                               negb (mem_str (r_name p) (map fst bs)) || existsb (binding_matches p) bs
                           | _ => true
                           end
                    end) offered.

Definition exact_b (fuel : nat) (P : prog) (c : nat) (offered : list rparam) : bool :=
  sound_b fuel P c offered && complete_b fuel P c offered && tydef_b fuel P c offered.

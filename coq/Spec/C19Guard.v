(* C19 — the guard of C19_mode_exact and the finding classes (its complement); definitions only, so that
   the correspondence judge does not depend on any proof. *)
From JV Require Import Lib.Base Model.C19PathMode Spec.C19Spec.

(* ---- finding classes = complement of the guard ---------------------------------------------
   1 not-file-missing : "F" in the mode, the path is missing and the documentation accepts
                        (os.stat raises instead)
   2 fc-fifo          : "f" and "c", the path is an existing fifo and the documentation accepts
                        (the "c" block uses isfile without the fifo clause that plain "f" has)
   3 cc-through-file  : "cc", the first existing ancestor is NOT a directory, yet the nearest
                        directory further up is writeable and no r/w/x flag rejects the missing path
                        (the while loop climbs past the non-directory) *)
(* A class whose repair has landed (`fxs`) is no longer outside the guard: the theorem then covers those inputs.
   (`s` = sat fl f, passed in so that the exhaustive table evaluates it once per row.) *)
Definition finding_class_s (s : bool) (fxs : fixes) (fl : mfl) (f : facts) : N :=
  if negb (fx_cc fxs)
     && fcc fl && negb (par_dir f) && negb (anc_dir f) && dir_w f && negb (fr fl || fw fl || fx fl) then 3
  else if negb (fx_F fxs) && fF fl && negb (exists_ f) && s then 1
  else if negb (fx_fifo fxs) && ff fl && fc fl && exists_ f && kind_eqb (kd f) KFifo && s then 2
  else 0.

Definition finding_class_fx (fxs : fixes) (fl : mfl) (f : facts) : N := finding_class_s (sat fl f) fxs fl f.

Definition guard_fx (fxs : fixes) (fl : mfl) (f : facts) : bool := N.eqb (finding_class_fx fxs fl f) 0.

(* what the code does inside each finding class *)
Definition defect_outcome_k (k : N) (s : bool) (fxs : fixes) (fl : mfl) : outcome :=
  match k with
  | 1 => OsErr
  | 2 => PathErr
  | 3 => if fF fl && negb (fx_F fxs) then OsErr else Accept
  | _ => if s then Accept else PathErr
  end%N.

Definition defect_outcome_fx (fxs : fixes) (fl : mfl) (f : facts) : outcome :=
  defect_outcome_k (finding_class_fx fxs fl f) (sat fl f) fxs fl.

(* the pinned tree *)
Definition finding_class := finding_class_fx no_fixes.
Definition guard := guard_fx no_fixes.
Definition defect_outcome := defect_outcome_fx no_fixes.

(* fact records the operating system can produce *)
Definition consistent (f : facts) : bool :=
  (exists_ f || (negb (ar f) && negb (aw f) && negb (ax f) && kind_eqb (kd f) KReg))
  && implb (exists_ f) (par_dir f)
  && implb (par_dir f) (anc_dir f).

Definition local_fl (fl : mfl) : bool := negb (fu fl) && negb (fs fl).

Definition spec_fl (fl : mfl) (f : facts) : outcome := if sat fl f then Accept else PathErr.


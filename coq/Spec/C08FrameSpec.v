(* C08 — the property itself, as a check on what a deep snapshot saw.  Independent of the model's
   operations: it only compares the snapshot taken after the call with the objects that were built
   before it (Model.C08Heap is imported for the datatypes val / cell / oval only).

   "leave their arguments, the parser's declared defaults, the working directory, the environment
    variables and argparse exactly as they found them, whether the call succeeds or fails" *)
From JV Require Import Lib.Base Model.C08Heap.

(* how an object that existed before the call looks when nothing was done to it: its items, with
   every nested container being the very same (pre-existing) object *)
Fixpoint val0 (v : val) : oval :=
  match v with
  | VInt z => OInt z
  | VStr s => OStr s
  | VNone => ONone
  | VTup xs => OTup (map val0 xs)
  | VRef l => OOld l
  end.
Definition cell0 (c : cell) : oval :=
  match c with
  | CList xs => ONewList (map val0 xs)
  | CDict kvs => ONewDict (map (fun kv => (fst kv, val0 (snd kv))) kvs)
  | CNs kvs => ONewNs (map (fun kv => (fst kv, val0 (snd kv))) kvs)
  end.
Definition snapshot0 (h : heap) : list oval := map cell0 h.

(* does a returned structure contain one of the pre-existing objects? *)
Fixpoint has_old (o : oval) : bool :=
  match o with
  | OOld _ => true
  | OTup xs | ONewList xs => existsb has_old xs
  | ONewDict kvs | ONewNs kvs => existsb (fun kv => has_old (snd kv)) kvs
  | _ => false
  end.

(* after      : content of every pre-existing object (arguments and declared defaults) after the call
   globals_ok : per observed global (cwd, argparse.Namespace, the context variables, os.environ): unchanged?
   defaults_ok: get_defaults() before == get_defaults() after
   fresh_result: get_defaults must hand out a tree that shares nothing with the declared defaults *)
Definition spec_ok (h0 : heap) (after : list oval) (globals_ok : list bool) (defaults_ok : bool)
           (must_be_fresh : bool) (result : oval) : bool :=
  list_eqb oval_eqb after (snapshot0 h0)
  && forallb (fun b => b) globals_ok
  && defaults_ok
  && (if must_be_fresh then negb (has_old result) else true).

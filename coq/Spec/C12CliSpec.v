(* C12 — reference semantics of auto_cli, in the words of the property:

     the selected component is called exactly once, each parameter bound to the value given on the
     command line or in the config (the LAST thing said about it, converted to the declared type),
     else to the signature default; parameters without default are required; Optional parameters
     without default are options defaulting to None; for a class the constructor and the chosen
     method each receive only their own parameters; the component's return value is returned.

   No namespace, no popping of keys, no dotted-key dispatch: the state of the walk is the list of
   assignments seen so far.  Independent of Model/C12Cli.v (only the syntax is shared). *)
From JV Require Import Lib.Base Lib.C12Syntax.

Inductive outcome :=
| Done (log : list call) (ret : retv)
| Rejected      (* the input is not a valid command line for the component(s): exit 2 *)
| Refused       (* auto_cli refuses the component(s) when building the parser: ValueError *)
| Crashed.      (* never demanded by the spec *)

(* ---- what a signature means on the command line ---------------------------------------------- *)
Definition sp_is_opt (t : ty) : bool := match t with TOpt _ => true | _ => false end.
Definition sp_private (n : str) : bool := match n with 95%N :: _ => true | _ => false end.

(* default: the signature default; an Optional parameter without default defaults to None; a dataclass-typed
   parameter without default stands for its fields, which all have defaults (ty_default) *)
Definition sp_default (p : param) : option value :=
  match p_default p with
  | Some v => Some v
  | None => if sp_is_opt (p_ty p) then Some VNone else ty_default (p_ty p)
  end.
(* required iff no default *)
Definition sp_required (p : param) : bool := match sp_default p with None => true | Some _ => false end.
(* every parameter is offered on the command line, except private ones (_x) that have a default in the
   signature: those are left to that default ("Optional parameters without default become options") *)
Definition sp_offered (p : param) : bool :=
  negb (sp_private (p_name p)) || match p_default p with None => true | Some _ => false end.
(* declared type; `x: T = None` declares Optional[T] *)
Definition sp_ty (p : param) : ty :=
  match sp_default p with
  | Some VNone => if sp_is_opt (p_ty p) then p_ty p else TOpt (p_ty p)
  | _ => p_ty p
  end.

Fixpoint sp_find (n : str) (s : sig) : option param :=
  match s with
  | [] => None
  | p :: s' => if str_eqb n (p_name p) then Some p else sp_find n s'
  end.

(* the last thing said about a name *)
Fixpoint last_asg (n : str) (asg : list (str * raw)) : option raw :=
  match asg with
  | [] => None
  | (k, r) :: asg' =>
      match last_asg n asg' with
      | Some r' => Some r'
      | None => if str_eqb n k then Some r else None
      end
  end.

Inductive slevel :=
| SFn (n : str) (s : sig)
| SCls (n : str) (i : sig) (ms : list (str * sig))
| SMeth (cn m : str) (s : sig)
| SGrp (kids : list (str * comp)).

Definition slevel_of (c : comp) : option slevel :=
  match c with
  | CFn n s => Some (SFn n s)
  | CCls n i ms => Some (SCls n i ms)
  | CGrp kids => Some (SGrp kids)
  | CHelp => None
  end.

Definition sl_sig (lv : slevel) : sig :=
  match lv with SFn _ s => s | SCls _ i _ => i | SMeth _ _ s => s | SGrp _ => [] end.

(* the subcommands of a level *)
Definition sl_sub (lv : slevel) (m : str) : option slevel :=
  match lv with
  | SCls n _ ms => match assoc m ms with Some s => Some (SMeth n m s) | None => None end
  | SGrp kids => if str_eqb m s__help then None
                 else match assoc m kids with Some c => slevel_of c | None => None end
  | _ => None
  end.
Definition sl_has_subs (lv : slevel) : bool :=
  match lv with SCls _ _ (_ :: _) => true | SGrp _ => true | _ => false end.

Section Spec.
  Variable conv : ty -> raw -> option value.
  Variable as_pos : bool.

  Definition sp_positional (p : param) : bool := sp_required p && as_pos.
  Definition offers (s : sig) : bool := existsb sp_offered s.

  (* does the level accept --config?  the top level always; below, a level that offers no parameter
     at all does not; a method that has its own `config` parameter does not *)
  Definition sl_has_config (top : bool) (lv : slevel) : bool :=
    match lv with
    | SFn _ s => top || offers s
    | SCls _ i ms => top || offers i || existsb (fun ms => offers (snd ms)) ms
    | SMeth _ _ s => negb (has_param s_config s) && offers s
    | SGrp _ => true
    end.

  (* value finally bound to p *)
  Definition sp_value (asg : list (str * raw)) (p : param) : option value :=
    if sp_offered p then
      match last_asg (p_name p) asg with
      | Some r => conv (sp_ty p) r
      | None => sp_default p
      end
    else sp_default p.

  Fixpoint sp_bind (s : sig) (asg : list (str * raw)) : option (list (str * value)) :=
    match s with
    | [] => Some []
    | p :: s' =>
        match sp_value asg p, sp_bind s' asg with
        | Some v, Some b => Some ((p_name p, v) :: b)
        | _, _ => None
        end
    end.

  (* every required parameter has been given a (non-null) value *)
  Definition sp_complete (s : sig) (asg : list (str * raw)) : bool :=
    forallb (fun p => negb (sp_required p) ||
                      match sp_value asg p with Some VNone | None => false | Some _ => true end) s.

  Definition sp_finish (s : sig) (asg : list (str * raw)) : option (list (str * value)) :=
    if sp_complete s asg then sp_bind s asg else None.

  (* one assignment name := r, by option (positional = false) or by config key (either kind) *)
  Definition sp_assignable (s : sig) (by_option : bool) (n : str) (r : raw) : bool :=
    match sp_find n s with
    | Some p => sp_offered p && negb (by_option && sp_positional p) &&
                match conv (sp_ty p) r with Some _ => true | None => false end
    | None => false
    end.

  (* a config document at a level: leaves are assignments, sections belong to subcommands *)
  Fixpoint sp_doc (lv : slevel) (d : doc) (asg : list (str * raw)) (secs : list (str * doc))
    : option (list (str * raw) * list (str * doc)) :=
    match d with
    | [] => Some (asg, secs)
    | (k, CLeaf r) :: d' =>
        if sp_assignable (sl_sig lv) false k r then sp_doc lv d' (asg ++ [(k, r)]) secs else None
    | (k, CSec kids) :: d' =>
        match sp_find k (sl_sig lv), sl_sub lv k with
        | None, Some _ => sp_doc lv d' asg (secs ++ [(k, kids)])
        | _, _ => None
        end
    end.

  Fixpoint sp_docs (lv : slevel) (ds : list doc) (asg : list (str * raw)) (secs : list (str * doc))
    : option (list (str * raw) * list (str * doc)) :=
    match ds with
    | [] => Some (asg, secs)
    | d :: ds' => match sp_doc lv d asg secs with
                  | Some (asg', secs') => sp_docs lv ds' asg' secs'
                  | None => None
                  end
    end.

  Definition secs_for (m : str) (secs : list (str * doc)) : list doc :=
    flat_map (fun p => if str_eqb (fst p) m then [snd p] else []) secs.

  Definition shift (r : retv) : retv := match r with RetCall i => RetCall (S i) | RetInstance => RetInstance end.

  Fixpoint sp_walk (top : bool) (lv : slevel) (asg : list (str * raw)) (npos : nat)
           (secs : list (str * doc)) (toks : list tok) : option (list call * retv) :=
    match toks with
    | [] =>
        match lv with
        | SFn n s => option_map (fun b => ([([n], b)], RetCall 0)) (sp_finish s asg)
        | SCls n i [] => option_map (fun b => ([([n; s__init__], b)], RetInstance)) (sp_finish i asg)
        | SMeth cn m s => option_map (fun b => ([([cn; m], b)], RetCall 0)) (sp_finish s asg)
        | _ => None                       (* a subcommand must be chosen *)
        end
    | KOpt n r :: toks' =>
        if sp_assignable (sl_sig lv) true n r then sp_walk top lv (asg ++ [(n, r)]) npos secs toks' else None
    | KCfg d :: toks' =>
        if sl_has_config top lv then
          match sp_doc lv d asg secs with
          | Some (asg', secs') => sp_walk top lv asg' npos secs' toks'
          | None => None
          end
        else None
    | KPos r :: toks' =>
        match nth_error (filter (fun p => sp_offered p && sp_positional p) (sl_sig lv)) npos with
        | Some p =>
            match conv (sp_ty p) r with
            | Some _ => sp_walk top lv (asg ++ [(p_name p, r)]) (S npos) secs toks'
            | None => None
            end
        | None =>
            (* the positionals are filled: this word chooses the subcommand, the rest of the line is its *)
            match r with
            | RStr m =>
                match sl_sub lv m with
                | Some lv' =>
                    match sp_docs lv' (secs_for m secs) [] [] with
                    | Some (asg', secs') =>
                        match lv with
                        | SCls n i _ =>
                            match sp_finish i asg, sp_walk false lv' asg' 0 secs' toks' with
                            | Some b, Some (log, ret) => Some (([n; s__init__], b) :: log, shift ret)
                            | _, _ => None
                            end
                        | _ => sp_walk false lv' asg' 0 secs' toks'
                        end
                    | None => None
                    end
                | None => None
                end
            | _ => None
            end
        end
    end.

  (* ---- which components auto_cli may refuse: a parameter called like an option the CLI itself
          defines at that level (help everywhere; config and print_config wherever the level has the
          config option while it is built), a subcommand called `subcommand`, a top-level "_help",
          nothing to run at all ---- *)
  Definition named (l : list str) (s : sig) : bool := existsb (fun p => mem_str (p_name p) l) s.

  Fixpoint sp_refuses (c : comp) : bool :=
    match c with
    | CFn _ s => named [s_help; s_config; s_print_config] s
    | CCls _ i ms =>
        named [s_help; s_config; s_print_config] i ||
        existsb (fun ms => named (s_help :: (if has_param s_config (snd ms) then [] else [s_print_config])) (snd ms)) ms
    | CGrp kids =>
        mem_str s_subcommand (map fst kids) ||
        (fix go (l : list (str * comp)) : bool :=
           match l with [] => false | (_, c') :: l' => sp_refuses c' || go l' end) kids
    | CHelp => false
    end.

  Definition own_name (c : comp) : str := match c with CFn n _ => n | CCls n _ _ => n | _ => [] end.

  Definition sp_top (cs : components) : option comp :=
    match cs with
    | One c => Some c
    | Lst [] => None
    | Lst [c] => Some c
    | Lst l => Some (CGrp (map (fun c => (own_name c, c)) l))
    | Dct [] => None
    | Dct kids => if mem_str s__help (map fst kids) then None else Some (CGrp kids)
    end.

  Definition sp_run (cs : components) (toks : list tok) : option (list call * retv) :=
    match sp_top cs with
    | Some c =>
        match slevel_of c with
        | Some lv => sp_walk true lv [] 0 [] toks
        | None => None
        end
    | None => None
    end.

  Definition spec (cs : components) (toks : list tok) : outcome :=
    match sp_top cs with
    | None => Refused
    | Some c =>
        if sp_refuses c then Refused
        else match sp_run cs toks with
             | Some (log, ret) => Done log ret
             | None => Rejected
             end
    end.
End Spec.

(* C19 — reference semantics (DESIGN.md Appendix A.5). Shares only the data types (mfl, facts, outcome,
   node, ...) with the model; every judgement below is written from the documentation of Path
   (class docstring, _util.py:491-510), not from the code of __init__. *)
From JV Require Import Lib.Base Model.C19PathMode.

(* ---- documented mode language: flags fdrwxcusFDRWX, "c" at most twice, every other flag at most
   once, and never f with d, u with d, s with d ------------------------------------------------ *)
Definition doc_alphabet : list N := [102; 100; 114; 119; 120; 99; 117; 115; 70; 68; 82; 87; 88]%N.
Definition doc_max_default : N := 1.
Definition doc_max_special : list (N * N) := [(99, 2)]%N.
Definition doc_exclusions : list (N * N) := [(102, 100); (117, 100); (115, 100)]%N.

Definition spec_check_mode : str -> bool :=
  check_mode_with doc_alphabet doc_max_default doc_max_special doc_exclusions.

(* ---- what each flag demands of the file system ---------------------------------------------- *)
Inductive flag := Gf | Gd | Gr | Gw | Gx | Gc | GF | GD | GR | GW | GX.
Definition all_flags : list flag := [Gf; Gd; Gr; Gw; Gx; Gc; GF; GD; GR; GW; GX].

Definition flag_in (g : flag) (fl : mfl) : bool :=
  match g with
  | Gf => ff fl | Gd => fd fl | Gr => fr fl | Gw => fw fl | Gx => fx fl | Gc => fc fl
  | GF => fF fl | GD => fD fl | GR => fR fl | GW => fW fl | GX => fX fl
  end.

(* "file": a regular file or a fifo (something that can be opened and read/written as a stream) *)
Definition is_file (f : facts) : bool :=
  exists_ f && match kd f with KReg | KFifo => true | _ => false end.
Definition is_dir (f : facts) : bool :=
  exists_ f && match kd f with KDir => true | _ => false end.

Definition holds (fl : mfl) (g : flag) (f : facts) : bool :=
  match g with
  (* with "c" the path need not exist, but if it does it must be of the requested kind *)
  | Gf => if fc fl then implb (exists_ f) (is_file f) else is_file f
  | Gd => if fc fl then implb (exists_ f) (is_dir f) else is_dir f
  | Gr => ar f
  | Gw => aw f
  | Gx => ax f
  (* one "c": the parent directory exists and is writeable; "cc": the missing part of the path can
     be created, i.e. the first existing ancestor is a writeable directory *)
  | Gc => if fcc fl then anc_dir f && dir_w f else par_dir f && dir_w f
  (* upper case = "not": the negation of the test, a missing path satisfying every negation *)
  | GF => negb (is_file f)
  | GD => negb (is_dir f)
  | GR => negb (ar f)
  | GW => negb (aw f)
  | GX => negb (ax f)
  end.

(* sat mode facts := forall flag in mode, holds flag facts *)
Definition sat (fl : mfl) (f : facts) : bool :=
  forallb (fun g => implb (flag_in g fl) (holds fl g f)) all_flags.

(* What Path(path, mode) must do: ValueError for an invalid mode; "-" is standard input/output and is
   taken as is; otherwise accept iff sat, and the only error is PathError. *)
Definition spec_outcome (m : str) (stdio : bool) (f : facts) : outcome :=
  if negb (spec_check_mode m) then ValErr
  else if stdio then Accept
  else if sat (flags_of m) f then Accept else PathErr.

(* a string with a NUL character names nothing in any file system: no mode is satisfied by it — not even the
   empty mode or a negation ("not a file"), which are statements about what the file system answers for a path *)
Definition spec_init (m given : str) (f : facts) : outcome :=
  if negb (spec_check_mode m) then ValErr
  else if existsb (N.eqb 0) given then PathErr
  else spec_outcome m (str_eqb given [45]%N) f.

(* relative = the spelling given; absolute = an absolute path that is either the (user-expanded)
   spelling itself or that spelling below the working directory *)
Definition spec_names_ok (home cwd given rel ab : str) : bool :=
  let e := expanduser home given in
  str_eqb rel given && is_abs ab &&
  (if is_abs e then str_eqb ab e
   else str_eqb ab (cwd ++ slash :: e) || (ends_slash cwd && str_eqb ab (cwd ++ e))).

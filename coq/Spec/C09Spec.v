(* C09 — reference semantics: the answer of a call on a parser with ANY history is the answer of the
   same call on a freshly built identical parser in a fresh process.  Observed answers are
   (kind, digest of result | ArgumentError text | exit status + stdout + stderr). *)
From JV Require Import Lib.Base.

Definition answer := (N * str)%type.   (* kind: 0 ok, 1 ArgumentError, 2 other exception, 3 exit 0, 4 exit 2, 9 other *)

Definition same_answer (reused fresh : answer) : bool :=
  N.eqb (fst reused) (fst fresh) && str_eqb (snd reused) (snd fresh).

(* C05 — the reference semantics, independent of the model: one setting was pushed through several channels
   (command line, environment, object, documents with nested / dotted keys in JSON and YAML block form) under
   several parser modes; the property demands that either every one of them stored the same value for the key,
   or every one rejected the setting (a crash — an exception other than the documented ArgumentError — is never
   acceptable).  `docs_read_as` (every document loader handed back the setting itself) is stricter than the
   property — a loader may re-render a number that the type hint converts back — and is kept for diagnostics. *)
From JV Require Import Lib.Base Model.TyVal Model.Ty Model.TyLoader.

Definition not_crashed (o : obs) : bool := match o with Crashed => false | _ => true end.

Definition all_agree (os : list obs) : bool :=
  forallb not_crashed os &&
  match os with
  | [] => true
  | o :: r => forallb (obs_eqb o) r
  end.

Definition docs_read_as (v : val) (ls : list lres) : bool :=
  forallb (fun l => match l with LVal x => val_eqb x v | _ => false end) ls.

Definition c05_spec (os : list obs) : bool := all_agree os.

(* C14 — reference semantics the property is judged against.  Short, executable, and independent of
   the adapt/instantiate functions of the model: it only shares the data types, the description of
   the generated module (import_obj, is_subclass, find_param) and the ordered-dict helpers.

   The property, sentence by sentence:
   (S1) an accepted value names, by class_path, something that imports to a subclass of the declared
        type or a callable returning one, and its init_args are valid for that very class
        (every key a parameter of it, every value of the parameter's type, recursively; required
        parameters present)                                                        -> `valid`
   (S2) for an instantiable class, instantiate_classes returns an instance of exactly the named class,
        constructed once with exactly init_args + dict_kwargs, nested class arguments built first and
        passed as objects: the constructor log, read back as object trees (`trees`), shows the object
        the configuration denotes (`denote`)                                       -> `inst_ok`
        A TypeError is allowed only for an abstract class or for a dict_kwargs key the callable cannot
        take (dict_kwargs are documented as not validated)              -> `instantiable`, `dk_accepted`
   (S3) short forms denote the same configuration as the explicit form             -> `expand_steps`
        (the judge demands equal observations for a case and its expansion)
   (S4) a fully explicit, single valid spec is accepted (so that "reject everything" is not a model
        of the property)                                                           -> `explicit_valid` *)
From JV Require Import Lib.Base Model.C14ClassSpec.

(* the class that gets built and the parameters of the callable named by a class_path *)
Definition target (F : family) (cp : str) : option (cls * list param) :=
  match import_obj F cp with
  | Some (ICls k) => Some (k, c_params k)
  | Some (IFun f) => match find_cls F (f_ret f) with
                     | Some k => Some (k, f_params f)
                     | None => None
                     end
  | _ => None
  end.

(* ---------- (S1) ---------------------------------------------------------------------------- *)
(* value `x` is of parameter type `t` (the class case is the recursive call below) *)
Fixpoint valid (F : family) (base : str) (v : value) {struct v} : bool :=
  match v with
  | VSpec cp ia dk =>
      match target F cp with
      | Some (k, ps) =>
          is_subclass F (c_name k) base
          && forallb (fun kv =>
               match find_param ps (fst kv) with
               | Some p => match p_ty p with
                           | PInt => match snd kv with VInt _ => true | _ => false end
                           | PStr => match snd kv with VStr _ => true | _ => false end
                           | PCls c => valid F c (snd kv)
                           | POpt c => match snd kv with VNull => true | _ => valid F c (snd kv) end
                           end
               | None => false
               end) ia
          && forallb (fun p => match p_def p with
                               | Some _ => true
                               | None => ahas (p_name p) ia
                               end) ps
          (* no parameter is smuggled past the validation through dict_kwargs *)
          && forallb (fun kv => match find_param ps (fst kv) with Some _ => false | None => true end) dk
      | None => false
      end
  | _ => false
  end.

(* ---------- (S2) ---------------------------------------------------------------------------- *)
(* no abstract class anywhere in the configuration *)
Fixpoint instantiable (F : family) (v : value) {struct v} : bool :=
  match v with
  | VSpec cp ia _ =>
      match target F cp with
      | Some (k, _) => negb (c_abstract k) && forallb (fun kv => instantiable F (snd kv)) ia
      | None => false
      end
  | _ => true
  end.

(* dict_kwargs are, by documented design, handed to the constructor without validation ("arguments
   that will not be validated during parsing, but will be used for class instantiation").  The call
   Class( **init_args, **dict_kwargs ) is well-formed for CPython only if the callable can take every
   dict_kwargs key: a class with a var-keyword parameter (the generated functions have none).
   Where this fails the TypeError is raised by the call the property prescribes, not by jsonargparse. *)
Fixpoint dk_accepted (F : family) (v : value) {struct v} : bool :=
  match v with
  | VSpec cp ia dk =>
      match import_obj F cp with
      | Some (ICls k) => (c_varkw k || match dk with [] => true | _ => false end)
                         && forallb (fun kv => dk_accepted F (snd kv)) ia
      | Some (IFun f) => match dk with [] => true | _ => false end
                         && forallb (fun kv => dk_accepted F (snd kv)) ia
      | _ => false
      end
  | _ => true
  end.

(* number of spec nodes = number of constructor calls the configuration asks for *)
Fixpoint nodes (v : value) {struct v} : nat :=
  match v with
  | VSpec _ ia _ => S (fold_right (fun kv a => nodes (snd kv) + a) 0 ia)
  | _ => 0
  end.

(* object trees *)
Inductive otree := TInt (z : Z) | TStr (s : str) | TNull | TObj (c : str) (kw : list (str * otree)) | TBad.

Definition otree_of_simple (v : value) : otree :=
  match v with VInt z => TInt z | VStr s => TStr s | _ => TNull end.

(* what a generated constructor records: its parameters in signature order after call binding (the
   default where the keyword is absent), then the keywords caught by **kw *)
Definition bound_tree (ps : list param) (kw : list (str * otree)) : list (str * otree) :=
  map (fun p => (p_name p, match aget (p_name p) kw with
                           | Some t => t
                           | None => match p_def p with Some d => otree_of_simple d | None => TNull end
                           end)) ps
  ++ filter (fun kt => match find_param ps (fst kt) with Some _ => false | None => true end) kw.

(* the object a configuration denotes: an instance of exactly the class named by class_path (the
   class a named function returns), called with exactly init_args updated by dict_kwargs, class-typed
   arguments being the objects their own configurations denote *)
Fixpoint denote (F : family) (v : value) {struct v} : otree :=
  match v with
  | VInt z => TInt z
  | VStr s => TStr s
  | VNull => TNull
  | VSpec cp ia dk =>
      match target F cp with
      | Some (k, _) =>
          TObj (c_name k)
               (bound_tree (c_params k)
                  (aupdate (map (fun kv => (fst kv, denote F (snd kv))) ia)
                           (map (fun kv => (fst kv, otree_of_simple (snd kv))) dk)))
      | None => TBad
      end
  end.

(* reading a constructor log: entry number i may only refer to entries < i (children are built
   first); a forward or dangling reference reads as TBad *)
Definition arg_tree (ts : list otree) (a : arg) : otree :=
  match a with
  | AInt z => TInt z
  | AStr s => TStr s
  | ANull => TNull
  | ARef i => nth i ts TBad
  end.

Fixpoint trees_from (log : list entry) (acc : list otree) : list otree :=
  match log with
  | [] => acc
  | (c, kw) :: log' =>
      trees_from log' (acc ++ [TObj c (map (fun ka => (fst ka, arg_tree acc (snd ka))) kw)])
  end.
Definition trees (log : list entry) : list otree := trees_from log [].

Fixpoint otree_eqb (a b : otree) {struct a} : bool :=
  match a, b with
  | TInt x, TInt y => Z.eqb x y
  | TStr x, TStr y => str_eqb x y
  | TNull, TNull => true
  | TObj c kw, TObj c' kw' =>
      str_eqb c c' &&
      (fix go (l : list (str * otree)) (l' : list (str * otree)) {struct l} : bool :=
         match l, l' with
         | [], [] => true
         | kt :: r, kt' :: r' => str_eqb (fst kt) (fst kt') && otree_eqb (snd kt) (snd kt') && go r r'
         | _, _ => false
         end) kw kw'
  | _, _ => false   (* TBad equals nothing, not even itself *)
  end.

Definition refs_of (kw : list (str * arg)) : list nat :=
  flat_map (fun ka => match snd ka with ARef i => [i] | _ => [] end) kw.

(* children before parents: entry number i only refers to entries < i *)
Fixpoint backward (i : nat) (log : list entry) : bool :=
  match log with
  | [] => true
  | (_, kw) :: log' => forallb (fun j => Nat.ltb j i) (refs_of kw) && backward (S i) log'
  end.

Fixpoint nodupb (l : list nat) : bool :=
  match l with [] => true | x :: l' => negb (mem_nat x l') && nodupb l' end.

Definition inst_ok (F : family) (v : value) (root : arg) (log : list entry) : bool :=
  Nat.eqb (length log) (nodes v)                                 (* one constructor call per spec node *)
  && backward 0 log                                              (* children first *)
  && nodupb (match root with ARef i => [i] | _ => [] end ++ flat_map (fun e => refs_of (snd e)) log)
                                                                 (* every object is handed on once *)
  && otree_eqb (arg_tree (trees log) root) (denote F v).         (* exactly the configured object *)

(* ---------- (S3) the explicit form of a sequence of argv items -------------------------------- *)
Definition resolve_short (F : family) (base nm : str) : str :=
  if has_dot nm then nm
  else match filter (fun k => str_eqb (c_name k) nm && is_subclass F (c_name k) base
                                && negb (c_abstract k) && negb (is_private (path_of F (c_name k)))) (fam_classes F) with
       | [k] => if ambiguous F base nm then nm   (* two candidates: the name denotes no class *)
                else path_of F (c_name k)
       | _ => nm
       end.

Definition expand_dict (F : family) (base : str) (cur : option str) (d : list (str * raw))
  : input * option str :=
  match aget s_class_path d with
  | Some (RStr cp) =>
      let p := resolve_short F base cp in
      (IRaw (RDict (map (fun kv => if str_eqb (fst kv) s_class_path then (fst kv, RStr p) else kv) d)), Some p)
  | Some _ => (IRaw (RDict d), cur)
  | None =>
      match cur with
      | None => (IRaw (RDict d), cur)
      | Some c =>
          if ahas s_init_args d || ahas s_dict_kwargs d
          then (IRaw (RDict ((s_class_path, RStr c) :: d)), cur)
          else (IRaw (RDict [(s_class_path, RStr c); (s_init_args, RDict d)]), cur)
      end
  end.

(* a dotted key below the first component, as the dict it abbreviates:
   p.q.r = v   ~   {init_args: {p: {init_args: {q: {init_args: {r: v}}}}}}   (init_args. optional at each level,
   dict_kwargs.k addresses the dict_kwargs entry) *)
Fixpoint nest (fuel : nat) (path : list str) (r : raw) : raw :=
  match fuel with
  | 0 => r
  | S f =>
      match path with
      | [] => r
      | [k] => RDict [(s_init_args, RDict [(k, r)])]
      | k :: rest =>
          if str_eqb k s_dict_kwargs then RDict [(s_dict_kwargs, RDict [(join_dots rest, r)])]
          else RDict [(s_init_args, RDict [(k, nest f (strip_ia rest) r)])]
      end
  end.

Definition expand1 (F : family) (base : str) (cur : option str) (i : input) : input * option str :=
  match i with
  | INested path r =>
      match strip_ia path with
      | [] => (i, cur)
      | [k] => expand_dict F base cur [(k, r)]
      | k :: rest =>
          if str_eqb k s_dict_kwargs
          then expand_dict F base cur [(s_dict_kwargs, RDict [(join_dots rest, r)])]
          else expand_dict F base cur [(s_init_args, RDict [(k, nest 20 (strip_ia rest) r)])]
      end
  | IRaw (RStr s) => let p := resolve_short F base s in (IRaw (RDict [(s_class_path, RStr p)]), Some p)
  | IRaw (RDict d) => expand_dict F base cur d
  | _ => (i, cur)
  end.

Fixpoint expand_from (F : family) (base : str) (cur : option str) (steps : list input) : list input :=
  match steps with
  | [] => []
  | i :: steps' => let '(e, cur') := expand1 F base cur i in e :: expand_from F base cur' steps'
  end.

Definition start_class (F : family) (base : str) (dflt : option value) : option str :=
  match dflt with
  | Some (VSpec cp _ _) => Some cp
  | _ => if cls_abstract F base then None else Some (path_of F base)
  end.

Definition expand_steps (F : family) (base : str) (dflt : option value) (steps : list input) : list input :=
  expand_from F base (start_class F base dflt) steps.

(* ---------- (S4) fully explicit single spec: class paths dotted, dict form throughout ---------- *)
Fixpoint explicit_valid (n : nat) (F : family) (base : str) (r : raw) : bool :=
  match n with
  | 0 => false
  | S n' =>
      match r with
      | RDict d =>
          spec_keys_only d &&
          match aget s_class_path d, aget s_dict_kwargs d with
          | Some (RStr cp), None =>
              match target F cp with
              | Some (k, ps) =>
                  has_dot cp && is_subclass F (c_name k) base &&
                  match aget s_init_args d with
                  | Some (RDict ia) =>
                      forallb (fun kv =>
                        match find_param ps (fst kv) with
                        | Some p => match p_ty p, snd kv with
                                    | PInt, RInt _ => true
                                    | PStr, RStr _ => true
                                    | PCls c, w => explicit_valid n' F c w
                                    | POpt c, RNull => true
                                    | POpt c, w => explicit_valid n' F c w
                                    | _, _ => false
                                    end
                        | None => false
                        end) ia
                      && forallb (fun p => match p_def p with Some _ => true | None => ahas (p_name p) ia end) ps
                  | None => forallb (fun p => match p_def p with Some _ => true | None => false end) ps
                  | _ => false
                  end
              | None => false
              end
          | _, _ => false
          end
      | _ => false
      end
  end.

(* C14 — reference semantics the property is judged against.  Short, executable, and independent of
   the adapt/instantiate functions of the model: it only shares the data types, the description of
   the generated module (import_obj, is_subclass, find_param) and the ordered-dict helpers.

   The property, sentence by sentence:
   (S1) an accepted value names, by class_path, something that imports to a subclass of the declared
        type or a callable returning one, and its init_args are valid for that very class
        (every key a parameter of it, every value of the parameter's type, recursively; required
        parameters present)                                                        -> `valid`
   (S2) for an instantiable class, instantiate_classes returns an instance of exactly the named class,
        constructed once with exactly init_args + dict_kwargs, nested class arguments built first and
        passed as objects                                                          -> `inst_ok`
   (S3) short forms denote the same configuration as the explicit form             -> `expand_steps`
        (the judge demands equal observations for a case and its expansion)
   (S4) a fully explicit, single valid spec is accepted (so that "reject everything" is not a model
        of the property)                                                           -> `explicit_valid` *)
From JV Require Import Lib.Base Model.C14ClassSpec.

(* the class that gets built and the parameters of the callable named by a class_path *)
Definition target (F : family) (cp : str) : option (cls * list param) :=
  match import_obj F cp with
  | Some (ICls k) => Some (k, c_params k)
  | Some (IFun f) => match find_cls F (f_ret f) with
                     | Some k => Some (k, f_params f)
                     | None => None
                     end
  | _ => None
  end.

(* ---------- (S1) ---------------------------------------------------------------------------- *)
Fixpoint valid (n : nat) (F : family) (base : str) (v : value) : bool :=
  match n with
  | 0 => false
  | S n' =>
      match v with
      | VSpec cp ia dk =>
          match target F cp with
          | Some (k, ps) =>
              is_subclass F (c_name k) base
              && forallb (fun kv =>
                   match find_param ps (fst kv) with
                   | Some p => match p_ty p, snd kv with
                               | PInt, VInt _ => true
                               | PStr, VStr _ => true
                               | PCls c, w => valid n' F c w
                               | POpt c, VNull => true
                               | POpt c, w => valid n' F c w
                               | _, _ => false
                               end
                   | None => false
                   end) ia
              && forallb (fun p => match p_def p with
                                   | Some _ => true
                                   | None => ahas (p_name p) ia
                                   end) ps
          | None => false
          end
      | _ => false
      end
  end.

(* ---------- (S2) ---------------------------------------------------------------------------- *)
(* no abstract class anywhere in the configuration *)
Fixpoint instantiable (n : nat) (F : family) (v : value) : bool :=
  match n with
  | 0 => false
  | S n' =>
      match v with
      | VSpec cp ia _ =>
          match target F cp with
          | Some (k, _) => negb (c_abstract k) && forallb (fun kv => instantiable n' F (snd kv)) ia
          | None => false
          end
      | _ => true
      end
  end.

(* every dict_kwargs key is something the callable can take: a var-keyword class *)
Fixpoint dk_accepted (n : nat) (F : family) (v : value) : bool :=
  match n with
  | 0 => false
  | S n' =>
      match v with
      | VSpec cp ia dk =>
          match import_obj F cp with
          | Some (ICls k) => (c_varkw k || match dk with [] => true | _ => false end)
                             && forallb (fun kv => dk_accepted n' F (snd kv)) ia
          | Some (IFun f) => match dk with [] => true | _ => false end
                             && forallb (fun kv => dk_accepted n' F (snd kv)) ia
          | _ => false
          end
      | _ => true
      end
  end.

Fixpoint nodes (n : nat) (v : value) : nat :=
  match n with
  | 0 => 0
  | S n' => match v with
            | VSpec _ ia _ => S (fold_left (fun a kv => a + nodes n' (snd kv)) ia 0)
            | _ => 0
            end
  end.

(* the object tree a constructor log denotes *)
Inductive otree := TInt (z : Z) | TStr (s : str) | TNull | TObj (c : str) (kw : list (str * otree)) | TBad.

Fixpoint decode (n : nat) (log : list entry) (a : arg) : otree :=
  match n with
  | 0 => TBad
  | S n' =>
      match a with
      | AInt z => TInt z
      | AStr s => TStr s
      | ANull => TNull
      | ARef i => match nth_error log i with
                  | Some (c, kw) => TObj c (map (fun ka => (fst ka, decode n' log (snd ka))) kw)
                  | None => TBad
                  end
      end
  end.

Definition otree_of_simple (v : value) : otree :=
  match v with VInt z => TInt z | VStr s => TStr s | _ => TNull end.

(* does the decoded object `t` show exactly the configuration `v`?  class = the class built; every
   configured keyword (init_args overridden by dict_kwargs) is there with the right (recursively
   matching) value; any other keyword the constructor saw is a parameter left at its default *)
Fixpoint tree_ok (n : nat) (F : family) (v : value) (t : otree) : bool :=
  match n with
  | 0 => false
  | S n' =>
      match v, t with
      | VInt z, TInt z' => Z.eqb z z'
      | VStr s, TStr s' => str_eqb s s'
      | VNull, TNull => true
      | VSpec cp ia dk, TObj c kw =>
          match target F cp with
          | Some (k, _) =>
              str_eqb c (c_name k)
              && forallb (fun kv => match aget (fst kv) dk with
                                    | Some _ => true      (* overridden by dict_kwargs *)
                                    | None => match aget (fst kv) kw with
                                              | Some t' => tree_ok n' F (snd kv) t'
                                              | None => false
                                              end
                                    end) ia
              && forallb (fun kv => match aget (fst kv) kw with
                                    | Some t' => tree_ok n' F (snd kv) t'
                                    | None => false
                                    end) dk
              && forallb (fun kt => ahas (fst kt) ia || ahas (fst kt) dk
                                    || match find_param (c_params k) (fst kt) with
                                       | Some p => match p_def p, snd kt with
                                                   | Some (VInt z), TInt z' => Z.eqb z z'
                                                   | Some (VStr s), TStr s' => str_eqb s s'
                                                   | Some VNull, TNull => true
                                                   | _, _ => false
                                                   end
                                       | None => false
                                       end) kw
          | None => false
          end
      | _, _ => false
      end
  end.

Definition refs_of (kw : list (str * arg)) : list nat :=
  flat_map (fun ka => match snd ka with ARef i => [i] | _ => [] end) kw.

(* children before parents: entry number i only refers to entries < i *)
Fixpoint backward (i : nat) (log : list entry) : bool :=
  match log with
  | [] => true
  | (_, kw) :: log' => forallb (fun j => Nat.ltb j i) (refs_of kw) && backward (S i) log'
  end.

Fixpoint nodupb (l : list nat) : bool :=
  match l with [] => true | x :: l' => negb (mem_nat x l') && nodupb l' end.

Definition inst_ok (F : family) (v : value) (root : arg) (log : list entry) : bool :=
  Nat.eqb (length log) (nodes 60 v)                              (* one constructor call per spec node *)
  && backward 0 log
  && nodupb (match root with ARef i => [i] | _ => [] end ++ flat_map (fun e => refs_of (snd e)) log)
  && tree_ok 60 F v (decode 60 log root).

(* ---------- (S3) the explicit form of a sequence of argv items -------------------------------- *)
Definition resolve_short (F : family) (base nm : str) : str :=
  if has_dot nm then nm
  else match filter (fun k => str_eqb (c_name k) nm && is_subclass F (c_name k) base
                                && negb (c_abstract k)) (fam_classes F) with
       | [k] => path_of F (c_name k)
       | _ => nm
       end.

Definition expand_dict (F : family) (base : str) (cur : option str) (d : list (str * raw))
  : input * option str :=
  match aget s_class_path d with
  | Some (RStr cp) =>
      let p := resolve_short F base cp in
      (IRaw (RDict (map (fun kv => if str_eqb (fst kv) s_class_path then (fst kv, RStr p) else kv) d)), Some p)
  | Some _ => (IRaw (RDict d), cur)
  | None =>
      match cur with
      | None => (IRaw (RDict d), cur)
      | Some c =>
          if ahas s_init_args d || ahas s_dict_kwargs d
          then (IRaw (RDict ((s_class_path, RStr c) :: d)), cur)
          else (IRaw (RDict [(s_class_path, RStr c); (s_init_args, RDict d)]), cur)
      end
  end.

(* a dotted key below the first component, as the dict it abbreviates:
   p.q.r = v   ~   {init_args: {p: {init_args: {q: {init_args: {r: v}}}}}}   (init_args. optional at each level,
   dict_kwargs.k addresses the dict_kwargs entry) *)
Fixpoint nest (fuel : nat) (path : list str) (r : raw) : raw :=
  match fuel with
  | 0 => r
  | S f =>
      match path with
      | [] => r
      | [k] => RDict [(s_init_args, RDict [(k, r)])]
      | k :: rest =>
          if str_eqb k s_dict_kwargs then RDict [(s_dict_kwargs, RDict [(join_dots rest, r)])]
          else RDict [(s_init_args, RDict [(k, nest f (strip_ia rest) r)])]
      end
  end.

Definition expand1 (F : family) (base : str) (cur : option str) (i : input) : input * option str :=
  match i with
  | INested path r =>
      match strip_ia path with
      | [] => (i, cur)
      | [k] => expand_dict F base cur [(k, r)]
      | k :: rest =>
          if str_eqb k s_dict_kwargs
          then expand_dict F base cur [(s_dict_kwargs, RDict [(join_dots rest, r)])]
          else expand_dict F base cur [(s_init_args, RDict [(k, nest 20 (strip_ia rest) r)])]
      end
  | IRaw (RStr s) => let p := resolve_short F base s in (IRaw (RDict [(s_class_path, RStr p)]), Some p)
  | IRaw (RDict d) => expand_dict F base cur d
  | _ => (i, cur)
  end.

Fixpoint expand_from (F : family) (base : str) (cur : option str) (steps : list input) : list input :=
  match steps with
  | [] => []
  | i :: steps' => let '(e, cur') := expand1 F base cur i in e :: expand_from F base cur' steps'
  end.

Definition start_class (F : family) (base : str) (dflt : option value) : option str :=
  match dflt with
  | Some (VSpec cp _ _) => Some cp
  | _ => if cls_abstract F base then None else Some (path_of F base)
  end.

Definition expand_steps (F : family) (base : str) (dflt : option value) (steps : list input) : list input :=
  expand_from F base (start_class F base dflt) steps.

(* ---------- (S4) fully explicit single spec: class paths dotted, dict form throughout ---------- *)
Fixpoint explicit_valid (n : nat) (F : family) (base : str) (r : raw) : bool :=
  match n with
  | 0 => false
  | S n' =>
      match r with
      | RDict d =>
          spec_keys_only d &&
          match aget s_class_path d, aget s_dict_kwargs d with
          | Some (RStr cp), None =>
              match target F cp with
              | Some (k, ps) =>
                  has_dot cp && is_subclass F (c_name k) base &&
                  match aget s_init_args d with
                  | Some (RDict ia) =>
                      forallb (fun kv =>
                        match find_param ps (fst kv) with
                        | Some p => match p_ty p, snd kv with
                                    | PInt, RInt _ => true
                                    | PStr, RStr _ => true
                                    | PCls c, w => explicit_valid n' F c w
                                    | POpt c, RNull => true
                                    | POpt c, w => explicit_valid n' F c w
                                    | _, _ => false
                                    end
                        | None => false
                        end) ia
                      && forallb (fun p => match p_def p with Some _ => true | None => ahas (p_name p) ia end) ps
                  | None => forallb (fun p => match p_def p with Some _ => true | None => false end) ps
                  | _ => false
                  end
              | None => false
              end
          | _, _ => false
          end
      | _ => false
      end
  end.

(* C10 — reference semantics (DESIGN A.6): a configuration returned by a parse method
     (1) passes validation by the same parser, and
     (2) parsed again as an object (as the Namespace itself and as its dict form) gives an EQUAL
         configuration: same keys, and per key the same value of the same kind
         (1 is not 1.0 is not True, a tuple is not a list; sets are compared as sets).
     (3) dumped, parsed again as text, it gives an EQUAL configuration, and dumping that gives
         byte-identical text.
   A rejected first parse demands nothing. *)
From JV Require Import Lib.Base Model.C10Adapt.

(* value-and-kind equality; set elements in any order, dict items IN ORDER (used for the model tie) *)
Fixpoint veq_o (a b : val) {struct a} : bool :=
  match a, b with
  | VNone, VNone => true
  | VBool x, VBool y => Bool.eqb x y
  | VInt x, VInt y => Z.eqb x y
  | VFloat x, VFloat y => fl_eqb x y
  | VStr x, VStr y => str_eqb x y
  | VList x, VList y | VTuple x, VTuple y =>
      (fix go (x y : list val) : bool :=
         match x, y with
         | [], [] => true
         | a :: x', b :: y' => veq_o a b && go x' y'
         | _, _ => false
         end) x y
  | VSet x, VSet y =>
      Nat.eqb (length x) (length y) && forallb (fun a => existsb (veq_o a) y) x
  | VDict x, VDict y =>
      (fix go (x y : list (val * val)) : bool :=
         match x, y with
         | [], [] => true
         | (k, a) :: x', (k', b) :: y' => veq_o k k' && veq_o a b && go x' y'
         | _, _ => false
         end) x y
  | VEnum c m, VEnum c' m' => str_eqb c c' && str_eqb m m'
  | VOpaque k r, VOpaque k' r' => str_eqb k k' && str_eqb r r'
  | _, _ => false
  end.


(* the property's equality: as above but dict items in any order, like Python's == on dict / Namespace *)
Fixpoint veq (a b : val) {struct a} : bool :=
  match a, b with
  | VNone, VNone => true
  | VBool x, VBool y => Bool.eqb x y
  | VInt x, VInt y => Z.eqb x y
  | VFloat x, VFloat y => fl_eqb x y
  | VStr x, VStr y => str_eqb x y
  | VList x, VList y | VTuple x, VTuple y =>
      (fix go (x y : list val) : bool :=
         match x, y with
         | [], [] => true
         | a :: x', b :: y' => veq a b && go x' y'
         | _, _ => false
         end) x y
  | VSet x, VSet y =>
      Nat.eqb (length x) (length y) && forallb (fun a => existsb (veq a) y) x
  | VDict x, VDict y =>
      Nat.eqb (length x) (length y)
      && (fix go (x : list (val * val)) : bool :=
            match x with
            | [] => true
            | (k, a) :: x' => existsb (fun kb => veq k (fst kb) && veq a (snd kb)) y && go x'
            end) x
  | VEnum c m, VEnum c' m' => str_eqb c c' && str_eqb m m'
  | VOpaque k r, VOpaque k' r' => str_eqb k k' && str_eqb r r'
  | _, _ => false
  end.

(* what a parse entry point did *)
Inductive outcome {A} := Accepted (w : A) | Rejected | Crashed.
Arguments outcome : clear implicits.

Definition outcome_eqb {A} (eqb : A -> A -> bool) (a b : outcome A) : bool :=
  match a, b with
  | Accepted x, Accepted y => eqb x y
  | Rejected, Rejected | Crashed, Crashed => true
  | _, _ => false
  end.

(* the property, on observations: first parse, validate(result), parse_object(result) twice *)
Definition fixed_point_spec {A} (eqb : A -> A -> bool) (first : outcome A) (valid : bool) (again : list (outcome A)) : bool :=
  match first with
  | Accepted w => valid && forallb (fun o => outcome_eqb eqb o (Accepted w)) again
  | _ => true
  end.

(* Meta entries record where settings came from, not the settings (DESIGN A.6).  An object handed back to
   parse_object carries them in, so they must come out again (veq above looks at them); text cannot carry
   them, so the dump leg compares configurations with the "__path__" entries of mappings removed. *)
Definition meta_key (k : val) : bool :=
  match k with VStr s => str_eqb s [95; 95; 112; 97; 116; 104; 95; 95]%N | _ => false end.

Fixpoint strip_meta (v : val) {struct v} : val :=
  match v with
  | VList l => VList (map strip_meta l)
  | VTuple l => VTuple (map strip_meta l)
  | VSet l => VSet (map strip_meta l)
  | VDict d =>
      VDict ((fix go (d : list (val * val)) : list (val * val) :=
                match d with
                | [] => []
                | (k, x) :: d' => if meta_key k then go d' else (k, strip_meta x) :: go d'
                end) d)
  | _ => v
  end.

(* the dump leg, on observations: parse_string(dump(cfg)) and the two dumped texts
   (None = the dump raised) *)
Definition dump_spec {A} (eqb : A -> A -> bool) (first : outcome A) (reparsed : outcome A)
                     (text1 text2 : option str) : bool :=
  match first with
  | Accepted w =>
      outcome_eqb eqb reparsed (Accepted w)      (* eqb is instantiated modulo strip_meta by the judge *)
      && match text1, text2 with Some a, Some b => str_eqb a b | _, _ => false end
  | _ => true
  end.

(* C06 — reference semantics: which keys of a configuration tree the parser does not define, and which
   required keys of the closure are absent or null.  Recursion on the configuration tree; uses only the
   datatypes (cv, decl, parser, seg) and `assoc` of the model file, none of its validation functions.

   A key is a path of mapping keys (K) and list positions (I), from the root of the configuration through
   every nesting level: groups, dataclass fields, the init_args of the class named by class_path, list
   items, subcommand sections.  Beside class_path / init_args / dict_kwargs nothing is declared in a class
   value.  A mapping given where a scalar or list is declared (and the reverse) is a value error, not a
   key error, and contributes no keys. *)
From JV Require Import Lib.Base Model.C06Validate.

(* a mapping below which there is no value at all: {} or {a: {}} ... *)
Fixpoint leafless (v : cv) : bool :=
  match v with
  | CDict l => (fix go (l : list (str * cv)) := match l with [] => true | (_, w) :: t => leafless w && go t end) l
  | _ => false
  end.

Section Und.
  Variable sl : bool.   (* true: leave out keys whose value is a leafless mapping (finding class 1) *)
  Variable sc : bool.   (* true: leave out keys beside class_path when the class value has no init_args (class 3) *)

  Fixpoint all_keys (v : cv) : list (list seg) :=
    match v with
    | CDict l =>
        (fix go (l : list (str * cv)) :=
           match l with
           | [] => []
           | (k, w) :: t =>
               (if sl && leafless w then [] else [K k] :: map (cons (K k)) (all_keys w)) ++ go t
           end) l
    | CList l =>
        (fix go (i : nat) (l : list cv) :=
           match l with [] => [] | x :: t => map (cons (I i)) (all_keys x) ++ go (S i) t end) 0%nat l
    | _ => []
    end.

  Definition class_of (l : list (str * cv)) (cls : list (str * args)) : option args :=
    match assoc s_class_path l with Some (CStr c) => assoc c cls | _ => None end.

  (* undeclared keys of mapping v for a parser with declarations fs *)
  Fixpoint und (fs : args) (v : cv) {struct v} : list (list seg) :=
    match v with
    | CDict l =>
        (fix go (l : list (str * cv)) :=
           match l with
           | [] => []
           | (k, w) :: t =>
               (match assoc k fs with
                | None => if sl && leafless w then [] else [K k] :: map (cons (K k)) (all_keys w)
                | Some (DArg _) => []
                | Some (DGroup fs') | Some (DData _ fs') | Some (DOpt fs') => map (cons (K k)) (und fs' w)
                | Some (DList fs') =>
                    match w with
                    | CList items =>
                        (fix gi (i : nat) (items : list cv) :=
                           match items with
                           | [] => []
                           | x :: r => map (fun p => K k :: I i :: p) (und fs' x) ++ gi (S i) r
                           end) 0%nat items
                    | _ => []
                    end
                | Some (DClass _ cls) =>
                    match w with
                    | CDict l' =>
                        (if sc && match assoc s_init_args l', assoc s_dict_kwargs l' with None, None => true | _, _ => false end
                         then [] else map (fun x => [K k; K x]) (filter (fun x => negb (spec_key x)) (map fst l')))
                        ++ match class_of l' cls with
                           | Some ps =>
                               (fix gi (l' : list (str * cv)) :=
                                  match l' with
                                  | [] => []
                                  | (k', w') :: t' =>
                                      if str_eqb s_init_args k'
                                      then map (fun p => K k :: K s_init_args :: p) (und ps w')
                                      else gi t'
                                  end) l'
                           | None => []
                           end
                    | _ => []
                    end
                end) ++ go t
           end) l
    | _ => []
    end.
End Und.

(* which mappings count as the section of a subcommand depends on how the configuration was handed over (mode, see the
   model file): parse_string(defaults=False) keeps an empty mapping, everything else only sections holding some value *)
Definition spec_section (md : mode) (l : list (str * cv)) (s : str) : bool :=
  match assoc s l with
  | Some (CDict x) => match md with MNoDefStr => true | _ => negb (leafless (CDict x)) end
  | _ => false
  end.

(* the subcommand in force: the value of the dest key, else the first declared one that has a section *)
Definition spec_selected (md : mode) (sb : subs) (l : list (str * cv)) : option str :=
  match assoc (s_dest sb) l with
  | Some (CStr s) => Some s
  | _ => match filter (spec_section md l) (map fst (s_map sb)) with
         | s :: _ => Some s
         | [] => None
         end
  end.

(* sections that the parse discards: those of the subcommands not in force (with defaults merged: all of them; without:
   only when more than one section is given) *)
Definition discarded (md : mode) (sb : subs) (l : list (str * cv)) : list str :=
  match spec_selected md sb l with
  | Some s =>
      match md with
      | MDefaults =>
          filter (fun x => negb (str_eqb x s))
            (filter (fun s => match assoc s l with Some (CDict _) => true | _ => false end) (map fst (s_map sb)))
      | _ =>
          let secs := filter (spec_section md l) (map fst (s_map sb)) in
          if Nat.ltb 1 (length secs) then filter (fun x => negb (str_eqb x s)) secs else []
      end
  | None => []
  end.

(* sd = true: leave out the discarded sections (finding class 2) *)
Definition und_top (md : mode) (sl sd sc : bool) (p : parser) (cfg : cv) : list (list seg) :=
  match cfg with
  | CDict l =>
      match p_sub p with
      | None => und sl sc (p_args p) cfg
      | Some sb =>
          flat_map (fun kw =>
            let k := fst kw in let w := snd kw in
            if str_eqb k (s_dest sb) then []
            else match assoc k (s_map sb) with
                 | Some sa => if sd && mem_str k (discarded md sb l) then [] else map (cons (K k)) (und sl sc sa w)
                 | None => und sl sc (p_args p) (CDict [kw])
                 end) l
      end
  | _ => []
  end.

Definition undeclared (md : mode) (p : parser) (cfg : cv) : list (list seg) := und_top md false false false p cfg.

(* 0 = inside the guard;
   2 = an undeclared key in the section of a subcommand that is not in force (the parse discards that section).
   The former classes 1 (an undeclared key holding a leafless mapping) and 3 (an undeclared key beside class_path without
   init_args) are gone: both defects are repaired in the library (a58b0fc, 56814dd), the model follows the repaired code and
   the theorem needs no guard for them (the flags sl / sc of und stay false). *)
Definition guard_class (md : mode) (p : parser) (cfg : cv) : N :=
  if Nat.ltb (length (und_top md false true false p cfg)) (length (und_top md false false false p cfg)) then 2%N else 0%N.

(* ---- required keys ------------------------------------------------------------------------------------ *)
Fixpoint req_d (key : list str) (d : decl) : list (list str) :=
  match d with
  | DArg true | DClass true _ => [key]
  | DGroup fs => (fix go (fs : list (str * decl)) := match fs with [] => [] | (k, d') :: t => req_d (key ++ [k]) d' ++ go t end) fs
  | DData r fs =>
      (if r then [key] else []) ++
      (fix go (fs : list (str * decl)) := match fs with [] => [] | (k, d') :: t => req_d (key ++ [k]) d' ++ go t end) fs
  | _ => []
  end.
Definition req_paths (fs : args) : list (list str) := flat_map (fun kd => req_d [fst kd] (snd kd)) fs.

Fixpoint lookup (v : cv) (p : list str) : option cv :=
  match p with
  | [] => Some v
  | k :: p' => match v with CDict l => match assoc k l with Some w => lookup w p' | None => None end | _ => None end
  end.
Definition nonnull (v : cv) (p : list str) : bool := match lookup v p with Some CNull | None => false | Some _ => true end.

Definition flat_missing (fs : args) (v : cv) : list (list seg) :=
  map (map K) (filter (fun p => negb (nonnull v p)) (req_paths fs)).

(* missing required keys of the whole closure below mapping v (parser fs): this level, the items of lists,
   the parameters of the selected class *)
Fixpoint nest_missing (fs : args) (v : cv) {struct v} : list (list seg) :=
  match v with
  | CDict l =>
      (fix go (l : list (str * cv)) :=
         match l with
         | [] => []
         | (k, w) :: t =>
             (match assoc k fs with
              | Some (DGroup fs') | Some (DData _ fs') => map (cons (K k)) (nest_missing fs' w)
              | Some (DOpt fs') =>
                  match w with
                  | CDict _ => map (cons (K k)) (flat_missing fs' w ++ nest_missing fs' w)
                  | _ => []
                  end
              | Some (DList fs') =>
                  match w with
                  | CList items =>
                      (fix gi (i : nat) (items : list cv) :=
                         match items with
                         | [] => []
                         | x :: r => map (fun p => K k :: I i :: p) (flat_missing fs' x ++ nest_missing fs' x) ++ gi (S i) r
                         end) 0%nat items
                  | _ => []
                  end
              | Some (DClass _ cls) =>
                  match w with
                  | CDict l' =>
                      match class_of l' cls with
                      | Some ps =>
                          match assoc s_init_args l' with
                          | None => map (fun p => K k :: K s_init_args :: p) (flat_missing ps (CDict []))
                          | Some _ =>
                              (fix gi (l' : list (str * cv)) :=
                                 match l' with
                                 | [] => []
                                 | (k', w') :: t' =>
                                     if str_eqb s_init_args k'
                                     then map (fun p => K k :: K s_init_args :: p) (flat_missing ps w' ++ nest_missing ps w')
                                     else gi t'
                                 end) l'
                          end
                      | None => []
                      end
                  | CStr c =>
                      match assoc c cls with
                      | Some ps => map (fun p => K k :: K s_init_args :: p) (flat_missing ps (CDict []))
                      | None => []
                      end
                  | _ => []
                  end
              | _ => []
              end) ++ go t
         end) l
  | _ => []
  end.

Definition missing_required (md : mode) (p : parser) (cfg : cv) : list (list seg) :=
  match cfg with
  | CDict l =>
      match p_sub p with
      | None => flat_missing (p_args p) cfg ++ nest_missing (p_args p) cfg
      | Some sb =>
          flat_missing (p_args p) cfg
          ++ nest_missing (p_args p) (CDict (filter (fun kw => match assoc (fst kw) (s_map sb) with Some _ => false | None => true end) l))
          ++ (match spec_selected md sb l with
              | Some s =>
                  match assoc s (s_map sb) with
                  | Some sa =>
                      let w := match assoc s l with Some w => w | None => CDict [] end in
                      map (cons (K s)) (flat_missing sa w ++ nest_missing sa w)
                  | None => if s_req sb then [[K (s_dest sb)]] else []
                  end
              | None => if s_req sb then [[K (s_dest sb)]] else []
              end)
          (* a section of another subcommand that the parse keeps (without merged defaults a single extra section is not
             discarded) is validated by that subcommand's parser: the nested levels inside it are enforced, and so are its
             own required arguments as soon as the section holds some value *)
          ++ flat_map (fun kw =>
               match assoc (fst kw) (s_map sb) with
               | Some sa =>
                   if match spec_selected md sb l with Some s => str_eqb (fst kw) s | None => false end
                      || mem_str (fst kw) (discarded md sb l)
                   then [] else map (cons (K (fst kw)))
                                    ((if match snd kw with CDict _ => negb (leafless (snd kw)) | _ => false end
                                      then flat_missing sa (snd kw) else []) ++ nest_missing sa (snd kw))
               | None => []
               end) l
      end
  | _ => []
  end.

(* ---- what the property demands of one observed parse ---------------------------------------------- *)
Inductive obs :=
| Accepted
| RejUnknown (key : list str)      (* the error names this key as not expected / not accepted *)
| RejMissing (key : list str)      (* the error names this key as required but absent or None *)
| RejNoSub (dest : str)            (* required subcommand not given *)
| RejOther.                        (* any other failure *)

Fixpoint strip_seg (p : list seg) : list str :=
  match p with [] => [] | K k :: t => k :: strip_seg t | I _ :: t => strip_seg t end.

Fixpoint is_suffix (a b : list seg) : bool :=
  list_eqb (fun x y => match x, y with K s, K s' => str_eqb s s' | I i, I j => Nat.eqb i j | _, _ => false end) a b
  || match b with [] => false | _ :: b' => is_suffix a b' end.

(* the named key identifies an offending key: relative to the parser of the nesting level that rejected *)
Definition names (key : list str) (paths : list (list seg)) : bool :=
  match key with [] => false | _ => existsb (fun p => is_suffix (map K key) p) paths end.

Definition spec_ok (md : mode) (p : parser) (cfg : cv) (o : obs) : bool :=
  let u := undeclared md p cfg in
  let m := missing_required md p cfg in
  match o with
  | Accepted => match u, m with [], [] => true | _, _ => false end
  | RejUnknown k => names k u
  | RejMissing k => names k m
  | RejNoSub d => existsb (fun q => match q with [K d'] => str_eqb d d' | _ => false end) m
  | RejOther => false
  end.

(* well-formed parser: the subcommand dest and the subcommand names are not also argument names of the
   parent parser, and the dest is not a subcommand name (argparse itself refuses such declarations) *)
Definition wf_parser (p : parser) : bool :=
  match p_sub p with
  | None => true
  | Some sb =>
      forallb (fun kd => negb (str_eqb (fst kd) (s_dest sb)) && negb (mem_str (fst kd) (map fst (s_map sb)))) (p_args p)
      && negb (mem_str (s_dest sb) (map fst (s_map sb)))
  end.

(* C19 — reference semantics for relative paths in nested config files: no process state at all.
   A relative path written in a config file denotes the file below THAT file's directory; the base
   directory is simply handed down the tree. Loading leaves the process state as it was. *)
From JV Require Import Lib.Base Model.C19PathMode Model.C19Cwd.

Section Spec.
  Variable files : list str.

  Definition present (base given : str) : bool := mem_str (normpath (join base given)) files.
  Definition dir_of (base given : str) : str := normpath (dirname (join base given)).

  Definition spec_list (f : str -> node -> res (list item)) (base : str) :=
    fix go (l : list node) : res (list item) :=
      match l with
      | [] => Ok []
      | n :: l' =>
          match f base n with
          | Err => Err
          | Ok xs => match go l' with Ok ys => Ok (xs ++ ys) | Err => Err end
          end
      end.

  Fixpoint spec_node (base : str) (n : node) : res (list item) :=
    match n with
    | NPath id given =>
        if present base given then Ok [(id, given, base, join base given)] else Err
    | NLoad given body | NListFile _ given body =>
        if present base given then spec_list spec_node (dir_of base given) body else Err
    | NInline body => spec_list spec_node base body
    | NBad => Err
    end.

  (* loading `top` (as written on the command line, relative to the working directory) *)
  Definition spec_top (cwd0 top : str) (body : list node) : res (list item) :=
    if present cwd0 top then spec_list spec_node (dir_of cwd0 top) body else Err.

  (* ---- guard of C19_relative_follows_config: finding class 4 (list-file-relative) is its complement.
     A list file whose content is loadable as YAML and which is named by a spelling that does not lead back to
     the same directory when read from the list file's own directory (i.e. practically every relative spelling)
     is outside the guard — unless the repair has landed (lf_fixed). *)
  Variable lf_fixed : bool.

  Fixpoint lf_guard (base : str) (n : node) : bool :=
    match n with
    | NPath _ _ | NBad => true
    | NLoad given body => negb (present base given) || forallb (lf_guard (dir_of base given)) body
    | NListFile yaml_ok given body =>
        negb (present base given)
        || (let d := dir_of base given in
            (lf_fixed || negb yaml_ok || (present d given && str_eqb (dir_of d given) d))
            && forallb (lf_guard d) body)
    | NInline body => forallb (lf_guard base) body
    end.

  Definition tree_guard (cwd0 top : str) (body : list node) : bool :=
    negb (present cwd0 top) || forallb (lf_guard (dir_of cwd0 top)) body.
End Spec.

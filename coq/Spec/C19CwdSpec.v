(* C19 — reference semantics for relative paths in nested config files: no process state at all.
   A relative path written in a config file denotes the file below THAT file's directory; the base
   directory is simply handed down the tree. Loading leaves the process state as it was.
   With symbolic links "that file's directory" is the directory part of the file's spelling as the kernel
   resolves it (the directory open() actually found the file in); nothing is normalised lexically here. *)
From JV Require Import Lib.Base Model.C19PathMode Model.C19Cwd.

Section Spec.
  Variable files : list str.
  Variable links : list (str * str).

  Definition present (base given : str) : bool := mem_str (kresolve links (join base given)) files.
  Definition dir_of (base given : str) : str := kresolve links (dirname (join base given)).

  Definition spec_list (f : str -> node -> res (list item)) (base : str) :=
    fix go (l : list node) : res (list item) :=
      match l with
      | [] => Ok []
      | n :: l' =>
          match f base n with
          | Err => Err
          | ErrOs => ErrOs
          | Ok xs => match go l' with Ok ys => Ok (xs ++ ys) | Err => Err | ErrOs => ErrOs end
          end
      end.

  Fixpoint spec_node (base : str) (n : node) : res (list item) :=
    match n with
    | NPath id given =>
        if present base given then Ok [(id, given, base, join base given)] else Err
    | NLoad given body | NListFile _ given body =>
        if present base given then spec_list spec_node (dir_of base given) body else Err
    | NInline body => spec_list spec_node base body
    | NBad => Err
    end.

  (* loading `top` (as written on the command line, relative to the working directory) *)
  Definition spec_top (cwd0 top : str) (body : list node) : res (list item) :=
    if present cwd0 top then spec_list spec_node (dir_of cwd0 top) body else Err.

  (* several config files one after the other: each is read from the SAME working directory (loading leaves the
     process where it was), each resolves its relative paths against its own directory, a later file overrides the
     earlier ones key by key; the first failure fails the whole *)
  Fixpoint spec_cfgs (cwd0 : str) (tops : list (str * list node)) (acc : list item) : res (list item) :=
    match tops with
    | [] => Ok acc
    | (top, body) :: rest =>
        match spec_top cwd0 top body with
        | Ok xs => spec_cfgs cwd0 rest (merge_items acc xs)
        | Err => Err
        | ErrOs => ErrOs
        end
    end.

  (* default config files: a name that does not exist is skipped, so is a blank file; an undecodable one fails *)
  Fixpoint spec_defaults_acc (cwd0 : str) (tops : list (str * dcontent)) (acc : list item) : res (list item) :=
    match tops with
    | [] => Ok acc
    | (top, c) :: rest =>
        if negb (present cwd0 top) then spec_defaults_acc cwd0 rest acc
        else match c with
             | DUnreadable => Err
             | DEmpty => spec_defaults_acc cwd0 rest acc
             | DBody body =>
                 match spec_list spec_node (dir_of cwd0 top) body with
                 | Ok xs => spec_defaults_acc cwd0 rest (merge_items acc xs)
                 | Err => Err
                 | ErrOs => ErrOs
                 end
             end
    end.
  Definition spec_defaults (cwd0 : str) (tops : list (str * dcontent)) : res (list item) :=
    spec_defaults_acc cwd0 tops [].

  (* ---- guard of C19_relative_follows_config; its complement is two finding classes:
     4 list-file-relative: a list file whose content is loadable as YAML and which is named by a spelling that does
       not lead back to the same directory when read from the list file's own directory (i.e. practically every
       relative spelling) — unless the repair has landed (lf_fixed);
     5 chdir-lexical-dotdot: a config/list file whose spelling has ".." after a symbolic link: the directory the
       code enters (abspath, i.e. lexical normalisation, before chdir) is not the directory the file is in — unless
       the repair has landed (rp_fixed: realpath instead of abspath). (The guard also asks that the directory the
       file is in can be entered — true of every real file system, the files being readable there.) *)
  Variable lf_fixed : bool.
  Variable rp_fixed : bool.
  Variable dir_ok : str -> bool.    (* os.chdir(d) succeeds *)

  (* the directory the code enters for a file spelled `given` in `base` (Model.chdir_dir) *)
  Definition cdir (base given : str) : str :=
    kresolve links (if rp_fixed then dirname (join base given) else normpath (dirname (join base given))).
  Definition rp_ok (base given : str) : bool :=
    str_eqb (cdir base given) (dir_of base given) && dir_ok (dir_of base given).

  Fixpoint lf_guard (base : str) (n : node) : bool :=
    match n with
    | NPath _ _ | NBad => true
    | NLoad given body =>
        negb (present base given) || (rp_ok base given && forallb (lf_guard (dir_of base given)) body)
    | NListFile yaml_ok given body =>
        negb (present base given)
        || (let d := dir_of base given in
            rp_ok base given
            && (lf_fixed || negb yaml_ok || (present d given && str_eqb (cdir d given) d))
            && forallb (lf_guard d) body)
    | NInline body => forallb (lf_guard base) body
    end.

  Definition tree_guard (cwd0 top : str) (body : list node) : bool :=
    negb (present cwd0 top) || (rp_ok cwd0 top && forallb (lf_guard (dir_of cwd0 top)) body).

  (* ---- guard of C19_cwd_restored: every directory the code tries to enter can be entered (os.chdir comes before
     the `try:` of change_to_path_dir). It follows the directories the CODE enters (cdir), whatever they are; it is
     implied by tree_guard, and with rp_fixed it only says that the directories of the existing files exist. *)
  Fixpoint enter_guard (base : str) (n : node) : bool :=
    match n with
    | NPath _ _ | NBad => true
    | NLoad given body =>
        negb (present base given)
        || (let d := cdir base given in dir_ok d && forallb (enter_guard d) body)
    | NListFile yaml_ok given body =>
        negb (present base given)
        || (let d := cdir base given in
            dir_ok d
            && (if yaml_ok && negb lf_fixed
                then negb (present d given)
                     || (let d2 := cdir d given in dir_ok d2 && forallb (enter_guard d2) body)
                else forallb (enter_guard d) body))
    | NInline body => forallb (enter_guard base) body
    end.

  Definition tree_enter_guard (cwd0 top : str) (body : list node) : bool :=
    negb (present cwd0 top)
    || (let d := cdir cwd0 top in dir_ok d && forallb (enter_guard d) body).

  (* sequences: every file of the sequence inside the respective guard *)
  Definition body_of (c : dcontent) : list node := match c with DBody b => b | _ => [] end.
  Definition cfgs_guard (cwd0 : str) (tops : list (str * list node)) : bool :=
    forallb (fun tb => tree_guard cwd0 (fst tb) (snd tb)) tops.
  Definition cfgs_enter_guard (cwd0 : str) (tops : list (str * list node)) : bool :=
    forallb (fun tb => tree_enter_guard cwd0 (fst tb) (snd tb)) tops.
  Definition defaults_guard (cwd0 : str) (tops : list (str * dcontent)) : bool :=
    forallb (fun tc => tree_guard cwd0 (fst tc) (body_of (snd tc))) tops.
  Definition defaults_enter_guard (cwd0 : str) (tops : list (str * dcontent)) : bool :=
    forallb (fun tc => tree_enter_guard cwd0 (fst tc) (body_of (snd tc))) tops.
End Spec.

(* finding class of a tree: 0 inside the guard; 5 when only the lexical ".." condition fails; 4 otherwise *)
Definition tree_class (files : list str) (links : list (str * str)) (lf_fixed rp_fixed : bool) (dir_ok : str -> bool)
                      (cwd0 top : str) (body : list node) : N :=
  if tree_guard files links lf_fixed rp_fixed dir_ok cwd0 top body then 0
  else if tree_guard files links lf_fixed true (fun _ => true) cwd0 top body then 5 else 4.


(* class of a sequence: the class of its first file outside the guard *)
Fixpoint seq_class (files : list str) (links : list (str * str)) (lf_fixed rp_fixed : bool) (dir_ok : str -> bool)
                   (cwd0 : str) (tops : list (str * list node)) : N :=
  match tops with
  | [] => 0
  | (top, body) :: rest =>
      let k := tree_class files links lf_fixed rp_fixed dir_ok cwd0 top body in
      if N.eqb k 0 then seq_class files links lf_fixed rp_fixed dir_ok cwd0 rest else k
  end.

(* Reference semantics for C11 (DESIGN Appendix A.1): an ordered nested dictionary addressed by
   paths of user-visible names. No clash marks, no walk verdicts: plain structural recursion on the
   path. Independent of Model/Ns.v except for the value type. *)
From JV Require Import Lib.Base Model.Ns.

Inductive node := Leaf (v : val) | Branch (d : list (str * node)).
Definition sdict := list (str * node).

Section Assoc.
Context {A : Type}.
Fixpoint lookup (k : str) (d : list (str * A)) : option A :=
  match d with [] => None | (k', v) :: d' => if str_eqb k k' then Some v else lookup k d' end.
Fixpoint insert (k : str) (v : A) (d : list (str * A)) : list (str * A) :=
  match d with
  | [] => [(k, v)]
  | (k', v') :: d' => if str_eqb k k' then (k', v) :: d' else (k', v') :: insert k v d'
  end.
Fixpoint remove (k : str) (d : list (str * A)) : list (str * A) :=
  match d with [] => [] | (k', v') :: d' => if str_eqb k k' then d' else (k', v') :: remove k d' end.
End Assoc.

(* ---- addressing inside a dict-valued leaf (only relevant outside the theorem's guard) ----- *)
Fixpoint vd_get (p : list str) (v : val) : option val :=
  match p with
  | [] => Some v
  | k :: p' => match v with
               | VDict dd | VNs dd => match lookup k dd with Some v' => vd_get p' v' | None => None end
               | _ => None
               end
  end.

(* a mapping value (dict, or a namespace stored inside a dict): its entries, the same kind of mapping with other
   entries, an empty mapping of the same kind *)
Definition entries (v : val) : option (list (str * val)) :=
  match v with VDict dd | VNs dd => Some dd | _ => None end.
Definition with_entries (v : val) (dd : list (str * val)) : val :=
  match v with VNs _ => VNs dd | _ => VDict dd end.
Definition fresh_like (v : val) : val :=
  match v with VNs _ => VNs [] | _ => VDict [] end.

(* set inside a mapping value: a mapping met on the way is kept, anything else (or nothing) is replaced by an empty
   mapping of the kind of its parent *)
Fixpoint vd_set (p : list str) (x : val) (cur : val) : val :=
  match p with
  | [] => cur
  | k :: p' =>
      match entries cur with
      | None => cur
      | Some dd =>
          match p' with
          | [] => with_entries cur (insert k x dd)
          | _ :: _ =>
              let sub := match lookup k dd with
                         | Some (VDict s) => VDict s
                         | Some (VNs s) => VNs s
                         | _ => fresh_like cur
                         end in
              with_entries cur (insert k (vd_set p' x sub) dd)
          end
      end
  end.

Fixpoint vd_del (p : list str) (cur : val) : option val :=
  match p with
  | [] => None
  | k :: p' =>
      match entries cur with
      | None => None
      | Some dd =>
          match p' with
          | [] => match lookup k dd with Some _ => Some (with_entries cur (remove k dd)) | None => None end
          | _ :: _ =>
              match lookup k dd with
              | Some v' => match vd_del p' v' with
                           | Some r => Some (with_entries cur (insert k r dd))
                           | None => None
                           end
              | None => None
              end
          end
      end
  end.

(* a namespace value given by the user (user-visible names) as a branch, and back *)
Fixpoint node_of_val (v : val) : node :=
  match v with
  | VNs d => Branch (map (fun kv => (fst kv, node_of_val (snd kv))) d)
  | _ => Leaf v
  end.

Fixpoint val_of_node (n : node) : val :=
  match n with
  | Leaf v => v
  | Branch d => VNs (map (fun kn => (fst kn, val_of_node (snd kn))) d)
  end.

(* ---- path operations ---------------------------------------------------------------------- *)
Fixpoint spec_get (p : list str) (d : sdict) : option node :=
  match p with
  | [] => None
  | [k] => lookup k d
  | k :: p' =>
      match lookup k d with
      | Some (Branch d') => spec_get p' d'
      | Some (Leaf (VDict dd)) => option_map Leaf (vd_get p' (VDict dd))
      | _ => None
      end
  end.

(* set: missing branches are created; a scalar/list/None met before the end of the path is
   replaced by a fresh branch *)
Fixpoint spec_set (p : list str) (x : node) (d : sdict) : sdict :=
  match p with
  | [] => d
  | [k] => insert k x d
  | k :: p' =>
      match lookup k d with
      | Some (Branch d') => insert k (Branch (spec_set p' x d')) d
      | Some (Leaf (VDict dd)) => insert k (Leaf (vd_set p' (val_of_node x) (VDict dd))) d
      | _ => insert k (Branch (spec_set p' x [])) d
      end
  end.

Fixpoint spec_del (p : list str) (d : sdict) : option sdict :=
  match p with
  | [] => None
  | [k] => match lookup k d with Some _ => Some (remove k d) | None => None end
  | k :: p' =>
      match lookup k d with
      | Some (Branch d') => match spec_del p' d' with
                            | Some r => Some (insert k (Branch r) d)
                            | None => None
                            end
      | Some (Leaf (VDict dd)) => match vd_del p' (VDict dd) with
                                  | Some r => Some (insert k (Leaf r) d)
                                  | None => None
                                  end
      | _ => None
      end
  end.

(* a key is a non-empty list of non-empty names without spaces *)
Definition spec_key (key : str) : option (list str) :=
  if mem_N SPACE key then None
  else let ks := split_key key in if existsb is_empty ks then None else Some ks.

(* items: depth first, insertion order, branch before its children when `branches` *)
Fixpoint node_items (branches : bool) (n : node) : list (str * val) :=
  match n with
  | Leaf _ => []
  | Branch d =>
      flat_map (fun kn =>
        match snd kn with
        | Leaf v => [(fst kn, v)]
        | Branch _ =>
            (if branches then [(fst kn, val_of_node (snd kn))] else []) ++
            map (fun sk => (join_dot (fst kn) (fst sk), snd sk)) (node_items branches (snd kn))
        end) d
  end.
Definition spec_items (branches : bool) (d : sdict) : list (str * val) := node_items branches (Branch d).

(* as_dict: the nested dictionary itself; namespaces held in a list / dict value become dicts *)
Fixpoint ns_to_dict_val (v : val) : val :=
  match v with
  | VNs d => VDict (map (fun kv => (fst kv, ns_to_dict_val (snd kv))) d)
  | VList l => if all_ns l then VList (map ns_to_dict_val l) else VList l
  | VDict dd => if all_ns (map snd dd)
                then VDict (map (fun kv => (fst kv, ns_to_dict_val (snd kv))) dd) else VDict dd
  | x => x
  end.

Fixpoint node_as_dict (n : node) : val :=
  match n with
  | Leaf v => ns_to_dict_val v
  | Branch d => VDict (map (fun kn => (fst kn, node_as_dict (snd kn))) d)
  end.
Definition spec_as_dict (d : sdict) : val := node_as_dict (Branch d).

(* dict_to_namespace: every dictionary becomes a branch, also the dictionaries that are elements of a list value
   (one list level); a dotted key addresses a path. A key that is not a key of a nested mapping (a space, an
   empty segment) makes the conversion fail. *)
Fixpoint dict_keys_valid (v : val) : bool :=
  match v with
  | VDict dd =>
      forallb (fun kv => match spec_key (fst kv) with Some _ => true | None => false end &&
                 match snd kv with
                 | VDict _ => dict_keys_valid (snd kv)
                 | VList l => forallb (fun e => match e with VDict _ => dict_keys_valid e | _ => true end) l
                 | _ => true
                 end) dd
  | _ => true
  end.

Fixpoint dict_to_node (v : val) : node :=
  match v with
  | VDict dd =>
      let kn := map (fun kv => (fst kv,
                       match snd kv with
                       | VDict _ => dict_to_node (snd kv)
                       | VList l => Leaf (VList (map (fun e => match e with
                                                               | VDict _ => val_of_node (dict_to_node e)
                                                               | _ => e
                                                               end) l))
                       | x => Leaf x
                       end)) dd in
      Branch (fold_left (fun acc kn' => match spec_key (fst kn') with
                                        | Some p => spec_set p (snd kn') acc
                                        | None => acc
                                        end) kn [])
  | x => Leaf x
  end.

Definition spec_from_dict (d : val) : option sdict :=
  match d with
  | VDict _ => if dict_keys_valid d then match dict_to_node d with Branch st => Some st | Leaf _ => None end else None
  | _ => None
  end.

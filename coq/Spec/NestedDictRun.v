(* The reference run of a history (C11): every operation interpreted on the nested dictionary. *)
From JV Require Import Lib.Base Model.Ns Model.NsRun Spec.NestedDict.

(* stored (clash-marked) form of a value -> user-visible form: only Namespace attribute names carry marks *)
Fixpoint unmark_val (v : val) : val :=
  match v with
  | VNs d => VNs (map (fun kv => (unmark (fst kv), unmark_val (snd kv))) d)
  | VList l => VList (map unmark_val l)
  | VTup l => VTup (map unmark_val l)
  | VDict d => VDict (map (fun kv => (fst kv, unmark_val (snd kv))) d)
  | x => x
  end.

Definition user_node (v : val) : node := node_of_val (unmark_val v).
Definition node_val (n : node) : val := val_of_node n.

(* what the user sees of an output of the implementation / the model *)
Definition unmark_out (o : out) : out :=
  match o with
  | OutVal v => OutVal (unmark_val v)
  | OutItems l => OutItems (map (fun kv => (fst kv, unmark_val (snd kv))) l)
  | x => x
  end.

(* the abstraction function of the refinement: a stored __dict__ tree seen as a nested dictionary
   (attribute names un-marked, Namespaces become branches, everything else is a leaf) *)
Definition abs_d (d : alist) : sdict := map (fun kv => (unmark (fst kv), user_node (snd kv))) d.

(* a step of the model is related to a step of the spec: same user-visible output, same dictionary *)
Definition rel_out (m : out * alist) (s : out * sdict) : Prop :=
  unmark_out (fst m) = fst s /\ abs_d (snd m) = snd s.

Definition spec_contains (p : list str) (d : sdict) : bool :=
  match spec_get p d with Some _ => true | None => false end.

Definition spec_set_key (key : str) (x : node) (d : sdict) : option sdict :=
  match spec_key key with Some p => Some (spec_set p x d) | None => None end.

Definition step_spec (st : sdict) (o : op) : out * sdict :=
  match o with
  | OSet k v | OSetAttr k v =>
      match spec_set_key k (user_node v) st with
      | Some st' => (OutUnit, st')
      | None => (OutFail, st)
      end
  | OGet k =>
      match spec_key k with
      | Some p => match spec_get p st with Some n => (OutVal (node_val n), st) | None => (OutFail, st) end
      | None => (OutFail, st)
      end
  | OGetD k dflt =>
      match spec_key k with
      | Some p => match spec_get p st with
                  | Some n => (OutVal (node_val n), st)
                  | None => (OutVal (unmark_val dflt), st)
                  end
      | None => (OutVal (unmark_val dflt), st)
      end
  | OContains k =>
      match spec_key k with
      | Some p => (OutBool (spec_contains p st), st)
      | None => (OutBool false, st)
      end
  | ODel k =>
      match spec_key k with
      | Some p => match spec_del p st with Some st' => (OutUnit, st') | None => (OutFail, st) end
      | None => (OutFail, st)
      end
  | OPop k dflt =>
      match spec_key k with
      | Some p =>
          match spec_get p st, spec_del p st with
          | Some n, Some st' => (OutVal (node_val n), st')
          | _, _ => (OutVal (unmark_val dflt), st)
          end
      | None => (OutFail, st)
      end
  | OUpdV v k ou =>
      match k with
      | None | Some [] => (OutFail, st)
      | Some key =>
          match spec_key key with
          | None => (OutFail, st)
          | Some p => if ou && spec_contains p st then (OutUnit, st)
                      else (OutUnit, spec_set p (user_node v) st)
          end
      end
  | OUpdNs src k ou =>
      match user_node src with
      | Branch sd =>
          let prefix := match k with Some (c :: k') => (c :: k') ++ [DOT] | _ => [] end in
          (* "sets or replaces all items": a fold of set over the leaves, in order *)
          let '(st', failed) :=
            fold_left (fun (acc : sdict * bool) (kv : str * val) =>
              let '(s, failed) := acc in
              if failed then acc else
              match spec_key (prefix ++ fst kv) with
              | None => (s, true)
              | Some p => if ou && spec_contains p s then (s, false)
                          else (spec_set p (node_of_val (snd kv)) s, false)   (* the items are user-visible already *)
              end) (spec_items false sd) (st, false) in
          (if failed then OutFail else OutUnit, st')
      | Leaf _ => (OutFail, st)
      end
  | OClone => (OutBool true, st)
  | OItems br => (OutItems (spec_items br st), st)
  | OAsDict => (OutVal (spec_as_dict st), st)
  | OInitDict d =>
      match unmark_val d with
      | VDict dd =>
          let r := fold_left (fun (acc : option sdict) (kv : str * val) =>
                     match acc with
                     | None => None
                     | Some s => spec_set_key (fst kv) (node_of_val (snd kv)) s
                     end) dd (Some []) in
          match r with Some st' => (OutUnit, st') | None => (OutFail, st) end
      | _ => (OutFail, st)
      end
  | OGetSteps k =>     (* one dotted string or step by step: the same reading *)
      match spec_key k with
      | Some p => match spec_get p st with Some n => (OutVal (node_val n), st) | None => (OutFail, st) end
      | None => (OutFail, st)
      end
  | OEq v => (OutBool (py_eq (node_val (Branch st)) (unmark_val v)), st)   (* equality of the dictionaries *)
  | OFromDict d =>
      match spec_from_dict (unmark_val d) with
      | Some st' => (OutUnit, st')
      | None => (OutFail, st)
      end
  end.

Fixpoint run_spec (st : sdict) (ops : list op) : list (out * sdict) :=
  match ops with
  | [] => []
  | o :: ops' => let '(ou, st') := step_spec st o in (ou, st') :: run_spec st' ops'
  end.

(* C03 — what the cycle check of yaml_load is FOR (independent of how it is written): after it has accepted a value,
   no walk that follows the items of mappings, lists AND tuples (what recreate_branches, holds_subclass_spec,
   adapt_typehints and the dumper do) can come back to a node it is already inside.  `walks_ok n h pref v`: every chain
   of at most n+1 nodes that starts at v and follows container items never repeats a node, nor meets a node of `pref`
   (the nodes the walk is already inside).  True for every n = the value is a finite tree/DAG: every walk over it is at
   most |h| levels deep (pigeonhole), so a shallow input cannot exhaust the stack. *)
From JV Require Import Lib.Base.
Require Import List Arith Bool.
Import ListNotations.
From JV Require Import Model.C03Cycle.

Definition is_container (k : kind) : bool := match k with KScalar => false | _ => true end.

Definition succs (h : heap) (v : nat) : list nat :=
  let (k, items) := node h v in if is_container k then items else [].

(* `if`, not `&&`: the kernel VM evaluates arguments eagerly, and a walk must stop where it re-enters a node (otherwise the
   check of a cyclic heap with several aliases goes round the cycle |h| times in every branch) *)
Fixpoint walks_ok (n : nat) (h : heap) (pref : list nat) (v : nat) : bool :=
  if existsb (Nat.eqb v) pref then false
  else match n with
       | 0 => true
       | S n' => forallb (walks_ok n' h (v :: pref)) (succs h v)
       end.

(* the property of one call of yaml_load on a loadable text: a value that is ACCEPTED is walkable (refusing is the
   channel: YAMLError -> ArgumentError; accepting an unwalkable value is the RecursionError leak).  Refusing a walkable
   value is a failure reported through the channel: not a violation of this property. *)
Definition cycle_check_ok (h : heap) (root : nat) (rejected : bool) : bool :=
  if rejected then true else walks_ok (length h) h [] root.

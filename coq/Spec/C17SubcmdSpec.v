(* C17 — reference semantics: the three-line selection rule of the property statement, evaluated
   on the INPUTS (command line, config/object sections, environment), level by level, and the
   shape a successful result must have.  Shares only the data types and the plain look-ups
   (get / assoc) with the model; none of the model's functions. *)
From JV Require Import Lib.Base Model.C17Subcmd.

(* what one level of the subcommand tree gets to see *)
Record level := { lv_argv : option argvt;   (* the rest of the command line, if it reaches this level *)
                  lv_cfgs : list cobj;      (* config / object sections for this level, lowest priority first *)
                  lv_env : option cobj }.   (* environment below this level's prefix (default_env=True) *)

Definition argv_cfgs (a : option argvt) : list cobj :=
  match a with
  | Some (ArgvT items _) => flat_map (fun i => match i with ICfg c => [c] | _ => [] end) items
  | None => []
  end.
Definition argv_name (a : option argvt) : option str :=
  match a with Some (ArgvT _ (Some (n, _))) => Some n | _ => None end.
Definition argv_rest (a : option argvt) : option argvt :=
  match a with Some (ArgvT _ (Some (_, r))) => Some r | _ => None end.
Definition cfgs_at (lv : level) : list cobj := lv_cfgs lv ++ argv_cfgs (lv_argv lv).

Definition named_in (dest : str) (c : cobj) : option str :=
  match assoc dest c with Some (CStr s) => Some s | _ => None end.

Definition last_some {A} (l : list (option A)) : option A :=
  fold_left (fun acc o => match o with Some _ => o | None => acc end) l None.

Fixpoint cleafy (c : cfgt) : bool :=
  match c with
  | CObj l => (fix go (l : cobj) : bool :=
                 match l with [] => false | (_, v) :: t => cleafy v || go t end) l
  | _ => true
  end.
(* "settings were given" for subcommand s: a section that contains at least one value *)
Definition has_section (s : str) (c : cobj) : bool :=
  match assoc s c with Some (CObj l) => cleafy (CObj l) | _ => false end.

(* Spec.select (DESIGN A.4): the name on the command line; else the subcommand key from
   config/object/environment (later source wins; an environment value that is no subcommand names
   nothing); else the first DECLARED subcommand with a settings section; else none *)
Definition select (p : parser) (lv : level) : option str :=
  match argv_name (lv_argv lv) with
  | Some n => Some n
  | None =>
      let dest := p_dest p in
      let envn := match lv_env lv with
                  | Some e => match named_in dest e with
                              | Some s => if mem_str s (p_names p) then Some s else None
                              | None => None
                              end
                  | None => None
                  end in
      match last_some (envn :: map (named_in dest) (cfgs_at lv)) with
      | Some n => Some n
      | None => find (fun s => existsb (has_section s) (cfgs_at lv)) (p_names p)
      end
  end.

Definition sub_level (lv : level) (n : str) : level :=
  {| lv_argv := argv_rest (lv_argv lv);
     lv_cfgs := flat_map (fun c => match assoc n c with Some (CObj l) => [l] | _ => [] end) (cfgs_at lv);
     lv_env := option_map (fun e => env_sub e n) (lv_env lv) |}.

Definition top_level (x : input) : level :=
  {| lv_argv := match i_entry x with EArgs a => Some a | _ => None end;
     lv_cfgs := match i_entry x with EObject c => [c] | EString c => [c] | _ => [] end;
     (* parse_env(m): the environment of this parse is the mapping, not os.environ *)
     lv_env := match i_entry x with EEnv m => Some m | _ => i_env x end |}.

Definition is_some {A} (o : option A) : bool := match o with Some _ => true | None => false end.

(* complete: every declared option of the parser has a value in the section *)
Definition complete (p : parser) (cfg : ns) : bool :=
  forallb (fun kd => is_some (get (fst kd) cfg)) (p_opts p).

(* "that subcommand's complete settings (its defaults, environment and given values)": the value of
   every declared option is the last one given for it at this level (config / object sections first,
   then the items of the command line in their order), else the environment's, else the default *)
Definition opt_given (k : str) (c : cobj) : option Z :=
  match assoc k c with Some (CInt z) => Some z | _ => None end.

Definition argv_vals (k : str) (a : option argvt) : list (option Z) :=
  match a with
  | Some (ArgvT items _) =>
      map (fun i => match i with
                    | IOpt k' v => if str_eqb k k' then Some v else None
                    | ICfg c => opt_given k c
                    end) items
  | None => []
  end.

Definition expected_val (lv : level) (k : str) (d : Z) : Z :=
  match last_some (map (opt_given k) (lv_cfgs lv) ++ argv_vals k (lv_argv lv)) with
  | Some z => z
  | None => match lv_env lv with
            | Some e => match opt_given k e with Some z => z | None => d end
            | None => d
            end
  end.

Definition values_ok (p : parser) (lv : level) (cfg : ns) : bool :=
  forallb (fun kd => match get (fst kd) cfg with
                     | Some (NInt z) => Z.eqb z (expected_val lv (fst kd) (snd kd))
                     | _ => false
                     end) (p_opts p).

(* what a successful parse result must look like, at every level *)
Fixpoint spec_ok (fuel : nat) (p : parser) (lv : level) (cfg : ns) : bool :=
  match fuel with
  | O => false
  | S f =>
    values_ok p lv cfg &&
    (if p_has p then
       match select p lv with
       | None =>
           negb (p_req p)
           && (match get (p_dest p) cfg with Some NNone => true | _ => false end)
           && forallb (fun o => negb (is_some (get o cfg))) (p_names p)
       | Some n =>
           match assoc n (p_choices p) with
           | None => false
           | Some sp =>
               (match get (p_dest p) cfg with Some (NStr m) => str_eqb m n | _ => false end)
               && (match get n cfg with Some (NNs sec) => spec_ok f sp (sub_level lv n) sec | _ => false end)
               && forallb (fun o => str_eqb o n || negb (is_some (get o cfg))) (p_names p)
           end
       end
     else true)
  end.

(* ---------- when a parse MUST succeed ----------
   "if none can be determined and a subcommand is required, parsing fails" - and only then, as far as
   selection goes: when every source is clean (only declared options with int values, only declared
   subcommand names, sections only for declared subcommands, --cfg only where declared) and, along the
   selected path, every level either has a determinable choice (select, sources mixed across levels
   as they come) or is optional, the parse has to be accepted.  A sufficient condition only: inputs
   that are not clean demand nothing. *)
Definition declared_opt (p : parser) (k : str) : bool := mem_str k (map fst (p_opts p)).

Fixpoint cfg_clean (fuel : nat) (p : parser) (c : cobj) : bool :=
  match fuel with
  | O => false
  | S f =>
    forallb (fun kv =>
      let k := fst kv in
      if declared_opt p k then match snd kv with CInt _ => true | _ => false end
      else if p_has p && str_eqb k (p_dest p)
           then match snd kv with CStr s => mem_str s (p_names p) | _ => false end
      else if p_has p
           then match assoc k (p_choices p), snd kv with
                | Some sp, CObj l => cfg_clean f sp l
                | _, _ => false
                end
      else false) c
  end.

Fixpoint argv_clean (fuel : nat) (p : parser) (a : argvt) : bool :=
  match fuel with
  | O => false
  | S f =>
    let 'ArgvT items sub := a in
    forallb (fun i => match i with
                      | IOpt k _ => declared_opt p k
                      | ICfg c => p_cfg p && cfg_clean fuel p c
                      end) items
    && match sub with
       | None => true
       | Some (n, rest) => p_has p && match assoc n (p_choices p) with
                                      | Some sp => argv_clean f sp rest
                                      | None => false
                                      end
       end
  end.

Definition input_clean (fuel : nat) (p : parser) (x : input) : bool :=
  (match i_entry x with
   | EArgs a => argv_clean fuel p a
   | EObject c => cfg_clean fuel p c
   | EString c => cfg_clean fuel p c
   | EEnv m => cfg_clean fuel p m
   end)
  && match i_env x with Some e => cfg_clean fuel p e | None => true end.

Fixpoint determinable (fuel : nat) (p : parser) (lv : level) : bool :=
  match fuel with
  | O => false
  | S f =>
    if p_has p then
      match select p lv with
      | Some n => match assoc n (p_choices p) with
                  | Some sp => determinable f sp (sub_level lv n)
                  | None => false
                  end
      | None => negb (p_req p)
      end
    else true
  end.

Definition must_succeed (fuel : nat) (p : parser) (x : input) : bool :=
  input_clean fuel p x && determinable fuel p (top_level x).

(* ---------- the shape part alone (what theorem one_selected proves for every input) ---------- *)
Fixpoint selected (fuel : nat) (p : parser) (cfg : ns) : bool :=
  match fuel with
  | O => false
  | S f =>
    if p_has p then
      match get (p_dest p) cfg with
      | Some (NStr n) =>
          match assoc n (p_choices p) with
          | None => false
          | Some sp =>
              (match get n cfg with
               | Some (NNs sec) => complete sp sec && selected f sp sec
               | _ => false end)
              && forallb (fun o => str_eqb o n || negb (is_ns (get o cfg))) (p_names p)
          end
      | Some NNone => negb (p_req p) && forallb (fun o => negb (is_ns (get o cfg))) (p_names p)
      | _ => false
      end
    else true
  end.

(* the same as a relation without fuel (theorem one_selected).  With allow_falsy = true a level
   whose subcommand key holds a falsy non-None value ("" or 0) is left unconstrained: that is the
   recorded finding falsy-subcommand-name-keeps-all-sections *)
Inductive Sel (allow_falsy : bool) : parser -> ns -> Prop :=
| Sel_leaf p cfg : p_has p = false -> Sel allow_falsy p cfg
| Sel_some p cfg n sp sec :
    p_has p = true ->
    get (p_dest p) cfg = Some (NStr n) ->            (* the subcommand key holds a name *)
    assoc n (p_choices p) = Some sp ->               (* of a declared subcommand *)
    get n cfg = Some (NNs sec) ->                    (* whose section is present, *)
    complete sp sec = true ->                        (* has every declared option, *)
    Sel allow_falsy sp sec ->                        (* is itself selected one level down, *)
    (forall o, In o (p_names p) -> o <> n -> is_ns (get o cfg) = false) ->   (* and no other section *)
    Sel allow_falsy p cfg
| Sel_none p cfg :
    p_has p = true ->
    (get (p_dest p) cfg = None \/ get (p_dest p) cfg = Some NNone) ->
    p_req p = false ->                               (* only an optional subcommand may be missing *)
    (forall o, In o (p_names p) -> is_ns (get o cfg) = false) ->
    Sel allow_falsy p cfg
| Sel_falsy p cfg v :
    allow_falsy = true ->
    p_has p = true -> get (p_dest p) cfg = Some v -> v <> NNone -> truthy v = false ->
    Sel allow_falsy p cfg.

(* ---------- guards ---------- *)
(* class 1: a subcommand key holding a falsy value that is not None ("" or 0) in the result;
   structural on the parser tree *)
Fixpoint dest_truthy (p : parser) : ns -> bool :=
  let 'Parser _ _ has _ dest cs := p in
  fun cfg =>
    if has then
      (match get dest cfg with
       | Some NNone => true
       | Some v => truthy v
       | None => true
       end)
      && (fix go (cs : list (str * parser)) : bool :=
            match cs with
            | [] => true
            | (s, sp) :: t => (match get s cfg with
                               | Some (NNs sec) => dest_truthy sp sec
                               | _ => true end) && go t
            end) cs
    else true.

(* class 2: a `--cfg` value that names one subcommand and carries a section for another one *)
Fixpoint cfg_consistent (fuel : nat) (p : parser) (c : cobj) : bool :=
  match fuel with
  | O => true
  | S f =>
    if p_has p then
      (match named_in (p_dest p) c with
       | Some m => forallb (fun s => str_eqb s m || negb (match assoc s c with Some (CObj _) => true | _ => false end)) (p_names p)
       | None => true
       end)
      && forallb (fun sq => match assoc (fst sq) c with
                            | Some (CObj l) => cfg_consistent f (snd sq) l
                            | _ => true end) (p_choices p)
    else true
  end.

Fixpoint argv_consistent (fuel : nat) (p : parser) (a : argvt) : bool :=
  match fuel with
  | O => true
  | S f =>
    let 'ArgvT items sub := a in
    forallb (fun i => match i with ICfg c => cfg_consistent fuel p c | _ => true end) items
    && match sub with
       | Some (n, rest) => match assoc n (p_choices p) with Some sp => argv_consistent f sp rest | None => true end
       | None => true
       end
  end.

Definition input_consistent (fuel : nat) (p : parser) (x : input) : bool :=
  match i_entry x with EArgs a => argv_consistent fuel p a | _ => true end.

(* class 3: parse_env(mapping) while os.environ holds variables of this parser's prefix *)
Definition osenv_clean (x : input) : bool :=
  match i_entry x with
  | EEnv _ => match i_env x with Some (_ :: _) => false | _ => true end
  | _ => true
  end.

(* ---------- well-formed trees (hypothesis of the theorems), as a checker ---------- *)
(* option names, subcommand names and dest are pairwise different inside one parser; no empty
   subcommand name; recursively.  Proofs/C17SubcmdProofs.v: wf_b_sound : wf_b f p = true -> wf p *)
Fixpoint wf_b (fuel : nat) (p : parser) : bool :=
  match fuel with
  | O => false
  | S f =>
    forallb (fun k => negb (mem_str k (p_names p)) && negb (str_eqb k (p_dest p))) (map fst (p_opts p))
    && negb (mem_str (p_dest p) (p_names p))
    && forallb (fun n => negb (str_eqb n [])) (p_names p)
    && forallb (fun nq => wf_b f (snd nq)) (p_choices p)
  end.

(* ---------- JSON objects: keys unique at every level (what a dict / a parsed JSON or YAML mapping is) ----------
   hypothesis of the selection-rule theorem C17_config_entry_selection_rule: for an association list with
   a repeated key "the section of s" is not one thing *)
Fixpoint json_ok (c : cfgt) : bool :=
  match c with
  | CObj l => (fix go (l : cobj) : bool :=
                 match l with
                 | [] => true
                 | (k, v) :: t => negb (mem_str k (map fst t)) && json_ok v && go t
                 end) l
  | _ => true
  end.

(* the subcommand key of a config is absent or holds a string (a name): the configs the selection rule speaks
   about.  (A number / a mapping under the subcommand key is rejected by the repaired tree.) *)
Definition dest_key_plain (p : parser) (c : cobj) : bool :=
  match assoc (p_dest p) c with None | Some (CStr _) => true | _ => false end.

(* Reference semantics for C16's graph half: an executable, independent checker of what a
   topological-order routine may answer for an edge list. *)
From JV Require Import Lib.Base Model.Graph.

Definition edge := (str * str)%type.

Fixpoint nodup_b (l : list str) : bool :=
  match l with [] => true | x :: l' => negb (mem_str x l') && nodup_b l' end.

Definition mentioned (es : list edge) : list str :=
  flat_map (fun e => [fst e; snd e]) es.

Definition edge_before (o : list str) (e : edge) : bool :=
  match index_str (fst e) o, index_str (snd e) o with
  | Some i, Some j => Nat.ltb i j
  | _, _ => false
  end.

Definition order_ok (es : list edge) (o : list str) : bool :=
  nodup_b o
  && forallb (fun x => mem_str x o) (mentioned es)
  && forallb (fun x => mem_str x (mentioned es)) o
  && forallb (edge_before o) es.

Definition step_set (es : list edge) (S : list str) : list str :=
  fold_left (fun acc e => if mem_str (fst e) acc && negb (mem_str (snd e) acc)
                          then snd e :: acc else acc) es S.

Fixpoint closure (fuel : nat) (es : list edge) (S : list str) : list str :=
  match fuel with 0 => S | S f => closure f es (step_set es S) end.

Definition reach_b (es : list edge) (a b : str) : bool :=
  mem_str b (closure (Datatypes.S (length es)) es [a]).

Definition edge_eqb (a b : edge) : bool := str_eqb (fst a) (fst b) && str_eqb (snd a) (snd b).

Definition cycle_ok (es : list edge) (u v : str) : bool :=
  existsb (edge_eqb (u, v)) es && reach_b es v u.

Definition spec_ok (es : list edge) (out : topo_out) : bool :=
  match out with
  | Order o => order_ok es o
  | Cycle u v => cycle_ok es u v
  | Broken => false
  end.

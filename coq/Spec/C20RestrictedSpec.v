(* C20 — reference semantics of restricted number types, independent of the model:
   "accepts a value iff it converts to the base type and satisfies the stated comparisons
    (joined by and/or); the accepted value equals the input as base type". *)
From JV Require Import Lib.Base Lib.C20Text Model.C20Base.
Local Open Scope Z_scope.

(* "converts to the base type": a bool is not a number; a float is an int only when integral;
   text converts when it is a numeral of the base type. *)
Definition conv (b : base) (v : pyval) : option num :=
  match b, v with
  | BInt, PInt z => Some (NI z)
  | BInt, PFloat (FFin m) => if m mod 1000000 =? 0 then Some (NI (m / 1000000)) else None
  | BInt, PStr s => option_map NI (parse_int_str s)
  | BFloat, PInt z => option_map NF (float_of_int z)    (* as base type: the nearest double *)
  | BFloat, PFloat f => Some (NF f)
  | BFloat, PStr s => option_map NF (parse_float_str s)
  | _, _ => None
  end.

(* numbers as extended reals in 10^-6 units *)
Inductive ext := XFin (q : Z) | XPos | XNeg | XNan.
Definition ext_of (n : num) : ext :=
  match n with
  | NI z => XFin (z * 1000000)
  | NF (FFin m) => XFin m
  | NF (FInf false) => XPos
  | NF (FInf true) => XNeg
  | NF FNan => XNan
  end.

Definition ext_lt (a b : ext) : Prop :=
  match a, b with
  | XFin x, XFin y => x < y
  | XNeg, XFin _ | XNeg, XPos | XFin _, XPos => True
  | _, _ => False
  end.
Definition ext_eq (a b : ext) : Prop :=
  match a, b with
  | XFin x, XFin y => x = y
  | XPos, XPos | XNeg, XNeg => True
  | _, _ => False
  end.

Definition s_gt : str := [62]%N.      Definition s_ge : str := [62; 61]%N.
Definition s_lt : str := [60]%N.      Definition s_le : str := [60; 61]%N.
Definition s_eq : str := [61; 61]%N.  Definition s_ne : str := [33; 61]%N.

(* the meaning of a comparison symbol: `v sym ref` *)
Definition holds (sym : str) (v ref : num) : Prop :=
  let a := ext_of v in let r := ext_of ref in
  if str_eqb sym s_gt then ext_lt r a
  else if str_eqb sym s_ge then ext_lt r a \/ ext_eq a r
  else if str_eqb sym s_lt then ext_lt a r
  else if str_eqb sym s_le then ext_lt a r \/ ext_eq a r
  else if str_eqb sym s_eq then ext_eq a r
  else if str_eqb sym s_ne then ~ ext_eq a r
  else False.

Definition valid_sym (sym : str) : bool := mem_str sym [s_gt; s_ge; s_lt; s_le; s_eq; s_ne].

Definition valid_syms (rs : list (str * num)) : bool := forallb valid_sym (map fst rs).

Definition sat (rs : list (str * num)) (j : join) (v : num) : Prop :=
  match j with
  | JAnd => Forall (fun sr => holds (fst sr) v (snd sr)) rs
  | JOr => Exists (fun sr => holds (fst sr) v (snd sr)) rs
  end.

(* ---- the same, executable, for the correspondence judge (tied to the Prop version by
        Proofs/C20RestrictedProofs.satb_iff) -------------------------------------------------- *)
Definition ext_ltb (a b : ext) : bool :=
  match a, b with
  | XFin x, XFin y => x <? y
  | XNeg, XFin _ | XNeg, XPos | XFin _, XPos => true
  | _, _ => false
  end.
Definition ext_eqb (a b : ext) : bool :=
  match a, b with
  | XFin x, XFin y => x =? y
  | XPos, XPos | XNeg, XNeg => true
  | _, _ => false
  end.
Definition holdsb (sym : str) (v ref : num) : bool :=
  let a := ext_of v in let r := ext_of ref in
  if str_eqb sym s_gt then ext_ltb r a
  else if str_eqb sym s_ge then ext_ltb r a || ext_eqb a r
  else if str_eqb sym s_lt then ext_ltb a r
  else if str_eqb sym s_le then ext_ltb a r || ext_eqb a r
  else if str_eqb sym s_eq then ext_eqb a r
  else if str_eqb sym s_ne then negb (ext_eqb a r)
  else false.
Definition satb (rs : list (str * num)) (j : join) (v : num) : bool :=
  match j with
  | JAnd => forallb (fun sr => holdsb (fst sr) v (snd sr)) rs
  | JOr => existsb (fun sr => holdsb (fst sr) v (snd sr)) rs
  end.

(* what T(v) must be: Some b = accepted with value b *)
Definition spec_construct (b : base) (rs : list (str * num)) (j : join) (v : pyval) : option num :=
  match conv b v with
  | Some x => if satb rs j x then Some x else None
  | None => None
  end.

(* what parsing a T-typed argument must give: the loaded value if it is acceptable, else the
   original text if that is acceptable *)
Definition spec_check_type (b : base) (rs : list (str * num)) (j : join) (loaded orig : pyval) : option num :=
  match spec_construct b rs j loaded with
  | Some x => Some x
  | None => match orig with PStr s => spec_construct b rs j (PStr s) | _ => None end
  end.

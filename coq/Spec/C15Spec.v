(* C15 — what the property demands of an OBSERVED run (independent of Model/C15Links: it shares only the value type
   and path lookup of Lib/C15Val). Inputs: the links the parser accepted, the keys of its class-typed arguments,
   the interpretation of the compute functions, and the observations (parsed configuration, dump, re-parse). *)
From JV Require Import Lib.Base Lib.C15Val.

Record slink := { s_src : list key; s_tgt : key; s_fn : option nat }.

Section Spec.
Variable fn : nat -> list val -> option val.
Variable class_keys : list key.           (* dests of class-typed arguments (single class or list of classes) *)

Definition dest_of (t : key) : option key :=
  find (fun d => is_prefix d t && negb (key_eqb d t)) class_keys.

(* the value(s) found at the position(s) a target key denotes: the key itself, or the same parameter of
   every item when the enclosing class argument holds a list *)
Definition target_vals (cfg : val) (t : key) : list val :=
  match dest_of t with
  | Some d =>
      match get cfg d with
      | Some (VList items) =>
          flat_map (fun it => match get it (skipn (length d) t) with Some v => [v] | None => [] end) items
      | _ => match get cfg t with Some v => [v] | None => [] end
      end
  | None => match get cfg t with Some v => [v] | None => [] end
  end.

Definition in_list (cfg : val) (t : key) : bool :=
  match dest_of t with
  | Some d => match get cfg d with Some (VList _) => true | _ => false end
  | None => false
  end.

(* target == compute_fn(final values of the sources); a link whose sources are not all present is not applied *)
Definition link_holds (cfg : val) (l : slink) : bool :=
  match mapM (get cfg) (s_src l) with
  | None => true
  | Some args =>
      match (match s_fn l with None => hd_error args | Some f => fn f args end) with
      | None => false                        (* the function fails on the final sources, yet the parse succeeded *)
      | Some v =>
          forallb (val_eqb v) (target_vals cfg (s_tgt l))
          && match dest_of (s_tgt l) with None => has cfg (s_tgt l) | Some _ => true end
      end
  end.

Definition invariant (links : list slink) (cfg : val) : bool := forallb (link_holds cfg) links.

(* the target is not among the required keys *)
Definition not_required (links : list slink) (required : list key) : bool :=
  forallb (fun l => negb (mem_key (s_tgt l) required)) links.

(* the option of a plain-argument target was used *)
Definition uses_target_option (links : list slink) (options : list key) : bool :=
  existsb (fun l => match dest_of (s_tgt l) with None => mem_key (s_tgt l) options | Some _ => false end) links.

(* targets absent from the dump: [lists] selects the targets that are parameters of list items *)
Definition dump_clean (lists : bool) (links : list slink) (cfg dump : val) : bool :=
  forallb (fun l => if Bool.eqb (in_list cfg (s_tgt l)) lists
                    then match target_vals dump (s_tgt l) with [] => true | _ => false end
                    else true) links.

(* re-parsing the dump reconstructs the target of every link: the same value(s) at the target's position(s).
   (That the SOURCES survive the round trip is not demanded here: property C01.) *)
Definition reparse_same (links : list slink) (cfg cfg2 : val) : bool :=
  forallb (fun l => list_eqb val_eqb (target_vals cfg (s_tgt l)) (target_vals cfg2 (s_tgt l))) links.

End Spec.

(* C14 — property theorems only. Each is closed by `exact` of a lemma proved in Proofs/C14Proofs.v
   (or by vm_compute for closed witnesses). *)
From JV Require Import Lib.Base Model.C14ClassSpec Spec.C14Spec Model.C14Guard Proofs.C14Proofs Proofs.C14ExtProofs.

(* (S1) Whatever a parse accepts is valid for the declared type: for EVERY well-formed class family, declared
   type, argument default and sequence of argv items (any notation), the accepted value names — by its
   class_path — a class that is a subclass of the declared type (or a function returning one), every init_args
   key is a parameter of that very callable with a value of the parameter's type (recursively for class-typed
   parameters), and every required parameter is present.  Holds for the code as it is (rs = restr) and for the
   repaired NestedArg rendering (rs = identity). *)
Theorem C14_accepted_is_subclass_and_valid :
  forall (F : family) (rs : raw -> raw) (base : str) (dflt : option value) (steps : list input) (v : value),
    fam_wf F = true ->
    parse_with F rs base dflt steps = Ok v ->
    valid F base v = true.
Proof. exact parse_with_valid. Qed.
Print Assumptions C14_accepted_is_subclass_and_valid.

Example C14_accepted_nonvacuous :
  fam_wf x_fam = true /\
  exists ia, parse x_fam x_Top None x_steps_ok = Ok (VSpec (path_of x_fam x_Top) ia []).
Proof. split; [vm_compute; reflexivity | eexists; vm_compute; reflexivity]. Qed.
Print Assumptions C14_accepted_nonvacuous.

(* (S2) instantiate_classes builds exactly the configured object: whenever the instantiation of ANY configuration
   value succeeds, the constructor log has one call per spec node, every call only receives objects built
   before it (children first), and the object handed back, read off the log, is the one the configuration
   denotes (Spec.denote): an instance of exactly the class named by class_path, called with exactly
   init_args updated by dict_kwargs, nested class arguments passed as the objects they denote. *)
Theorem C14_instantiate_exact :
  forall (F : family) (n : nat) (v : value) (a : arg) (log : list entry),
    inst F n v [] = Ok (a, log) ->
    length log = nodes v /\ backward 0 log = true /\ arg_tree (trees log) a = denote F v.
Proof. exact inst_exact. Qed.
Print Assumptions C14_instantiate_exact.

(* (S1)+(S2) no TypeError on an accepted spec: if a parse accepts v, no class in v is abstract and every
   dict_kwargs key goes to a callable with a var-keyword parameter (dict_kwargs are documented as not validated),
   then instantiation succeeds and builds exactly the configured object. *)
Theorem C14_accepted_builds_configured_object :
  forall (F : family) (rs : raw -> raw) (base : str) (dflt : option value) (steps : list input) (v : value) (n : nat),
    fam_wf F = true ->
    parse_with F rs base dflt steps = Ok v ->
    instantiable F v = true -> dk_accepted F v = true -> depth v < n ->
    exists a log, inst F n v [] = Ok (a, log) /\
                  length log = nodes v /\ backward 0 log = true /\ arg_tree (trees log) a = denote F v.
Proof. exact accepted_builds. Qed.
Print Assumptions C14_accepted_builds_configured_object.

Example C14_accepted_builds_nonvacuous :
  exists v, parse x_fam x_Top None x_steps_ok = Ok v /\
            instantiable x_fam v = true /\ dk_accepted x_fam v = true /\ Nat.ltb (depth v) FUEL = true /\ nodes v = 2.
Proof. eexists. vm_compute. repeat split; try reflexivity. Qed.
Print Assumptions C14_accepted_builds_nonvacuous.

(* (S3) is violated by the code as it is: `--x.mid=Mid --x.mid.leaf=null` (a dotted sub-option two levels
   below the argument carrying null) is rejected, its explicit form is accepted; finding class 1. *)
Theorem C14_dotted_null_refuted :
  exists (F : family) (base : str) (steps : list input),
    fam_wf F = true /\ guard_class F base None steps = 1%N /\
    run F base None steps = ORej /\
    exists v io, run F base None (expand_steps F base None steps) = OAcc v io.
Proof.
  exists x_fam, x_Top, x_steps_null. vm_compute. repeat split; try reflexivity. eexists; eexists; reflexivity.
Qed.
Print Assumptions C14_dotted_null_refuted.

(* with the NestedArg value handed down unchanged (fixes/C14-nested-null-restringified.patch) the same input
   behaves like its explicit form *)
Example C14_dotted_null_fixed :
  obs_eqb (run_fixed x_fam x_Top None x_steps_null)
          (run_fixed x_fam x_Top None (expand_steps x_fam x_Top None x_steps_null)) = true.
Proof. vm_compute. reflexivity. Qed.
Print Assumptions C14_dotted_null_fixed.

(* (S3), partial: short forms, for ALL families / states / modes.  One argv item in short notation and its explicit
   form are adapted to the same result, whatever value the argument currently holds:
     --x=Name                      ~  --x={"class_path": "<resolved path>"}
     --x={"class_path": "Name",..} ~  the same dict with the resolved path
     --x={"init_args": ..}         ~  --x={"class_path": "<current class>", "init_args": ..}
     --x={"k": v}                  ~  --x={"class_path": "<current class>", "init_args": {"k": v}}
     --x.k=v, --x.init_args.k=v    ~  --x={"k": v}
   and therefore a whole argv in which every such item is replaced by its explicit form (explicit_argv; "current
   class" = the class_path the argument holds when the item is parsed) gives the same run: same accept/reject, same
   normalised spec, same constructor log.  Dotted keys two or more levels deep are NOT covered (left as they are by
   explicit_argv); they are only compared per case by the correspondence run (and are where the finding lives). *)
Theorem C14_short_forms_same_run :
  forall (F : family) (rs : raw -> raw) (base : str) (dflt : option value) (steps : list input),
    run_with F rs base dflt (explicit_argv F rs base dflt steps) = run_with F rs base dflt steps.
Proof. exact run_explicit. Qed.
Print Assumptions C14_short_forms_same_run.

Theorem C14_short_form_one_item :
  forall (F : family) (rs : raw -> raw) (n : nat) (m : mode) (base : str) (cfg : option value) (i : input),
    adapt F rs n m base cfg (norm_step (explicit1 F base cfg i)) = adapt F rs n m base cfg (norm_step i).
Proof. exact explicit1_same. Qed.
Print Assumptions C14_short_form_one_item.

(* the rewriting is not the identity: name-only, one-level dotted and bare-dict items become explicit dicts *)
Example C14_short_forms_nonvacuous :
  explicit_argv x_fam restr x_Top None
    [IRaw (RStr x_Top); INested [x_mid] (RStr x_Mid); IRaw (RDict [(x_mid, RNull)])]
  = [IRaw (RDict [(s_class_path, RStr (path_of x_fam x_Top))]);
     IRaw (RDict [(s_class_path, RStr (path_of x_fam x_Top)); (s_init_args, RDict [(x_mid, RStr x_Mid)])]);
     IRaw (RDict [(s_class_path, RStr (path_of x_fam x_Top)); (s_init_args, RDict [(x_mid, RNull)])])].
Proof. vm_compute. reflexivity. Qed.
Print Assumptions C14_short_forms_nonvacuous.

(* (S3), bare class names: for ALL families (also families in which a second module defines a homonym of a class:
   fam_shadows), declared types, states, modes and fuels - an item consisting of a class name without "." (alone, or as
   the class_path of a spec dict) is accepted ONLY IF exactly one non-abstract public subclass of the declared type
   carries that name (`listed`) and the name is not ambiguous; otherwise the item is rejected - no candidate is picked
   silently.  Together with C14_short_form_one_item (the accepted name behaves like the explicit path of that one
   class) this is "class name only denotes the same configuration as the explicit form". *)
Theorem C14_bare_name_accepted_only_if_unique :
  forall (F : family) (rs : raw -> raw) (n : nat) (m : mode) (base : str) (prev : option value) (nm : str) (v : value),
    has_dot nm = false ->
    adapt F rs n m base prev (IRaw (RStr nm)) = Ok v ->
    exists k, listed F base nm = [k] /\ ambiguous F base nm = false.
Proof. exact bare_name_unique. Qed.
Print Assumptions C14_bare_name_accepted_only_if_unique.

Theorem C14_bare_name_in_dict_accepted_only_if_unique :
  forall (F : family) (rs : raw -> raw) (n : nat) (m : mode) (base : str) (prev : option value)
         (d : list (str * raw)) (nm : str) (v : value),
    has_dot nm = false -> is_spec_dict d = true -> aget s_class_path d = Some (RStr nm) ->
    adapt F rs n m base prev (IRaw (RDict d)) = Ok v ->
    exists k, listed F base nm = [k] /\ ambiguous F base nm = false.
Proof. exact bare_name_in_dict_unique. Qed.
Print Assumptions C14_bare_name_in_dict_accepted_only_if_unique.

(* whole runs: whatever the default and the earlier items, a last item that is a bare name with no or several candidates
   (none listed, or a homonym in a second module) makes parse fail *)
Theorem C14_ambiguous_name_rejected :
  forall (F : family) (rs : raw -> raw) (base : str) (dflt : option value) (steps : list input) (nm : str),
    has_dot nm = false ->
    (forall k, listed F base nm = [k] -> ambiguous F base nm = true) ->
    run_with F rs base dflt (steps ++ [IRaw (RStr nm)]) = ORej.
Proof. exact not_unique_rejected. Qed.
Print Assumptions C14_ambiguous_name_rejected.

(* the hypotheses are satisfiable and the statement is not vacuous: in y_fam (module jvfamy: Base, Sub(Base), Deep(Sub);
   module jvfamy_alt: a second Sub(Base)) the name Sub is ambiguous below Base - rejected - while its explicit path,
   the unshadowed name Deep, and the same name Sub for the declared type Sub itself (the homonym is no subclass of
   it) are accepted *)
Example C14_ambiguous_nonvacuous :
  fam_wf y_fam = true /\
  ambiguous y_fam y_Base y_Sub = true /\ length (listed y_fam y_Base y_Sub) = 1 /\
  run y_fam y_Base None [IRaw (RStr y_Sub)] = ORej /\
  (exists v io, run y_fam y_Base None [IRaw (RStr (path_of y_fam y_Sub))] = OAcc v io) /\
  (exists v io, run y_fam y_Base None [IRaw (RStr y_Deep)] = OAcc v io) /\
  (exists v io, run y_fam y_Sub None [IRaw (RStr y_Sub)] = OAcc v io).
Proof. vm_compute. repeat split; try reflexivity; eexists; eexists; reflexivity. Qed.
Print Assumptions C14_ambiguous_nonvacuous.

(* (S1) for families whose class-typed parameters DEFAULT TO A CLASS SPEC (lazy_instance(Sub, k=v, ..)): fam_wf2 =
   fam_wf_ext (the families the correspondence run generates) + every spec default has no dict_kwargs and int / str
   init_args for int / str parameters of its class (sdef_ok) + no parameter name is str-typed in one callable and
   class-typed in another (names_typed).  In these families the defaults pass meets previous values that are specs (the
   completed default is the previous value of what the user gives for that parameter, its init_args survive a class
   change where the new class takes them); the proof carries the invariant "every previous value of the defaults pass
   is itself good for the parameter's class and free of dict_kwargs" (Proofs/C14ExtProofs.v: okprev, adapt_p1x,
   keep_arg_tyn). *)
Theorem C14_accepted_is_subclass_and_valid_spec_defaults :
  forall (F : family) (rs : raw -> raw) (base : str) (dflt : option value) (steps : list input) (v : value),
    fam_wf2 F = true ->
    parse_with F rs base dflt steps = Ok v ->
    valid F base v = true.
Proof. exact parse_with_validx. Qed.
Print Assumptions C14_accepted_is_subclass_and_valid_spec_defaults.

Theorem C14_accepted_builds_configured_object_spec_defaults :
  forall (F : family) (rs : raw -> raw) (base : str) (dflt : option value) (steps : list input) (v : value) (n : nat),
    fam_wf2 F = true ->
    parse_with F rs base dflt steps = Ok v ->
    instantiable F v = true -> dk_accepted F v = true -> depth v < n ->
    exists a log, inst F n v [] = Ok (a, log) /\
                  length log = nodes v /\ backward 0 log = true /\ arg_tree (trees log) a = denote F v.
Proof. exact accepted_buildsx. Qed.
Print Assumptions C14_accepted_builds_configured_object_spec_defaults.

(* satisfiable and beyond the first theorem: z_fam (Outer(inner: Base = lazy_instance(Sub, y=7), opt: Optional[Base] =
   lazy_instance(Oth))) is fam_wf2 but not fam_wf; `--x.inner=Oth` is accepted and the y=7 of the default survives the
   class change (Oth takes y) *)
Example C14_spec_defaults_nonvacuous :
  fam_wf2 z_fam = true /\ fam_wf z_fam = false /\
  exists ia, parse z_fam z_Outer None z_steps = Ok (VSpec (path_of z_fam z_Outer) ia []) /\
             aget z_inner ia = Some (VSpec (path_of z_fam z_Oth) [([121]%N, VInt 7)] []).
Proof. split; [vm_compute; reflexivity|]. split; [vm_compute; reflexivity|]. eexists. vm_compute. split; reflexivity. Qed.
Print Assumptions C14_spec_defaults_nonvacuous.

(* finding class 2 (open: string-default-unchecked): the code as it is accepts an option default given as a string that
   names a class which is NOT a subclass of the declared type (x_Leaf for the declared type x_Top) when no item
   addresses the option: the accepted "value" is the string itself - not valid - and it is handed on by
   instantiate_classes; the same class_path as a dict default is rejected (run). *)
Theorem C14_string_default_refuted :
  exists (F : family) (base cp : str),
    fam_wf F = true /\ dstr_class F base (Some (VSpec cp [] [])) [] true = 2%N /\
    run F base (Some (VSpec cp [] [])) [] = ORej /\
    exists v io, run_dstr restr run F base (Some (VSpec cp [] [])) [] true = OAcc v io /\ valid F base v = false.
Proof.
  exists x_fam, x_Top, (path_of x_fam x_Leaf). vm_compute. repeat split; try reflexivity. eexists; eexists; split; reflexivity.
Qed.
Print Assumptions C14_string_default_refuted.

From JV Require Import Lib.Base Model.C14ClassSpec.

(* C17 — exactly one subcommand is selected and only its settings survive.
   Property theorems only; proofs in Proofs/C17SubcmdProofs.v.

   parse : variant -> fuel -> parser -> input -> res ns   is the model of parse_args / parse_object /
   parse_string (with or without default_env=True) over subcommand trees of ANY depth and width
   (Model/C17Subcmd.v).  `orig` is the pinned tree, bugs included; the other variants are the tree
   after fixes/C17-*.patch (theorems C17_fixed_... at the end).  `Sel false p cfg` (Spec/C17SubcmdSpec.v) says, at every level of nesting:
   the subcommand key holds the name of a declared subcommand, that subcommand's section is present
   and complete (every declared option has a value), the section is itself well selected, and no
   other subcommand has a section; or, for an optional subcommand only, the key holds no name and
   no subcommand has a section.  `wf p`: option names, subcommand names and dest are pairwise
   different in each parser of the tree and no subcommand is named "".
   Ok excludes OutOfFuel, so the statements hold for every fuel. *)
From JV Require Import Lib.Base Model.C17Subcmd Spec.C17SubcmdSpec Proofs.C17SubcmdProofs Proofs.C17SelectProofs.

(* FULL STATEMENT (false of the unchanged code, see C17_falsy_name_refuted):
     forall fuel p x cfg, wf p -> parse orig fuel p x = Ok cfg -> Sel false p cfg.                    *)

(* What holds without any guard: the only way out is a level whose subcommand key holds a falsy
   value that is not None ("" or 0) — finding falsy-subcommand-name-keeps-all-sections *)
Theorem C17_one_selected_or_falsy :
  forall fuel p x cfg, wf p -> parse orig fuel p x = Ok cfg -> Sel true p cfg.
Proof. exact one_selected_or_falsy_orig. Qed.
Print Assumptions C17_one_selected_or_falsy.

(* The guarded statement.  dest_truthy is the very function the judge evaluates for class 1. *)
Theorem C17_one_selected :
  forall fuel p x cfg, wf p -> parse orig fuel p x = Ok cfg -> dest_truthy p cfg = true -> Sel false p cfg.
Proof. exact one_selected. Qed.
Print Assumptions C17_one_selected.

(* a required subcommand: every successful parse names a declared subcommand and carries its
   complete section — so when none can be determined the parse fails *)
Theorem C17_required_selected :
  forall fuel p x cfg, wf p -> p_has p = true -> p_req p = true ->
    parse orig fuel p x = Ok cfg -> dest_truthy p cfg = true ->
    exists n sp sec, get (p_dest p) cfg = Some (NStr n) /\ assoc n (p_choices p) = Some sp /\
                     get n cfg = Some (NNs sec) /\ complete sp sec = true.
Proof. exact required_selected. Qed.
Print Assumptions C17_required_selected.

(* the error branch itself, for EVERY tree with a required subcommand: nothing given => rejected
   with the documented "expected <dest> to be one of ..." error, not by running out of fuel *)
Theorem C17_required_missing_fails :
  forall p f, wf p -> p_has p = true -> p_req p = true ->
    parse orig (S (S f)) p {| i_env := None; i_entry := EObject [] |} = Err NoSubcommand /\
    parse orig (S (S f)) p {| i_env := None; i_entry := EString [] |} = Err NoSubcommand /\
    parse orig (S (S f)) p {| i_env := None; i_entry := EArgs (ArgvT [] None) |} = Err NoSubcommand.
Proof. exact (required_missing_fails_empty orig). Qed.
Print Assumptions C17_required_missing_fails.

(* an optional subcommand that is not selected: the key holds no name and NO section is present *)
Theorem C17_optional_missing_gives_none :
  forall fuel p x cfg, wf p -> p_has p = true ->
    parse orig fuel p x = Ok cfg -> dest_truthy p cfg = true ->
    (get (p_dest p) cfg = None \/ get (p_dest p) cfg = Some NNone) ->
    p_req p = false /\ forall o, In o (p_names p) -> is_ns (get o cfg) = false.
Proof. exact optional_missing_gives_none. Qed.
Print Assumptions C17_optional_missing_gives_none.

(* the checker used by the judge on every correspondence case implies the hypothesis wf *)
Theorem C17_wf_checker_sound : forall f p, wf_b f p = true -> wf p.
Proof. exact wf_b_sound. Qed.
Print Assumptions C17_wf_checker_sound.

(* the hypotheses are satisfiable: a well-formed tree, a successful parse with a truthy result that
   selects b because only b was given settings *)
Example C17_hypotheses_satisfiable :
  wf p_opt /\
  exists cfg, parse orig 10 p_opt {| i_env := None; i_entry := EObject [(s_b, CObj [(s_y, CInt 7)])] |} = Ok cfg /\
              dest_truthy p_opt cfg = true /\ get s_sub cfg = Some (NStr s_b) /\
              get s_b cfg = Some (NNs [(s_y, NInt 7)]) /\ get s_a cfg = None.
Proof. split; [exact wf_p_opt|]. eexists. vm_compute. repeat split. Qed.

(* finding 1: optional subcommands, the object names "" and gives settings for a and b: the parse
   succeeds, stores "" and keeps BOTH sections — the full statement is false *)
Theorem C17_falsy_name_refuted :
  exists fuel p x cfg, wf p /\ parse orig fuel p x = Ok cfg /\ ~ Sel false p cfg /\
                       is_ns (get s_a cfg) = true /\ is_ns (get s_b cfg) = true.
Proof. exact falsy_name_refuted. Qed.
Print Assumptions C17_falsy_name_refuted.

(* finding 2 (it concerns WHICH subcommand the rule of the statement picks, i.e. Spec.select, not
   the shape): a --cfg value that names b and carries sections for a and b, followed by the token
   a on the command line: a is selected but the nested choice the config gave for a is lost;
   Spec.select demands a.q.  input_consistent is the judge's class-2 guard. *)
Definition x_cfg_other : input :=
  {| i_env := None;
     i_entry := EArgs (ArgvT [ICfg [(s_sub, CStr s_b); (s_a, CObj [(s_q, CObj [(s_w, CInt 8)])]); (s_b, CObj [(s_y, CInt 1)])]]
                             (Some (s_a, ArgvT [] None))) |}.
Theorem C17_cfg_names_other_refuted :
  exists cfg, parse orig 10 p_nested x_cfg_other = Ok cfg /\
              input_consistent 10 p_nested x_cfg_other = false /\
              select p_nested (top_level x_cfg_other) = Some s_a /\
              select p_a (sub_level (top_level x_cfg_other) s_a) = Some s_q /\
              get s_cmd (as_ns (get s_a cfg)) = Some NNone /\
              spec_ok 10 p_nested (top_level x_cfg_other) cfg = false.
Proof. eexists. vm_compute. repeat split. Qed.
Print Assumptions C17_cfg_names_other_refuted.

(* finding 3: parser.parse_env(mapping) — the environment of this parse is the mapping, but
   handle_subcommands lets the sub-parsers read os.environ: the mapping names a and says nothing about
   a's optional inner subcommand; os.environ (not given to this parse) names q below a and a value for
   it; the result selects a.q with that value.  osenv_clean is the judge's class-3 guard. *)
Definition x_env_decoy : input :=
  {| i_env := Some [(s_a, CObj [(s_cmd, CStr s_q); (s_q, CObj [(s_w, CInt 55)])])];
     i_entry := EEnv [(s_sub, CStr s_a)] |}.
Theorem C17_env_mapping_decoy_refuted :
  exists cfg, parse orig 10 p_nested x_env_decoy = Ok cfg /\
              osenv_clean x_env_decoy = false /\
              select p_nested (top_level x_env_decoy) = Some s_a /\
              select p_a (sub_level (top_level x_env_decoy) s_a) = None /\
              get s_cmd (as_ns (get s_a cfg)) = Some (NStr s_q) /\
              get s_w (as_ns (get s_q (as_ns (get s_a cfg)))) = Some (NInt 55) /\
              spec_ok 10 p_nested (top_level x_env_decoy) cfg = false.
Proof. eexists. vm_compute. repeat split. Qed.
Print Assumptions C17_env_mapping_decoy_refuted.

(* ---------- WHICH subcommand is chosen: the explicit channels of the rule, in every variant ---------- *)
(* "The choice is the one named on the command line": for every tree, every option / --cfg item before
   the token (a --cfg value may name another subcommand), every rest of the command line and every
   environment, a successful parse_args stores the token under the subcommand key *)
Theorem C17_command_line_name_wins :
  forall fx fuel env p items n rest cfg, wf p ->
    parse fx fuel p {| i_env := env; i_entry := EArgs (ArgvT items (Some (n, rest))) |} = Ok cfg ->
    In n (p_names p) /\ get (p_dest p) cfg = Some (NStr n).
Proof. exact argv_name_wins. Qed.
Print Assumptions C17_command_line_name_wins.

(* "else the one named in the config": parse_object / parse_string with the subcommand key set, with or
   without default_env and whatever the environment names or which sections carry settings *)
Theorem C17_config_name_wins :
  forall fx fuel env p c n cfg, wf p -> p_has p = true -> named_in (p_dest p) c = Some n ->
    (parse fx fuel p {| i_env := env; i_entry := EObject c |} = Ok cfg \/
     parse fx fuel p {| i_env := env; i_entry := EString c |} = Ok cfg) ->
    get (p_dest p) cfg = Some (NStr n).
Proof. exact object_name_wins. Qed.
Print Assumptions C17_config_name_wins.

(* "else the one named in the ... environment": parser.parse_env(mapping) whose mapping names a declared
   subcommand stores it, whatever else the mapping holds and whatever os.environ holds (every variant) *)
Theorem C17_environment_name_wins :
  forall fx fuel os p m n cfg, wf p -> p_has p = true -> named_in (p_dest p) m = Some n -> In n (p_names p) ->
    parse fx fuel p {| i_env := os; i_entry := EEnv m |} = Ok cfg -> get (p_dest p) cfg = Some (NStr n).
Proof. exact env_name_wins. Qed.
Print Assumptions C17_environment_name_wins.

(* THE WHOLE RULE for the config entry points (round 6): for every tree, every variant, every environment (read or not)
   and every JSON object c whose subcommand key is absent or a string, what a successful parse_object(c) /
   parse_string(c) stores under the subcommand key is Spec.select evaluated on the INPUTS: the name in c; else the
   declared name the environment gives; else the first DECLARED subcommand for which c gives settings (a section
   with at least one value) - whatever other sections there are; else nothing (None).  This adds the clauses
   "else the one named in the ... environment" (for these entry points) and "else the first one for which settings
   were given", and the fact that nothing else is ever chosen, to C17_config_name_wins. *)
Theorem C17_config_entry_selection_rule :
  forall fx fuel env p c cfg, wf p -> p_has p = true -> json_ok (CObj c) = true -> dest_key_plain p c = true ->
    (parse fx fuel p {| i_env := env; i_entry := EObject c |} = Ok cfg \/
     parse fx fuel p {| i_env := env; i_entry := EString c |} = Ok cfg) ->
    get (p_dest p) cfg = match select p (top_level {| i_env := env; i_entry := EObject c |}) with
                         | Some n => Some (NStr n)
                         | None => Some NNone
                         end.
Proof. exact config_entry_select. Qed.
Print Assumptions C17_config_entry_selection_rule.

(* its hypotheses are satisfiable, one example per new clause: (1) settings for a and b, no key: a (declared first)
   is chosen and b's section is gone; (2) the environment names b while the object gives settings for a: b;
   (3) nothing given, optional: None *)
Example C17_selection_rule_satisfiable :
  (let c := [(s_b, CObj [(s_y, CInt 7)]); (s_a, CObj [(s_x, CInt 5)])] in
   json_ok (CObj c) = true /\ dest_key_plain p_opt c = true /\
   select p_opt (top_level {| i_env := None; i_entry := EObject c |}) = Some s_a /\
   exists cfg, parse orig 10 p_opt {| i_env := None; i_entry := EObject c |} = Ok cfg /\
               get s_sub cfg = Some (NStr s_a) /\ get s_b cfg = None) /\
  (let c := [(s_a, CObj [(s_x, CInt 5)])] in
   let env := Some [(s_sub, CStr s_b)] in
   select p_opt (top_level {| i_env := env; i_entry := EString c |}) = Some s_b /\
   exists cfg, parse orig 10 p_opt {| i_env := env; i_entry := EString c |} = Ok cfg /\
               get s_sub cfg = Some (NStr s_b) /\ get s_a cfg = None) /\
  (select p_opt (top_level {| i_env := None; i_entry := EObject [] |}) = None /\
   exists cfg, parse orig 10 p_opt {| i_env := None; i_entry := EObject [] |} = Ok cfg /\ get s_sub cfg = Some NNone).
Proof. vm_compute. repeat split; eexists; repeat split. Qed.

(* both hypotheses are satisfiable: the command line names a although the --cfg value names b; the
   object names b although settings are given for a (declared first) *)
Example C17_name_wins_satisfiable :
  (exists cfg, parse orig 10 p_nested x_cfg_other = Ok cfg /\ get s_sub cfg = Some (NStr s_a)) /\
  (exists cfg, parse orig 10 p_opt {| i_env := None; i_entry := EObject [(s_a, CObj [(s_x, CInt 5)]); (s_sub, CStr s_b)] |} = Ok cfg /\
               get s_sub cfg = Some (NStr s_b) /\ get s_a cfg = None).
Proof. split; eexists; vm_compute; repeat split. Qed.

(* ---------- the repaired trees ---------- *)
(* with fixes/C17-falsy-subcommand-name-keeps-all-sections.patch (fx_falsy = true, whatever fx_cfg is)
   the FULL statement holds, no guard: judge variants judge_fixed_falsy / judge_fixed_both *)
Theorem C17_fixed_one_selected :
  forall fx fuel p x cfg, fx_falsy fx = true -> wf p -> parse fx fuel p x = Ok cfg -> Sel false p cfg.
Proof. exact fixed_one_selected. Qed.
Print Assumptions C17_fixed_one_selected.

Theorem C17_fixed_required_selected :
  forall fx fuel p x cfg, fx_falsy fx = true -> wf p -> p_has p = true -> p_req p = true ->
    parse fx fuel p x = Ok cfg ->
    exists n sp sec, get (p_dest p) cfg = Some (NStr n) /\ assoc n (p_choices p) = Some sp /\
                     get n cfg = Some (NNs sec) /\ complete sp sec = true.
Proof. exact fixed_required_selected. Qed.
Print Assumptions C17_fixed_required_selected.

Theorem C17_fixed_optional_missing_gives_none :
  forall fx fuel p x cfg, fx_falsy fx = true -> wf p -> p_has p = true ->
    parse fx fuel p x = Ok cfg ->
    (get (p_dest p) cfg = None \/ get (p_dest p) cfg = Some NNone) ->
    p_req p = false /\ forall o, In o (p_names p) -> is_ns (get o cfg) = false.
Proof. exact fixed_optional_missing_gives_none. Qed.
Print Assumptions C17_fixed_optional_missing_gives_none.

(* the error branch holds in every variant *)
Theorem C17_any_variant_required_missing_fails :
  forall fx p f, wf p -> p_has p = true -> p_req p = true ->
    parse fx (S (S f)) p {| i_env := None; i_entry := EObject [] |} = Err NoSubcommand /\
    parse fx (S (S f)) p {| i_env := None; i_entry := EString [] |} = Err NoSubcommand /\
    parse fx (S (S f)) p {| i_env := None; i_entry := EArgs (ArgvT [] None) |} = Err NoSubcommand.
Proof. exact required_missing_fails_empty. Qed.
Print Assumptions C17_any_variant_required_missing_fails.

(* the two failing inputs on the repaired trees: the falsy name is rejected with the documented
   error; the --cfg value naming b no longer costs a its settings and the result is what the
   selection rule demands *)
Example C17_fixed_falsy_input_rejected :
  parse {| fx_falsy := true; fx_cfg := false; fx_envmap := false |} 10 p_opt x_falsy = Err NoSubcommand.
Proof. vm_compute. reflexivity. Qed.

Example C17_fixed_cfg_input_keeps_settings :
  exists cfg, parse {| fx_falsy := false; fx_cfg := true; fx_envmap := false |} 10 p_nested x_cfg_other = Ok cfg /\
              get s_cmd (as_ns (get s_a cfg)) = Some (NStr s_q) /\
              get s_w (as_ns (get s_q (as_ns (get s_a cfg)))) = Some (NInt 8) /\
              spec_ok 10 p_nested (top_level x_cfg_other) cfg = true.
Proof. eexists. vm_compute. repeat split. Qed.

Example C17_fixed_env_mapping_input_ignores_os_environ :
  exists cfg, parse {| fx_falsy := false; fx_cfg := false; fx_envmap := true |} 10 p_nested x_env_decoy = Ok cfg /\
              get s_cmd (as_ns (get s_a cfg)) = Some NNone /\
              get s_q (as_ns (get s_a cfg)) = None /\
              spec_ok 10 p_nested (top_level x_env_decoy) cfg = true.
Proof. eexists. vm_compute. repeat split. Qed.

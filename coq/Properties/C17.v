(* C17 — exactly one subcommand is selected and only its settings survive.
   Property theorems only; proofs in Proofs/C17SubcmdProofs.v.

   parse : fuel -> parser -> input -> res ns   is the model of parse_args / parse_object /
   parse_string (with or without default_env=True) over subcommand trees of ANY depth and width
   (Model/C17Subcmd.v).  `Sel false p cfg` (Spec/C17SubcmdSpec.v) says, at every level of nesting:
   the subcommand key holds the name of a declared subcommand, that subcommand's section is present
   and complete (every declared option has a value), the section is itself well selected, and no
   other subcommand has a section; or, for an optional subcommand only, the key holds no name and
   no subcommand has a section.  `wf p`: option names, subcommand names and dest are pairwise
   different in each parser of the tree and no subcommand is named "".
   Ok excludes OutOfFuel, so the statements hold for every fuel. *)
From JV Require Import Lib.Base Model.C17Subcmd Spec.C17SubcmdSpec Proofs.C17SubcmdProofs.

(* FULL STATEMENT (false of the unchanged code, see C17_falsy_name_refuted):
     forall fuel p x cfg, wf p -> parse fuel p x = Ok cfg -> Sel false p cfg.                    *)

(* What holds without any guard: the only way out is a level whose subcommand key holds a falsy
   value that is not None ("" or 0) — finding falsy-subcommand-name-keeps-all-sections *)
Theorem C17_one_selected_or_falsy :
  forall fuel p x cfg, wf p -> parse fuel p x = Ok cfg -> Sel true p cfg.
Proof. exact one_selected_or_falsy. Qed.
Print Assumptions C17_one_selected_or_falsy.

(* The guarded statement.  dest_truthy is the very function the judge evaluates for class 1. *)
Theorem C17_one_selected :
  forall fuel p x cfg, wf p -> parse fuel p x = Ok cfg -> dest_truthy p cfg = true -> Sel false p cfg.
Proof. exact one_selected. Qed.
Print Assumptions C17_one_selected.

(* a required subcommand: every successful parse names a declared subcommand and carries its
   complete section — so when none can be determined the parse fails *)
Theorem C17_required_selected :
  forall fuel p x cfg, wf p -> p_has p = true -> p_req p = true ->
    parse fuel p x = Ok cfg -> dest_truthy p cfg = true ->
    exists n sp sec, get (p_dest p) cfg = Some (NStr n) /\ assoc n (p_choices p) = Some sp /\
                     get n cfg = Some (NNs sec) /\ complete sp sec = true.
Proof. exact required_selected. Qed.
Print Assumptions C17_required_selected.

(* the error branch itself, for EVERY tree with a required subcommand: nothing given => rejected
   with the documented "expected <dest> to be one of ..." error, not by running out of fuel *)
Theorem C17_required_missing_fails :
  forall p f, wf p -> p_has p = true -> p_req p = true ->
    parse (S (S f)) p {| i_env := None; i_entry := EObject [] |} = Err NoSubcommand /\
    parse (S (S f)) p {| i_env := None; i_entry := EString [] |} = Err NoSubcommand /\
    parse (S (S f)) p {| i_env := None; i_entry := EArgs (ArgvT [] None) |} = Err NoSubcommand.
Proof. exact required_missing_fails_empty. Qed.
Print Assumptions C17_required_missing_fails.

(* an optional subcommand that is not selected: the key holds no name and NO section is present *)
Theorem C17_optional_missing_gives_none :
  forall fuel p x cfg, wf p -> p_has p = true ->
    parse fuel p x = Ok cfg -> dest_truthy p cfg = true ->
    (get (p_dest p) cfg = None \/ get (p_dest p) cfg = Some NNone) ->
    p_req p = false /\ forall o, In o (p_names p) -> is_ns (get o cfg) = false.
Proof. exact optional_missing_gives_none. Qed.
Print Assumptions C17_optional_missing_gives_none.

(* the checker used by the judge on every correspondence case implies the hypothesis wf *)
Theorem C17_wf_checker_sound : forall f p, wf_b f p = true -> wf p.
Proof. exact wf_b_sound. Qed.
Print Assumptions C17_wf_checker_sound.

(* the hypotheses are satisfiable: a well-formed tree, a successful parse with a truthy result that
   selects b because only b was given settings *)
Example C17_hypotheses_satisfiable :
  wf p_opt /\
  exists cfg, parse 10 p_opt {| i_env := None; i_entry := EObject [(s_b, CObj [(s_y, CInt 7)])] |} = Ok cfg /\
              dest_truthy p_opt cfg = true /\ get s_sub cfg = Some (NStr s_b) /\
              get s_b cfg = Some (NNs [(s_y, NInt 7)]) /\ get s_a cfg = None.
Proof. split; [exact wf_p_opt|]. eexists. vm_compute. repeat split. Qed.

(* finding 1: optional subcommands, the object names "" and gives settings for a and b: the parse
   succeeds, stores "" and keeps BOTH sections — the full statement is false *)
Theorem C17_falsy_name_refuted :
  exists fuel p x cfg, wf p /\ parse fuel p x = Ok cfg /\ ~ Sel false p cfg /\
                       is_ns (get s_a cfg) = true /\ is_ns (get s_b cfg) = true.
Proof. exact falsy_name_refuted. Qed.
Print Assumptions C17_falsy_name_refuted.

(* finding 2 (it concerns WHICH subcommand the rule of the statement picks, i.e. Spec.select, not
   the shape): a --cfg value that names b and carries sections for a and b, followed by the token
   a on the command line: a is selected but the nested choice the config gave for a is lost;
   Spec.select demands a.q.  input_consistent is the judge's class-2 guard. *)
Definition x_cfg_other : input :=
  {| i_env := None;
     i_entry := EArgs (ArgvT [ICfg [(s_sub, CStr s_b); (s_a, CObj [(s_q, CObj [(s_w, CInt 8)])]); (s_b, CObj [(s_y, CInt 1)])]]
                             (Some (s_a, ArgvT [] None))) |}.
Theorem C17_cfg_names_other_refuted :
  exists cfg, parse 10 p_nested x_cfg_other = Ok cfg /\
              input_consistent 10 p_nested x_cfg_other = false /\
              select p_nested (top_level x_cfg_other) = Some s_a /\
              select p_a (sub_level (top_level x_cfg_other) s_a) = Some s_q /\
              get s_cmd (as_ns (get s_a cfg)) = Some NNone /\
              spec_ok 10 p_nested (top_level x_cfg_other) cfg = false.
Proof. eexists. vm_compute. repeat split. Qed.
Print Assumptions C17_cfg_names_other_refuted.

(* C18 — save never destroys data. Property theorems only; lemmas are in Proofs/SaveFSProofs.v.
   `save` is Model/SaveFS.v: the step list of ArgumentParser.save over a directory  name -> File c | Dir,
   with validate / dump_using_format / get_content as an oracle carried by the input.
   All statements quantify over EVERY input: any directory content, any number of sub-files in any
   declaration order, any oracle (which step fails, including an injected n-th serialiser call). *)
From JV Require Import Lib.Base Model.SaveFS Spec.SaveFSSpec Proofs.SaveFSProofs.

(* ---- (a) no silent overwrite ------------------------------------------------------------- *)
(* Without overwrite=True every regular file that existed is still there with the same content,
   whether the save succeeds or fails, in single- and multi-file mode. *)
Theorem C18_no_silent_overwrite :
  forall i, i_overwrite i = false ->
  forall n c, lookup (i_fs i) n = Some (File c) -> lookup (fst (save i)) n = Some (File c).
Proof. exact no_silent_overwrite_lemma. Qed.
Print Assumptions C18_no_silent_overwrite.

(* ... and an existing target is refused before anything happens *)
Theorem C18_existing_target_refused :
  forall i, i_overwrite i = false -> i_dir_ok i = true -> is_file (i_fs i) (i_main i) = true ->
  save i = (i_fs i, Some ERefuse).
Proof. exact existing_target_refused_lemma. Qed.
Print Assumptions C18_existing_target_refused.

(* ... and an existing sub-file makes the multi-file save fail (by (a) it is left intact) *)
Theorem C18_existing_subfile_refused :
  forall i x, i_multifile i = true -> i_overwrite i = false ->
  In x (i_subs i) -> is_file (i_fs i) (s_name x) = true ->
  exists e, snd (save i) = Some e.
Proof. exact existing_subfile_refused_lemma. Qed.
Print Assumptions C18_existing_subfile_refused.

(* Whatever the flags and the outcome, only the target names can change. *)
Theorem C18_only_targets_touched :
  forall i m, m <> i_main i -> (i_multifile i = true -> ~ In m (map s_name (i_subs i))) ->
  lookup (fst (save i)) m = lookup (i_fs i) m.
Proof. exact save_frame_lemma. Qed.
Print Assumptions C18_only_targets_touched.

(* ---- (b) all-or-nothing on failure ---------------------------------------------------------
   Full statement (FALSE on the pinned tree, see the two witnesses below):
       forall i f' e, save i = (f', Some e) -> f' = i_fs i.
   Proved: it holds in class 0, i.e. when the failure is a refused / uncreatable target (both modes) or
   an invalid configuration in multi-file mode. Class 1 = single-file save whose dump() fails;
   class 2 = multi-file save failing after validation. *)
Theorem C18_failed_save_changes_nothing :
  forall i f' e, classify i = 0%N -> save i = (f', Some e) -> f' = i_fs i.
Proof. exact failed_save_changes_nothing_lemma. Qed.
Print Assumptions C18_failed_save_changes_nothing.

(* the invalid-configuration half, multi-file mode, spelled out *)
Theorem C18_multifile_invalid_changes_nothing :
  forall i, target_check_fails i = false -> i_multifile i = true -> validate_fails i = true ->
  save i = (i_fs i, Some EInvalid).
Proof. exact validate_fail_save. Qed.
Print Assumptions C18_multifile_invalid_changes_nothing.

(* the precise boundary: a failure that comes before the first open()/write() leaves nothing behind *)
Theorem C18_failure_before_first_open_changes_nothing :
  forall i pre post e, steps i = pre ++ post -> forallb nowrite pre = true ->
  snd (exec i pre (init i)) = Some e -> save i = (i_fs i, Some e).
Proof. exact failure_before_first_open_lemma. Qed.
Print Assumptions C18_failure_before_first_open_changes_nothing.

Local Open Scope N_scope.
Definition nm (k : N) : name := [k].

(* existing x.yaml (text 7); save(Namespace(k='bad'), 'x.yaml', overwrite=True, multifile=False):
   TypeError from validation and a zero-byte file *)
Definition w_single : input :=
  {| i_multifile := false; i_overwrite := true; i_skipval := false; i_dir_ok := true;
     i_main := nm 120; i_fs := [(nm 120, File 7)]; i_valid := false; i_full := Out 8;
     i_subs := []; i_mainr := Out 8; i_failcall := None |}.

Theorem C18_single_file_truncates_refuted :
  exists i f' e, save i = (f', Some e) /\ i_multifile i = false /\ classify i = 1%N /\
                 lookup (i_fs i) (i_main i) = Some (File 7) /\ lookup f' (i_main i) = Some (File empty_text).
Proof. exists w_single, [(nm 120, File 0)], EInvalid. vm_compute. repeat split. Qed.
Print Assumptions C18_single_file_truncates_refuted.

(* valid configuration with two sub-configs a (text 1) and b; the serialiser fails on b:
   a has been written, the directory is no longer what it was *)
Definition w_multi : input :=
  {| i_multifile := true; i_overwrite := false; i_skipval := false; i_dir_ok := true;
     i_main := nm 109; i_fs := []; i_valid := true; i_full := Fail;
     i_subs := [ {| s_depth := 1%nat; s_branch := true; s_name := nm 97; s_src := SrcDump (Out 1) |};
                 {| s_depth := 1%nat; s_branch := true; s_name := nm 98; s_src := SrcDump Fail |} ];
     i_mainr := Out 3; i_failcall := None |}.

Theorem C18_multifile_partial_refuted :
  exists i f' e, save i = (f', Some e) /\ i_multifile i = true /\ classify i = 2%N /\
                 i_fs i = [] /\ lookup f' (nm 97) = Some (File 1).
Proof. exists w_multi, [(nm 97, File 1)], ERender. vm_compute. repeat split. Qed.
Print Assumptions C18_multifile_partial_refuted.

(* the last serialisation (main file) fails: every sub-file written and the existing main file emptied *)
Definition w_multi_main : input :=
  {| i_multifile := true; i_overwrite := true; i_skipval := false; i_dir_ok := true;
     i_main := nm 109; i_fs := [(nm 109, File 7)]; i_valid := true; i_full := Fail;
     i_subs := [ {| s_depth := 1%nat; s_branch := true; s_name := nm 97; s_src := SrcDump (Out 1) |} ];
     i_mainr := Fail; i_failcall := None |}.

Theorem C18_multifile_main_truncated_refuted :
  exists i f' e, save i = (f', Some e) /\ classify i = 2%N /\
                 lookup (i_fs i) (i_main i) = Some (File 7) /\ lookup f' (i_main i) = Some (File empty_text).
Proof. exists w_multi_main, [(nm 109, File 0); (nm 97, File 1)], ERender. vm_compute. repeat split. Qed.
Print Assumptions C18_multifile_main_truncated_refuted.

(* The repaired order (check and render everything, then write; fixes/C18-render-before-write.patch)
   satisfies the full statement: EVERY failure leaves the directory untouched. *)
Theorem C18_fixed_order_all_or_nothing :
  forall i f' e, save_fixed i = (f', Some e) -> f' = i_fs i.
Proof. exact fixed_all_or_nothing_lemma. Qed.
Print Assumptions C18_fixed_order_all_or_nothing.

(* ---- (c) a successful save can be parsed back ------------------------------------------------
   reparse_ok i f' : the main file holds the serialisation of the configuration (sub-configs
   replaced by their file names) and every sub-file holds the serialisation / original text /
   content it stands for — what parse_path needs to give the configuration back, the
   serialise/parse round trip itself being C01's subject.
   Full statement (FALSE, witnesses below): forall i f', save i = (f', None) -> reparse_ok i f' = true.
   Proved in class 0: sub-file names pairwise distinct and different from the main file (else class 3),
   no save_path_content file saved onto itself (else class 4). *)
Theorem C18_save_then_parse :
  forall i f', classify i = 0%N -> save i = (f', None) -> reparse_ok i f' = true.
Proof. exact save_then_parse_lemma. Qed.
Print Assumptions C18_save_then_parse.

(* two sub-configs loaded from a/s.yaml and b/s.yaml: both are saved as s.yaml, the second silently
   replaces the first although the save "succeeds" *)
Definition w_clash : input :=
  {| i_multifile := true; i_overwrite := true; i_skipval := false; i_dir_ok := true;
     i_main := nm 109; i_fs := []; i_valid := true; i_full := Out 9;
     i_subs := [ {| s_depth := 1%nat; s_branch := true; s_name := nm 115; s_src := SrcDump (Out 1) |};
                 {| s_depth := 1%nat; s_branch := true; s_name := nm 115; s_src := SrcDump (Out 2) |} ];
     i_mainr := Out 3; i_failcall := None |}.

Theorem C18_subfile_name_collision_refuted :
  exists i f', save i = (f', None) /\ classify i = 3%N /\ reparse_ok i f' = false.
Proof. exists w_clash, [(nm 115, File 2); (nm 109, File 3)]. vm_compute. repeat split. Qed.
Print Assumptions C18_subfile_name_collision_refuted.

(* save_path_content entry whose file (text 7) lives in the directory saved to, overwrite=True:
   open(…,"w") comes before get_content(): the save succeeds and the file is empty *)
Definition w_self : input :=
  {| i_multifile := true; i_overwrite := true; i_skipval := false; i_dir_ok := true;
     i_main := nm 109; i_fs := [(nm 102, File 7)]; i_valid := true; i_full := Out 9;
     i_subs := [ {| s_depth := 2%nat; s_branch := false; s_name := nm 102; s_src := SrcPathHere |} ];
     i_mainr := Out 3; i_failcall := None |}.

Theorem C18_path_content_self_truncate_refuted :
  exists i f', save i = (f', None) /\ classify i = 4%N /\
               lookup (i_fs i) (nm 102) = Some (File 7) /\ lookup f' (nm 102) = Some (File empty_text).
Proof. exists w_self, [(nm 102, File 0); (nm 109, File 3)]. vm_compute. repeat split. Qed.
Print Assumptions C18_path_content_self_truncate_refuted.

(* ---- the hypotheses are satisfiable (non-vacuity) --------------------------------------------- *)
(* class 0, multi-file, three sub-files at two depths, existing unrelated file: succeeds, reads back *)
Definition w_good : input :=
  {| i_multifile := true; i_overwrite := false; i_skipval := false; i_dir_ok := true;
     i_main := nm 109; i_fs := [(nm 122, File 7)]; i_valid := true; i_full := Out 9;
     i_subs := [ {| s_depth := 1%nat; s_branch := true; s_name := nm 97; s_src := SrcDump (Out 1) |};
                 {| s_depth := 2%nat; s_branch := true; s_name := nm 98; s_src := SrcDump (Out 2) |};
                 {| s_depth := 1%nat; s_branch := false; s_name := nm 99; s_src := SrcOrig 4 |} ];
     i_mainr := Out 3; i_failcall := None |}.

Example C18_guard_satisfiable_success :
  classify w_good = 0%N /\ snd (save w_good) = None /\ reparse_ok w_good (fst (save w_good)) = true /\
  map s_name (order (i_subs w_good)) = [nm 98; nm 99; nm 97].
Proof. vm_compute. repeat split. Qed.

(* class 0, failing: invalid configuration in multi-file mode with existing files around *)
Example C18_guard_satisfiable_failure :
  let i := {| i_multifile := true; i_overwrite := true; i_skipval := false; i_dir_ok := true;
              i_main := nm 109; i_fs := [(nm 109, File 7); (nm 97, File 5)]; i_valid := false; i_full := Out 9;
              i_subs := [ {| s_depth := 1%nat; s_branch := true; s_name := nm 97; s_src := SrcDump (Out 1) |} ];
              i_mainr := Out 3; i_failcall := None |} in
  classify i = 0%N /\ save i = (i_fs i, Some EInvalid).
Proof. vm_compute. repeat split. Qed.

(* an injected fault on the 2nd serialiser call is a class-2 failure *)
Example C18_failcall_example :
  let i := {| i_multifile := true; i_overwrite := true; i_skipval := false; i_dir_ok := true;
              i_main := nm 109; i_fs := []; i_valid := true; i_full := Out 9;
              i_subs := [ {| s_depth := 1%nat; s_branch := true; s_name := nm 97; s_src := SrcDump (Out 1) |} ];
              i_mainr := Out 3; i_failcall := Some 1%nat |} in
  classify i = 2%N /\ save i = ([(nm 97, File 1); (nm 109, File 0)], Some ERender) /\
  save_fixed i = ([], Some ERender).
Proof. vm_compute. repeat split. Qed.

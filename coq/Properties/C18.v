(* C18 — save never destroys data. Property theorems only; lemmas are in Proofs/SaveFSProofs.v and
   Proofs/C18JudgeProofs.v.

   `save_fixed` (Model/SaveFS.v) is the model of ArgumentParser.save: the step list of the code over a
   directory  name -> File text | Dir  — check and render every file, refuse two configs mapped to one
   file, then write — with validate / dump_using_format / get_content as an oracle carried by the input.
   Every statement below quantifies over EVERY input: any directory content, single- or multi-file mode,
   any flags, any number of sub-files in any declaration order with any (also colliding) names, any oracle
   (which validation / serialisation / read step fails, including an injected n-th serialiser call), any
   form of the target path.  (a) no silent overwrite, (b) all-or-nothing and the frame statement carry NO
   guard.  (c) read-back carries the guard  alias_clash i = false : not (multi-file, target path given in a
   non-normal form such as ./main.yaml, and a sub-file named like the main file) — outside it the statement
   is FALSE on the current tree (C18_collision_with_main_refuted, open finding
   collision-with-main-unnormalised-path; fixes/C18-collision-realpath.patch makes the guard vacuous).

   Round 6: the FSSPEC BRANCH of save is inside the model (Model/SaveFS.v: `save_impl k i`, k = TLocal | TFsspec).
   For a target given as an fsspec URL naming a file (local://<dir>/x) the current code is `save_fsspec`: (a) and
   (b) are FALSE there (the C18_fsspec_..._refuted theorems, open finding fsspec-target-unprotected, class 2 of the judge);
   `save_fsspec_fixed` = that branch after fixes/C18-fsspec-target.patch, for which all four statements are proved
   for every input (the C18_fsspec_fixed_ theorems), and C18_impl_fixed_meets_spec / C18_judge_fsfixed_sound cover the whole
   implementation, whichever way the target is resolved, without a finding class.

   `save_old` is the order of the tree before the fix; the `..._old_order_refuted` theorems at the end are
   regression witnesses of what that order did wrong, not findings on the current tree. *)
From JV Require Import Lib.Base Model.SaveFS Spec.SaveFSSpec Proofs.SaveFSProofs Corr.C18Judge
                       Proofs.C18JudgeProofs Proofs.SaveFsspecProofs.

(* ---- (a) no silent overwrite ------------------------------------------------------------- *)
(* Without overwrite=True every entry that existed (regular file or directory) is still there,
   unchanged, whether the save succeeds or fails, in single- and multi-file mode. *)
Theorem C18_no_silent_overwrite :
  forall i, i_overwrite i = false ->
  forall n x, lookup (i_fs i) n = Some x -> lookup (fst (save_fixed i)) n = Some x.
Proof. exact fixed_no_overwrite_lemma. Qed.
Print Assumptions C18_no_silent_overwrite.

(* ... an existing target is refused, and nothing has happened *)
Theorem C18_existing_target_refused :
  forall i, i_overwrite i = false -> i_dir_ok i = true -> is_file (i_fs i) (i_main i) = true ->
  save_fixed i = (i_fs i, Some ERefuse).
Proof. exact fixed_existing_target_refused_lemma. Qed.
Print Assumptions C18_existing_target_refused.

(* ... an existing sub-file makes the whole multi-file save fail, and nothing has happened
   (wherever the sub-file comes in the order, whatever was rendered before it) *)
Theorem C18_existing_subfile_refused :
  forall i x, i_multifile i = true -> i_overwrite i = false ->
  In x (i_subs i) -> is_file (i_fs i) (s_name x) = true ->
  exists e, save_fixed i = (i_fs i, Some e).
Proof. exact fixed_existing_subfile_refused_lemma. Qed.
Print Assumptions C18_existing_subfile_refused.

(* Whatever the flags and the outcome (also with overwrite=True), only the target names can change. *)
Theorem C18_only_targets_touched :
  forall i m, ~ In m (targets i) -> lookup (fst (save_fixed i)) m = lookup (i_fs i) m.
Proof. exact fixed_frame_lemma. Qed.
Print Assumptions C18_only_targets_touched.

(* ---- (b) all-or-nothing on failure ---------------------------------------------------------
   EVERY failure — uncreatable or refused target or sub-file, invalid configuration, a serialisation
   that raises (of any sub-config or of the main config, or the injected n-th call), an unreadable
   save_path_content source, two configs mapped to one file — leaves the directory exactly as it was. *)
Theorem C18_failed_save_changes_nothing :
  forall i f' e, save_fixed i = (f', Some e) -> f' = i_fs i.
Proof. exact fixed_all_or_nothing_lemma. Qed.
Print Assumptions C18_failed_save_changes_nothing.

(* ---- (c) a successful save can be parsed back ------------------------------------------------
   reparse_ok i f' : the main file holds the serialisation of the configuration (sub-configs
   replaced by their file names) and every sub-file holds the serialisation / original text /
   content it stands for — what parse_path needs to give the configuration back, the
   serialise/parse round trip of one text being C01's subject.  A save_path_content file that lives
   in the directory saved to keeps its content (expected = the content before the call). *)
Theorem C18_save_then_parse :
  forall i f', alias_clash i = false -> save_fixed i = (f', None) -> reparse_ok i f' = true.
Proof. exact fixed_save_then_parse_lemma. Qed.
Print Assumptions C18_save_then_parse.

(* Two configs mapped to one file (equal basenames, or a sub-file named like the main file) are
   refused instead of one silently replacing the other; nothing has happened. *)
Theorem C18_name_collision_refused :
  forall i, alias_clash i = false ->
  i_multifile i = true -> name_clash i = true -> exists e, save_fixed i = (i_fs i, Some e).
Proof. exact fixed_name_clash_refused_lemma. Qed.
Print Assumptions C18_name_collision_refused.

(* ... two SUB-files with one name: refused whatever the form of the target path (no guard) *)
Theorem C18_subfile_collision_refused :
  forall i, i_multifile i = true -> nodup_str (map s_name (i_subs i)) = false ->
  exists e, save_fixed i = (i_fs i, Some e).
Proof. exact fixed_subfile_clash_refused_lemma. Qed.
Print Assumptions C18_subfile_collision_refused.

(* The guard is the whole story: it holds as soon as the target path is in normal form (and always in
   single-file mode), and it is exactly class 0 of the judge. *)
Theorem C18_guard_normal_path :
  forall i, i_alias i = false -> alias_clash i = false.
Proof. exact alias_clash_no_alias. Qed.
Print Assumptions C18_guard_normal_path.

(* A directory in the place of any target makes the save fail as a whole; nothing has happened. *)
Theorem C18_directory_in_the_way_refused :
  forall i n, In n (targets i) -> is_dir (i_fs i) n = true -> exists e, save_fixed i = (i_fs i, Some e).
Proof. exact fixed_directory_in_the_way_lemma. Qed.
Print Assumptions C18_directory_in_the_way_refused.

(* ---- model => spec, and the judge ------------------------------------------------------------
   The model meets Spec/SaveFSSpec.v on every input ... *)
Theorem C18_model_meets_spec :
  forall i, alias_clash i = false ->
            spec_ok (i_overwrite i) (targets i) (i_fs i) (fst (save_fixed i)) (is_some (snd (save_fixed i)))
                    (reparse_ok i (fst (save_fixed i))) = true.
Proof. exact fixed_meets_spec_lemma. Qed.
Print Assumptions C18_model_meets_spec.

(* ... and therefore every observation the model reproduces satisfies the spec: in the correspondence
   in class 0 a spec failure can only appear together with a model disagreement. *)
Theorem C18_judge_sound :
  forall c, v_class (judge1 c) = 0%N -> v_model (judge1 c) = true -> v_spec (judge1 c) = true.
Proof. exact judge_sound_lemma. Qed.
Print Assumptions C18_judge_sound.

Local Open Scope N_scope.
Definition nm (k : N) : name := [k].

(* ---- OPEN FINDING on the current tree: collision-with-main-unnormalised-path ---------------------
   save(cfg, "./m", overwrite=True) where cfg.s was loaded from a/m: add_pending compares the absolute
   path STRINGS  <cwd>/m  and  <cwd>/./m , misses the collision, the save succeeds and the main file
   (written last) has replaced the sub-config: the saved path does not parse back. *)
Definition w_alias : input :=
  {| i_multifile := true; i_overwrite := true; i_skipval := false; i_dir_ok := true; i_alias := true;
     i_main := nm 109; i_fs := []; i_valid := true; i_full := Out 9;
     i_subs := [ {| s_depth := 1%nat; s_branch := true; s_name := nm 109; s_src := SrcDump (Out 1) |} ];
     i_mainr := Out 3; i_failcall := None |}.

Theorem C18_collision_with_main_refuted :
  exists i f', save_fixed i = (f', None) /\ classify i = 1 /\ name_clash i = true /\ reparse_ok i f' = false /\
               save_fixed (no_alias i) = (i_fs i, Some EClash).
Proof. exists w_alias, [(nm 109, File 3)]. vm_compute. repeat split. Qed.
Print Assumptions C18_collision_with_main_refuted.

(* ---- the hypotheses are satisfiable (non-vacuity) --------------------------------------------- *)

(* multi-file, three sub-files at two depths, an existing unrelated file: succeeds, reads back,
   order = deepest key first *)
Definition w_good : input :=
  {| i_multifile := true; i_overwrite := false; i_skipval := false; i_dir_ok := true; i_alias := false;
     i_main := nm 109; i_fs := [(nm 122, File 7)]; i_valid := true; i_full := Out 9;
     i_subs := [ {| s_depth := 1%nat; s_branch := true; s_name := nm 97; s_src := SrcDump (Out 1) |};
                 {| s_depth := 2%nat; s_branch := true; s_name := nm 98; s_src := SrcDump (Out 2) |};
                 {| s_depth := 1%nat; s_branch := false; s_name := nm 99; s_src := SrcOrig 4 |} ];
     i_mainr := Out 3; i_failcall := None |}.

Example C18_success_example :
  alias_clash w_good = false /\
  save_fixed w_good = ([(nm 122, File 7); (nm 98, File 2); (nm 99, File 4); (nm 97, File 1); (nm 109, File 3)], None) /\
  reparse_ok w_good (fst (save_fixed w_good)) = true /\
  map s_name (order (i_subs w_good)) = [nm 98; nm 99; nm 97].
Proof. vm_compute. repeat split. Qed.

(* the guard with a target path in non-normal form (./m): no sub-file is named like the main file, so
   alias_clash is false and the theorems apply *)
Example C18_guard_satisfiable_with_alias :
  let i := {| i_multifile := true; i_overwrite := true; i_skipval := false; i_dir_ok := true; i_alias := true;
              i_main := nm 109; i_fs := [(nm 109, File 7)]; i_valid := true; i_full := Out 9;
              i_subs := i_subs w_good; i_mainr := Out 3; i_failcall := None |} in
  alias_clash i = false /\ classify i = 0 /\ snd (save_fixed i) = None /\ reparse_ok i (fst (save_fixed i)) = true.
Proof. vm_compute. repeat split. Qed.

(* the same call with an existing sub-file c (overwrite=False): the second block in the order refuses,
   the first (b, already rendered) has not been written *)
Example C18_subfile_refused_example :
  let i := {| i_multifile := true; i_overwrite := false; i_skipval := false; i_dir_ok := true; i_alias := false;
              i_main := nm 109; i_fs := [(nm 99, File 7)]; i_valid := true; i_full := Out 9;
              i_subs := i_subs w_good; i_mainr := Out 3; i_failcall := None |} in
  is_file (i_fs i) (nm 99) = true /\ save_fixed i = (i_fs i, Some ERefuse).
Proof. vm_compute. repeat split. Qed.

(* failing late with overwrite=True and everything pre-existing: the serialisation of the main
   configuration (the LAST step before writing) raises — all three files keep their content *)
Example C18_late_failure_example :
  let i := {| i_multifile := true; i_overwrite := true; i_skipval := false; i_dir_ok := true; i_alias := false;
              i_main := nm 109; i_fs := [(nm 109, File 7); (nm 97, File 5); (nm 98, File 6)]; i_valid := true;
              i_full := Fail;
              i_subs := [ {| s_depth := 1%nat; s_branch := true; s_name := nm 97; s_src := SrcDump (Out 1) |};
                          {| s_depth := 1%nat; s_branch := true; s_name := nm 98; s_src := SrcDump (Out 2) |} ];
              i_mainr := Fail; i_failcall := None |} in
  save_fixed i = (i_fs i, Some ERender).
Proof. vm_compute. repeat split. Qed.

(* an injected fault on the 2nd serialiser call (0-based 1): nothing written *)
Example C18_failcall_example :
  let i := {| i_multifile := true; i_overwrite := true; i_skipval := false; i_dir_ok := true; i_alias := false;
              i_main := nm 109; i_fs := []; i_valid := true; i_full := Out 9;
              i_subs := [ {| s_depth := 1%nat; s_branch := true; s_name := nm 97; s_src := SrcDump (Out 1) |} ];
              i_mainr := Out 3; i_failcall := Some 1%nat |} in
  save_fixed i = ([], Some ERender).
Proof. vm_compute. repeat split. Qed.

(* name collision: two sub-configs loaded from a/s.yaml and b/s.yaml *)
Definition w_clash : input :=
  {| i_multifile := true; i_overwrite := true; i_skipval := false; i_dir_ok := true; i_alias := false;
     i_main := nm 109; i_fs := []; i_valid := true; i_full := Out 9;
     i_subs := [ {| s_depth := 1%nat; s_branch := true; s_name := nm 115; s_src := SrcDump (Out 1) |};
                 {| s_depth := 1%nat; s_branch := true; s_name := nm 115; s_src := SrcDump (Out 2) |} ];
     i_mainr := Out 3; i_failcall := None |}.

Example C18_name_collision_example :
  name_clash w_clash = true /\ save_fixed w_clash = ([], Some EClash).
Proof. vm_compute. repeat split. Qed.

(* a save_path_content file (text 7) that lives in the directory saved to, overwrite=True: the save
   succeeds and the file still holds text 7 *)
Definition w_self : input :=
  {| i_multifile := true; i_overwrite := true; i_skipval := false; i_dir_ok := true; i_alias := false;
     i_main := nm 109; i_fs := [(nm 102, File 7)]; i_valid := true; i_full := Out 9;
     i_subs := [ {| s_depth := 2%nat; s_branch := false; s_name := nm 102; s_src := SrcPathHere |} ];
     i_mainr := Out 3; i_failcall := None |}.

Example C18_path_content_self_example :
  save_fixed w_self = ([(nm 102, File 7); (nm 109, File 3)], None) /\
  reparse_ok w_self (fst (save_fixed w_self)) = true.
Proof. vm_compute. repeat split. Qed.

(* single-file: invalid configuration over an existing file with overwrite=True — untouched *)
Definition w_single : input :=
  {| i_multifile := false; i_overwrite := true; i_skipval := false; i_dir_ok := true; i_alias := false;
     i_main := nm 120; i_fs := [(nm 120, File 7)]; i_valid := false; i_full := Out 8;
     i_subs := []; i_mainr := Out 8; i_failcall := None |}.

Example C18_single_file_invalid_example :
  save_fixed w_single = ([(nm 120, File 7)], Some EInvalid).
Proof. vm_compute. repeat split. Qed.

(* ---- REGRESSION WITNESSES: what the order of the tree before the fix (save_old) did -------------
   These are statements about save_old, which is NOT the model of the current code.  They document the
   four repaired defects (known_findings/C18.txt, `fixed:` lines) and show that the unguarded statements
   above are not trivialities of the step semantics: the same inputs break them under the old order. *)

(* existing x.yaml (text 7); save(Namespace(k='bad'), 'x.yaml', overwrite=True, multifile=False):
   TypeError from validation and a zero-byte file *)
Theorem C18_single_file_truncates_old_order_refuted :
  exists i f' e, save_old i = (f', Some e) /\ i_multifile i = false /\
                 lookup (i_fs i) (i_main i) = Some (File 7) /\ lookup f' (i_main i) = Some (File empty_text) /\
                 save_fixed i = (i_fs i, Some e).
Proof. exists w_single, [(nm 120, File 0)], EInvalid. vm_compute. repeat split. Qed.
Print Assumptions C18_single_file_truncates_old_order_refuted.

(* valid configuration with two sub-configs a (text 1) and b; the serialiser fails on b:
   a has been written, the directory is no longer what it was *)
Definition w_multi : input :=
  {| i_multifile := true; i_overwrite := false; i_skipval := false; i_dir_ok := true; i_alias := false;
     i_main := nm 109; i_fs := []; i_valid := true; i_full := Fail;
     i_subs := [ {| s_depth := 1%nat; s_branch := true; s_name := nm 97; s_src := SrcDump (Out 1) |};
                 {| s_depth := 1%nat; s_branch := true; s_name := nm 98; s_src := SrcDump Fail |} ];
     i_mainr := Out 3; i_failcall := None |}.

Theorem C18_multifile_partial_old_order_refuted :
  exists i f' e, save_old i = (f', Some e) /\ i_multifile i = true /\
                 i_fs i = [] /\ lookup f' (nm 97) = Some (File 1) /\
                 save_fixed i = ([], Some e).
Proof. exists w_multi, [(nm 97, File 1)], ERender. vm_compute. repeat split. Qed.
Print Assumptions C18_multifile_partial_old_order_refuted.

(* the last serialisation (main file) fails: every sub-file written and the existing main file emptied *)
Definition w_multi_main : input :=
  {| i_multifile := true; i_overwrite := true; i_skipval := false; i_dir_ok := true; i_alias := false;
     i_main := nm 109; i_fs := [(nm 109, File 7)]; i_valid := true; i_full := Fail;
     i_subs := [ {| s_depth := 1%nat; s_branch := true; s_name := nm 97; s_src := SrcDump (Out 1) |} ];
     i_mainr := Fail; i_failcall := None |}.

Theorem C18_multifile_main_truncated_old_order_refuted :
  exists i f' e, save_old i = (f', Some e) /\
                 lookup (i_fs i) (i_main i) = Some (File 7) /\ lookup f' (i_main i) = Some (File empty_text) /\
                 save_fixed i = (i_fs i, Some e).
Proof. exists w_multi_main, [(nm 109, File 0); (nm 97, File 1)], ERender. vm_compute. repeat split. Qed.
Print Assumptions C18_multifile_main_truncated_old_order_refuted.

(* both sub-configs are saved as s.yaml, the second silently replaces the first although the save "succeeds" *)
Theorem C18_subfile_name_collision_old_order_refuted :
  exists i f', save_old i = (f', None) /\ name_clash i = true /\ reparse_ok i f' = false /\
               save_fixed i = (i_fs i, Some EClash).
Proof. exists w_clash, [(nm 115, File 2); (nm 109, File 3)]. vm_compute. repeat split. Qed.
Print Assumptions C18_subfile_name_collision_old_order_refuted.

(* open(…,"w") came before get_content(): the save succeeds and the content file is empty *)
Theorem C18_path_content_self_truncate_old_order_refuted :
  exists i f', save_old i = (f', None) /\
               lookup (i_fs i) (nm 102) = Some (File 7) /\ lookup f' (nm 102) = Some (File empty_text) /\
               lookup (fst (save_fixed i)) (nm 102) = Some (File 7).
Proof. exists w_self, [(nm 102, File 0); (nm 109, File 3)]. vm_compute. repeat split. Qed.
Print Assumptions C18_path_content_self_truncate_old_order_refuted.

(* ================================================================================================
   ROUND 6: the fsspec branch (target given as an fsspec URL that names the file, e.g. local://<dir>/x).

   ---- OPEN FINDING on the current tree: fsspec-target-unprotected ---------------------------------------
   save_fsspec is the model of the branch as it is: Path(path, mode="sw") checks "w" by opening the file for
   writing, there is no check_overwrite, and fsspec.open(path, "w") comes before self.dump(). *)
Definition w_fs (multifile overwrite valid : bool) : input :=
  {| i_multifile := multifile; i_overwrite := overwrite; i_skipval := false; i_dir_ok := true; i_alias := false;
     i_main := nm 109; i_fs := [(nm 109, File 7)]; i_valid := valid; i_full := Out 9; i_subs := [];
     i_mainr := Out 9; i_failcall := None |}.

(* (a) is false: overwrite=False, valid configuration, existing file: the save SUCCEEDS and the file is replaced *)
Theorem C18_fsspec_silent_overwrite_refuted :
  exists i, i_overwrite i = false /\ lookup (i_fs i) (i_main i) = Some (File 7) /\
    save_fsspec i = ([(nm 109, File 9)], None) /\ classify_call TFsspec i = 2.
Proof. exists (w_fs false false true). vm_compute. repeat split. Qed.
Print Assumptions C18_fsspec_silent_overwrite_refuted.

(* (b) is false: an invalid configuration: the save fails and the existing file is left EMPTY *)
Theorem C18_fsspec_truncates_on_failure_refuted :
  exists i, save_fsspec i = ([(nm 109, File empty_text)], Some EInvalid) /\ lookup (i_fs i) (i_main i) = Some (File 7).
Proof. exists (w_fs false true false). vm_compute. repeat split. Qed.
Print Assumptions C18_fsspec_truncates_on_failure_refuted.

(* (b) is false even for the call with default arguments: multifile=True is refused with NotImplementedError
   AFTER Path(path, "sw") has emptied the file *)
Theorem C18_fsspec_multifile_refusal_truncates_refuted :
  exists i, i_multifile i = true /\ save_fsspec i = ([(nm 109, File empty_text)], Some ENotImpl) /\
    lookup (i_fs i) (i_main i) = Some (File 7).
Proof. exists (w_fs true false true). vm_compute. repeat split. Qed.
Print Assumptions C18_fsspec_multifile_refusal_truncates_refuted.

(* ... and that is what EVERY failing save through this branch leaves behind (the target is not a
   directory): the target file empty, whatever it held *)
Theorem C18_fsspec_current_failure_empties_target :
  forall i, is_dir (i_fs i) (i_main i) = false ->
  forall e, snd (save_fsspec i) = Some e -> lookup (fst (save_fsspec i)) (i_main i) = Some (File empty_text).
Proof. exact fsspec_current_empties_lemma. Qed.
Print Assumptions C18_fsspec_current_failure_empties_target.

(* ---- the branch after fixes/C18-fsspec-target.patch: all four statements, for every input -------------- *)
Theorem C18_fsspec_fixed_failed_save_changes_nothing :
  forall i f' e, save_fsspec_fixed i = (f', Some e) -> f' = i_fs i.
Proof. exact fsfixed_all_or_nothing_lemma. Qed.
Print Assumptions C18_fsspec_fixed_failed_save_changes_nothing.

Theorem C18_fsspec_fixed_no_silent_overwrite :
  forall i, i_overwrite i = false ->
  forall n x, lookup (i_fs i) n = Some x -> lookup (fst (save_fsspec_fixed i)) n = Some x.
Proof. exact fsfixed_no_overwrite_lemma. Qed.
Print Assumptions C18_fsspec_fixed_no_silent_overwrite.

Theorem C18_fsspec_fixed_existing_target_refused :
  forall i, i_multifile i = false -> i_overwrite i = false -> is_file (i_fs i) (i_main i) = true ->
            save_fsspec_fixed i = (i_fs i, Some ERefuse).
Proof. exact fsfixed_existing_target_refused_lemma. Qed.
Print Assumptions C18_fsspec_fixed_existing_target_refused.

Theorem C18_fsspec_fixed_multifile_refused_untouched :
  forall i, i_multifile i = true -> save_fsspec_fixed i = (i_fs i, Some ENotImpl).
Proof. exact fsfixed_multifile_refused_lemma. Qed.
Print Assumptions C18_fsspec_fixed_multifile_refused_untouched.

Theorem C18_fsspec_fixed_only_target_touched :
  forall i m, ~ In m (targets i) -> lookup (fst (save_fsspec_fixed i)) m = lookup (i_fs i) m.
Proof. exact fsfixed_frame_lemma. Qed.
Print Assumptions C18_fsspec_fixed_only_target_touched.

Theorem C18_fsspec_fixed_save_then_parse :
  forall i f', save_fsspec_fixed i = (f', None) -> reparse_ok i f' = true.
Proof. exact fsfixed_save_then_parse_lemma. Qed.
Print Assumptions C18_fsspec_fixed_save_then_parse.

(* hypotheses are satisfiable: a successful save through the patched branch; a refused one; the three inputs on
   which the current branch destroys the file leave it untouched *)
Example C18_fsspec_fixed_success_example :
  save_fsspec_fixed (w_fs false true true) = ([(nm 109, File 9)], None).
Proof. vm_compute. reflexivity. Qed.
Example C18_fsspec_fixed_on_the_witnesses :
  save_fsspec_fixed (w_fs false false true) = ([(nm 109, File 7)], Some ERefuse) /\
  save_fsspec_fixed (w_fs false true false) = ([(nm 109, File 7)], Some EInvalid) /\
  save_fsspec_fixed (w_fs true false true) = ([(nm 109, File 7)], Some ENotImpl).
Proof. vm_compute. repeat split. Qed.

(* ---- the whole implementation, whichever way the target is resolved (after the patch) ------------------ *)
Theorem C18_impl_fixed_failed_save_changes_nothing :
  forall k i f' e, save_impl_fixed k i = (f', Some e) -> f' = i_fs i.
Proof. exact impl_fixed_all_or_nothing_lemma. Qed.
Print Assumptions C18_impl_fixed_failed_save_changes_nothing.

Theorem C18_impl_fixed_no_silent_overwrite :
  forall k i, i_overwrite i = false ->
  forall n x, lookup (i_fs i) n = Some x -> lookup (fst (save_impl_fixed k i)) n = Some x.
Proof. exact impl_fixed_no_overwrite_lemma. Qed.
Print Assumptions C18_impl_fixed_no_silent_overwrite.

Theorem C18_impl_fixed_meets_spec :
  forall k i, alias_clash i = false ->
    spec_ok (i_overwrite i) (targets i) (i_fs i) (fst (save_impl_fixed k i)) (is_some (snd (save_impl_fixed k i)))
            (reparse_ok i (fst (save_impl_fixed k i))) = true.
Proof. exact impl_fixed_meets_spec_lemma. Qed.
Print Assumptions C18_impl_fixed_meets_spec.

(* the judge of the current tree with the form of the path ignored (JUDGE = "judge_fixed", what bin/check uses) *)
Theorem C18_judge_fixed_sound :
  forall c, v_class (judge1_fixed c) = 0%N -> v_model (judge1_fixed c) = true -> v_spec (judge1_fixed c) = true.
Proof. exact judge_fixed_sound_lemma. Qed.
Print Assumptions C18_judge_fixed_sound.

(* the judge for the patched tree (JUDGE = "judge_fsfixed"): no class but 0, and model agreement implies the spec *)
Theorem C18_judge_fsfixed_sound :
  forall c, v_model (judge1_fsfixed c) = true -> v_spec (judge1_fsfixed c) = true.
Proof. exact judge_fsfixed_sound_lemma. Qed.
Print Assumptions C18_judge_fsfixed_sound.

Theorem C18_judge_fsfixed_no_class :
  forall c, v_class (judge1_fsfixed c) = 0%N.
Proof. exact judge_fsfixed_class_lemma. Qed.
Print Assumptions C18_judge_fsfixed_no_class.

(* C19 — property theorems only: each is closed by `exact` of a lemma from Proofs/ or by evaluation of a
   closed witness. Strings are lists of code points: "f"=102 "d"=100 "r"=114 "w"=119 "x"=120 "c"=99
   "u"=117 "s"=115 "F"=70 "D"=68 "R"=82 "W"=87 "X"=88. *)
From JV Require Import Lib.Base Gen.C19PathFlags Model.C19PathMode Model.C19Cwd Spec.C19Spec Spec.C19CwdSpec
  Spec.C19Guard Proofs.C19ModeProofs Proofs.C19CwdProofs.

(* ---- the mode language -------------------------------------------------------------------------- *)
(* The mode strings the code accepts (tables regenerated from Path._check_mode on every run) are exactly
   the documented ones, for every string; every other mode is answered with ValueError. *)
Theorem C19_mode_language_is_documented : forall m : str, check_mode m = spec_check_mode m.
Proof. exact check_mode_is_documented. Qed.
Print Assumptions C19_mode_language_is_documented.

Theorem C19_invalid_mode_rejected : forall m stdio f, check_mode m = false -> path_check m stdio f = ValErr.
Proof. intros m stdio f H. unfold path_check, path_check_fx. rewrite H. reflexivity. Qed.
Print Assumptions C19_invalid_mode_rejected.

(* ---- FULL STATEMENT (false on the pinned tree, see the three _refuted witnesses below):
     forall m f, check_mode m = true -> has "u" m = false -> has "s" m = false -> consistent f = true ->
       (path_check m false f = Accept <-> sat (flags_of m) f = true) /\
       (path_check m false f <> Accept -> path_check m false f = PathErr).
   PROVED: the same with `guard (flags_of m) f = true`. The product behind it is finite — the code reads
   from the mode only the membership of each flag and whether "c" occurs twice (2304 valid local flag
   records) and from the file system 8 answers (70 consistent records) — and is evaluated completely. *)
Theorem C19_mode_exact : forall (m : str) (f : facts),
  check_mode m = true -> has 117 m = false -> has 115 m = false ->
  consistent f = true -> guard (flags_of m) f = true ->
  (path_check m false f = Accept <-> sat (flags_of m) f = true) /\
  (path_check m false f <> Accept -> path_check m false f = PathErr).
Proof. exact mode_exact_str. Qed.
Print Assumptions C19_mode_exact.

(* the same over flag records: ALL valid flag multisets x ALL consistent fact records *)
Theorem C19_mode_exact_flags : forall (fl : mfl) (f : facts),
  valid_fl fl = true -> local_fl fl = true -> consistent f = true -> guard fl f = true ->
  (path_check_fl fl f = Accept <-> sat fl f = true) /\
  (path_check_fl fl f <> Accept -> path_check_fl fl f = PathErr).
Proof. exact mode_exact_fl. Qed.
Print Assumptions C19_mode_exact_flags.

(* Outside the guard the code does exactly the listed wrong thing — nothing else is hidden there. *)
Theorem C19_findings_exact : forall (fl : mfl) (f : facts),
  valid_fl fl = true -> local_fl fl = true -> consistent f = true ->
  path_check_fl fl f = defect_outcome fl f /\
  (guard fl f = false -> path_check_fl fl f <> spec_fl fl f).
Proof. exact findings_exact. Qed.
Print Assumptions C19_findings_exact.

(* ---- the repaired tree(s) --------------------------------------------------------------------------
   The model is written once with the patched lines of fixes/C19-*.patch selected by a `fixes` record. For EVERY
   combination of landed repairs the guarded statement holds with the guard shrunk accordingly ... *)
Theorem C19_mode_exact_any_repairs : forall (fxs : fixes) (m : str) (f : facts),
  check_mode m = true -> has 117 m = false -> has 115 m = false ->
  consistent f = true -> guard_fx fxs (flags_of m) f = true ->
  (path_check_fx fxs m false f = Accept <-> sat (flags_of m) f = true) /\
  (path_check_fx fxs m false f <> Accept -> path_check_fx fxs m false f = PathErr).
Proof. exact mode_exact_str_fx. Qed.
Print Assumptions C19_mode_exact_any_repairs.

(* ... and with all three Path repairs the FULL STATEMENT above holds, without any guard: the repaired Path accepts
   iff every flag of the mode holds and fails with PathError otherwise, for every mode and every consistent file
   system answer. *)
Theorem C19_mode_exact_repaired : forall (m : str) (f : facts),
  check_mode m = true -> has 117 m = false -> has 115 m = false -> consistent f = true ->
  (path_check_fx all_fixes m false f = Accept <-> sat (flags_of m) f = true) /\
  (path_check_fx all_fixes m false f <> Accept -> path_check_fx all_fixes m false f = PathErr).
Proof. exact mode_exact_str_repaired. Qed.
Print Assumptions C19_mode_exact_repaired.

Definition missing_in_writeable_dir : facts :=
  {| exists_ := false; kd := KReg; ar := false; aw := false; ax := false;
     par_dir := true; anc_dir := true; dir_w := true |}.
Definition fifo_rw : facts :=
  {| exists_ := true; kd := KFifo; ar := true; aw := true; ax := false;
     par_dir := true; anc_dir := true; dir_w := true |}.
Definition below_a_regular_file : facts :=
  {| exists_ := false; kd := KReg; ar := false; aw := false; ax := false;
     par_dir := false; anc_dir := false; dir_w := true |}.
Definition regular_file_r : facts :=
  {| exists_ := true; kd := KReg; ar := true; aw := false; ax := false;
     par_dir := true; anc_dir := true; dir_w := false |}.

(* finding 1: Path(missing, mode="F") — the documentation accepts, os.stat raises FileNotFoundError *)
Theorem C19_not_file_missing_refuted : exists m f,
  check_mode m = true /\ consistent f = true /\ sat (flags_of m) f = true /\ path_check m false f = OsErr.
Proof. exists [70]%N, missing_in_writeable_dir. vm_compute. auto. Qed.
Print Assumptions C19_not_file_missing_refuted.

(* finding 2: Path(fifo, mode="fc") is rejected although Path(fifo, mode="f") is accepted *)
Theorem C19_fc_fifo_refuted : exists m f,
  check_mode m = true /\ consistent f = true /\ sat (flags_of m) f = true /\
  path_check m false f = PathErr /\ path_check [102]%N false f = Accept.
Proof. exists [102; 99]%N, fifo_rw. vm_compute. auto. Qed.
Print Assumptions C19_fc_fifo_refuted.

(* finding 3: Path("<regular file>/new", mode="fcc") is accepted although nothing can be created there *)
Theorem C19_cc_through_file_refuted : exists m f,
  check_mode m = true /\ consistent f = true /\ sat (flags_of m) f = false /\ path_check m false f = Accept.
Proof. exists [102; 99; 99]%N, below_a_regular_file. vm_compute. auto. Qed.
Print Assumptions C19_cc_through_file_refuted.

(* the hypotheses of C19_mode_exact are satisfiable, on both sides of the iff *)
Example C19_guard_inhabited :
  check_mode [102; 114]%N = true /\ consistent regular_file_r = true /\
  guard (flags_of [102; 114]%N) regular_file_r = true /\ path_check [102; 114]%N false regular_file_r = Accept /\
  guard (flags_of [102; 119]%N) regular_file_r = true /\ path_check [102; 119]%N false regular_file_r = PathErr.
Proof. vm_compute. auto 10. Qed.

(* the repairs do what they are meant to do on the three witnesses above *)
Example C19_repairs_take_effect :
  path_check_fx all_fixes [70]%N false missing_in_writeable_dir = Accept /\
  path_check_fx all_fixes [102; 99]%N false fifo_rw = Accept /\
  path_check_fx all_fixes [102; 99; 99]%N false below_a_regular_file = PathErr.
Proof. vm_compute. auto. Qed.

(* ---- relative / absolute --------------------------------------------------------------------------- *)
(* relative is the spelling given; absolute is absolute and is the user-expanded spelling itself or that
   spelling below the working directory — for every home, every absolute cwd and every spelling. *)
Theorem C19_relative_abs : forall home cwd given : str,
  is_abs cwd = true ->
  let '(rel, ab) := path_names home cwd given in
  spec_names_ok home cwd given rel ab = true.
Proof. exact names_spec. Qed.
Print Assumptions C19_relative_abs.

(* ---- nested config files --------------------------------------------------------------------------- *)
(* Whatever the tree of config files (any nesting, any mixture of nested files, list files, inline
   sections, path values, broken values, missing files), whatever the set of existing files and whatever
   symbolic links lie on the way (`links`: the directory the process enters is then not the directory that
   was spelled): loading it leaves (os.getcwd(), current_path_dir) exactly as they were — on success and when
   the load fails at any point — PROVIDED every directory the code tries to enter can be entered
   (tree_enter_guard; dir_ok is what os.chdir answers).
   FULL STATEMENT without that proviso: false on the pinned tree, see C19_chdir_failure_leaks_refuted — os.chdir
   comes before the `try:` of change_to_path_dir and after current_path_dir.set. The proviso can only fail in
   finding class 5 (C19_guard_implies_enterable). *)
Theorem C19_cwd_restored :
  forall (fxs : fixes) (files : list str) (links : list (str * str)) (dir_ok : str -> bool)
         (s : st) (top : str) (body : list node),
  is_abs (cwd s) = true ->
  tree_enter_guard files links (fx_lf fxs) (fx_rp fxs) dir_ok (cwd s) top body = true ->
  fst (run_top fxs files links dir_ok s top body) = s.
Proof.
  intros fxs files links dir_ok s top body H G.
  rewrite (run_top_pure fxs files links dir_ok s top body H G). reflexivity.
Qed.
Print Assumptions C19_cwd_restored.

(* the same for any value inside a config file, at any depth *)
Theorem C19_nested_value_restores :
  forall (fxs : fixes) (files : list str) (links : list (str * str)) (dir_ok : str -> bool) (n : node) (s : st),
  is_abs (cwd s) = true -> enter_guard files links (fx_lf fxs) (fx_rp fxs) dir_ok (cwd s) n = true ->
  fst (run_node fxs files links dir_ok n s) = s.
Proof.
  intros fxs files links dir_ok n s H G. rewrite (run_node_pure fxs files links dir_ok n s H G). reflexivity.
Qed.
Print Assumptions C19_nested_value_restores.

(* the guard of the resolution theorem below implies the proviso of the restoration theorem *)
Theorem C19_guard_implies_enterable :
  forall (fxs : fixes) (files : list str) (links : list (str * str)) (dir_ok : str -> bool)
         (cwd0 top : str) (body : list node),
  tree_guard files links (fx_lf fxs) (fx_rp fxs) dir_ok cwd0 top body = true ->
  tree_enter_guard files links (fx_lf fxs) (fx_rp fxs) dir_ok cwd0 top body = true.
Proof. exact tree_guard_enter. Qed.
Print Assumptions C19_guard_implies_enterable.

(* FULL STATEMENT (false on the pinned tree, see C19_list_file_relative_refuted and C19_chdir_lexical_dotdot_refuted):
     forall files links s top body, is_abs (cwd s) = true ->
       run_top no_fixes files links dir_ok s top body = (s, spec_top files links (cwd s) top body).
   PROVED, for every combination of landed repairs: the same with `tree_guard … = true`, which restricts how LIST
   files (List[path] given as a file of paths) are spelled (class 4, until fx_lf) and excludes spellings of config /
   list files with ".." after a symbolic link (class 5, until fx_rp). The outcome is the state-free reference
   semantics: every relative path is resolved against the directory of the config file that mentions it — the
   directory the file is physically in when symbolic links are involved —, for any nesting; the load fails iff some
   mentioned file is missing (or a value is broken); and the process state is restored. *)
Theorem C19_relative_follows_config :
  forall (fxs : fixes) (files : list str) (links : list (str * str)) (dir_ok : str -> bool)
         (s : st) (top : str) (body : list node),
  is_abs (cwd s) = true -> tree_guard files links (fx_lf fxs) (fx_rp fxs) dir_ok (cwd s) top body = true ->
  run_top fxs files links dir_ok s top body = (s, spec_top files links (cwd s) top body).
Proof. exact run_top_ok. Qed.
Print Assumptions C19_relative_follows_config.

(* with fixes/C19-list-file-relative.patch (fx_lf) and fixes/C19-chdir-lexical-dotdot.patch (fx_rp) the guard
   reduces to "directories can be entered": the FULL STATEMENT, for every tree, file set and set of symbolic links *)
Theorem C19_relative_follows_config_repaired :
  forall (fxs : fixes) (files : list str) (links : list (str * str)) (dir_ok : str -> bool)
         (s : st) (top : str) (body : list node),
  fx_lf fxs = true -> fx_rp fxs = true -> (forall d, dir_ok d = true) -> is_abs (cwd s) = true ->
  run_top fxs files links dir_ok s top body = (s, spec_top files links (cwd s) top body).
Proof. exact run_top_repaired. Qed.
Print Assumptions C19_relative_follows_config_repaired.

Theorem C19_nested_value_follows_config :
  forall (fxs : fixes) (files : list str) (links : list (str * str)) (dir_ok : str -> bool) (n : node) (s : st),
  is_abs (cwd s) = true -> lf_guard files links (fx_lf fxs) (fx_rp fxs) dir_ok (cwd s) n = true ->
  run_node fxs files links dir_ok n s = (s, spec_node files links (cwd s) n).
Proof. exact run_node_ok. Qed.
Print Assumptions C19_nested_value_follows_config.

(* ---- several config files one after the other ------------------------------------------------------------
   parse_args(["--cfg", f1, "--cfg", f2, ...]) and get_defaults() with several default_config_files, for sequences of
   ANY length, over any file set, link table, os.chdir oracle and repair combination. Induction over the sequence; the
   step uses that the previous file left the process state as it found it. Each file inside tree_guard (evaluated at
   the ONE working directory of the call): every file is found from the working directory of the call, every relative
   path resolves against the directory of the file that mentions it, later files override earlier ones key by key
   (merge_items), the first failure fails the whole, and the process state is restored.
   For default config files the model is the code's: glob drops names that do not exist, Path(v, "fr") is built for
   all files before any is loaded, a blank file is skipped, an undecodable one fails before any directory is entered. *)
Theorem C19_cfg_sequence_follows_config :
  forall (fxs : fixes) (files : list str) (links : list (str * str)) (dir_ok : str -> bool)
         (tops : list (str * list node)) (s : st) (acc : list item),
  is_abs (cwd s) = true -> cfgs_guard files links (fx_lf fxs) (fx_rp fxs) dir_ok (cwd s) tops = true ->
  run_cfgs fxs files links dir_ok s tops acc = (s, spec_cfgs files links (cwd s) tops acc).
Proof. exact run_cfgs_ok. Qed.
Print Assumptions C19_cfg_sequence_follows_config.

Theorem C19_default_files_follow_config :
  forall (fxs : fixes) (files : list str) (links : list (str * str)) (dir_ok : str -> bool)
         (tops : list (str * dcontent)) (s : st),
  is_abs (cwd s) = true -> defaults_guard files links (fx_lf fxs) (fx_rp fxs) dir_ok (cwd s) tops = true ->
  run_defaults fxs files links dir_ok s tops = (s, spec_defaults files links (cwd s) tops).
Proof. exact run_defaults_ok. Qed.
Print Assumptions C19_default_files_follow_config.

(* restoration alone needs only that the directories the code enters can be entered *)
Theorem C19_cfg_sequence_restores :
  forall (fxs : fixes) (files : list str) (links : list (str * str)) (dir_ok : str -> bool)
         (tops : list (str * list node)) (s : st) (acc : list item),
  is_abs (cwd s) = true -> cfgs_enter_guard files links (fx_lf fxs) (fx_rp fxs) dir_ok (cwd s) tops = true ->
  fst (run_cfgs fxs files links dir_ok s tops acc) = s.
Proof. exact run_cfgs_restored. Qed.
Print Assumptions C19_cfg_sequence_restores.

Theorem C19_default_files_restore :
  forall (fxs : fixes) (files : list str) (links : list (str * str)) (dir_ok : str -> bool)
         (tops : list (str * dcontent)) (s : st),
  is_abs (cwd s) = true -> defaults_enter_guard files links (fx_lf fxs) (fx_rp fxs) dir_ok (cwd s) tops = true ->
  fst (run_defaults fxs files links dir_ok s tops) = s.
Proof. exact run_defaults_restored. Qed.
Print Assumptions C19_default_files_restore.

(* with both repairs of this half landed and enterable directories: NO guard on the sequence *)
Theorem C19_cfg_sequence_repaired :
  forall (fxs : fixes) (files : list str) (links : list (str * str)) (dir_ok : str -> bool) (s : st)
         (tops : list (str * list node)) (acc : list item),
  fx_lf fxs = true -> fx_rp fxs = true -> (forall d, dir_ok d = true) -> is_abs (cwd s) = true ->
  run_cfgs fxs files links dir_ok s tops acc = (s, spec_cfgs files links (cwd s) tops acc).
Proof. exact run_cfgs_repaired. Qed.
Print Assumptions C19_cfg_sequence_repaired.

Theorem C19_default_files_repaired :
  forall (fxs : fixes) (files : list str) (links : list (str * str)) (dir_ok : str -> bool) (s : st)
         (tops : list (str * dcontent)),
  fx_lf fxs = true -> fx_rp fxs = true -> (forall d, dir_ok d = true) -> is_abs (cwd s) = true ->
  run_defaults fxs files links dir_ok s tops = (s, spec_defaults files links (cwd s) tops).
Proof. exact run_defaults_repaired. Qed.
Print Assumptions C19_default_files_repaired.

(* what "override key by key" means: everything the later file says is in the result; an earlier value survives
   exactly when the later file says nothing about its key *)
Theorem C19_merge_later_wins : forall (old new : list item) (x : item), In x new -> In x (merge_items old new).
Proof. exact merge_items_later. Qed.
Print Assumptions C19_merge_later_wins.

(* a NUL character in the spelling: PathError for every valid mode (before "-" and before any file-system question),
   ValueError for an invalid one — as the reference semantics demands *)
Theorem C19_nul_rejected : forall (fxs : fixes) (m given : str) (f : facts),
  has_nul given = true -> path_init_fx fxs m given f = spec_init m given f.
Proof.
  intros fxs m given f H. unfold path_init_fx, spec_init. rewrite (check_mode_is_documented m).
  rewrite H. unfold has_nul in H. rewrite H. reflexivity.
Qed.
Print Assumptions C19_nul_rejected.

(* /B/run is the working directory; /B/a/top.yaml mentions ../b/mid.yaml, which mentions data.txt *)
Definition s_of (l : list nat) : str := map N.of_nat l.
Definition ex_files : list str :=
  [s_of [47;66;47;97;47;116]; s_of [47;66;47;98;47;109]; s_of [47;66;47;98;47;100]].
   (* /B/a/t  /B/b/m  /B/b/d *)
Definition ex_cwd : str := s_of [47;66;47;114].  (* /B/r *)
Definition ex_top : str := s_of [46;46;47;97;47;116].  (* ../a/t *)
Definition ex_body : list node := [NLoad (s_of [46;46;47;98;47;109]) [NPath 1 (s_of [100])]]. (* ../b/m -> d *)

Example C19_nested_example :
  run_top no_fixes ex_files [] (fun _ => true) {| cwd := ex_cwd; cpd := None |} ex_top ex_body
  = ({| cwd := ex_cwd; cpd := None |},
     Ok [(1, s_of [100], s_of [47;66;47;98], s_of [47;66;47;98;47;100])]).   (* d resolved in /B/b *)
Proof. vm_compute. reflexivity. Qed.

(* the sequence guards are satisfiable: /B/a/t (-> ../b/m -> d) and then /B/b/m read as a config file of its own
   whose p is d: the later file's value (id 1, same key) replaces the earlier one; a default file that does not exist
   (zz) is skipped, a blank one too *)
Example C19_sequence_example :
  cfgs_guard ex_files [] false false (fun _ => true) ex_cwd [(ex_top, ex_body); (s_of [46;46;47;98;47;109], [NPath 2 (s_of [100])])] = true /\
  run_cfgs no_fixes ex_files [] (fun _ => true) {| cwd := ex_cwd; cpd := None |}
           [(ex_top, ex_body); (s_of [46;46;47;98;47;109], [NPath 2 (s_of [100])])] []
  = ({| cwd := ex_cwd; cpd := None |}, Ok [(2, s_of [100], s_of [47;66;47;98], s_of [47;66;47;98;47;100])]) /\
  defaults_guard ex_files [] false false (fun _ => true) ex_cwd
     [(s_of [122;122], DBody [NBad]); (ex_top, DEmpty); (ex_top, DBody ex_body)] = true /\
  run_defaults no_fixes ex_files [] (fun _ => true) {| cwd := ex_cwd; cpd := None |}
     [(s_of [122;122], DBody [NBad]); (ex_top, DEmpty); (ex_top, DBody ex_body)]
  = ({| cwd := ex_cwd; cpd := None |}, Ok [(1, s_of [100], s_of [47;66;47;98], s_of [47;66;47;98;47;100])]).
Proof. vm_compute. auto. Qed.

(* the guard is satisfiable with nested files, and trees without list files are always inside it *)
Example C19_tree_guard_inhabited : tree_guard ex_files [] false false (fun _ => true) ex_cwd ex_top ex_body = true.
Proof. vm_compute. reflexivity. Qed.

(* finding 4: from /B/r, `lst: x/l` names the existing list file /B/r/x/l whose line `d` names the existing
   /B/r/x/d — the reference semantics resolves it, the code re-reads the spelling x/l from inside /B/r/x,
   finds no /B/r/x/x/l and rejects the value *)
Definition lf_files : list str :=
  [s_of [47;66;47;114;47;116]; s_of [47;66;47;114;47;120;47;108]; s_of [47;66;47;114;47;120;47;100]].
   (* /B/r/t  /B/r/x/l  /B/r/x/d *)
Theorem C19_list_file_relative_refuted : exists files s top body,
  is_abs (cwd s) = true /\
  spec_top files [] (cwd s) top body = Ok [(1, s_of [100], s_of [47;66;47;114;47;120], s_of [47;66;47;114;47;120;47;100])] /\
  snd (run_top no_fixes files [] (fun _ => true) s top body) = Err /\
  snd (run_top all_fixes files [] (fun _ => true) s top body) = spec_top files [] (cwd s) top body.
Proof.
  exists lf_files, {| cwd := ex_cwd; cpd := None |}, (s_of [116]),
         [NListFile true (s_of [120;47;108]) [NPath 1 (s_of [100])]].
  vm_compute. auto.
Qed.
Print Assumptions C19_list_file_relative_refuted.

(* a list file whose content is NOT loadable as YAML takes another route through _check_type and is resolved
   correctly even when spelled relatively (inside the guard; same files as in the witness above) *)
Example C19_list_file_not_yaml_inside_guard :
  tree_guard lf_files [] false false (fun _ => true) ex_cwd (s_of [116]) [NListFile false (s_of [120;47;108]) [NPath 1 (s_of [100])]] = true /\
  snd (run_top no_fixes lf_files [] (fun _ => true) {| cwd := ex_cwd; cpd := None |} (s_of [116])
         [NListFile false (s_of [120;47;108]) [NPath 1 (s_of [100])]])
  = Ok [(1, s_of [100], s_of [47;66;47;114;47;120], s_of [47;66;47;114;47;120;47;100])].
Proof. vm_compute. auto. Qed.

(* ---- symbolic links ------------------------------------------------------------------------------------
   /B/l is a symbolic link to the directory /B/s/p. *)
Definition sl_links : list (str * str) := [(s_of [47;66;47;108], s_of [47;66;47;115;47;112])].

(* inside the guard: the config file /B/s/p/c is named ../l/c from /B/r; the process enters (and os.getcwd()
   answers) the physical directory /B/s/p, the value d is resolved there, and the process is back in /B/r *)
Example C19_symlinked_config_dir :
  tree_guard [s_of [47;66;47;115;47;112;47;99]; s_of [47;66;47;115;47;112;47;100]] sl_links false false (fun _ => true)
             ex_cwd (s_of [46;46;47;108;47;99]) [NPath 1 (s_of [100])] = true /\
  run_top no_fixes [s_of [47;66;47;115;47;112;47;99]; s_of [47;66;47;115;47;112;47;100]] sl_links (fun _ => true)
          {| cwd := ex_cwd; cpd := None |} (s_of [46;46;47;108;47;99]) [NPath 1 (s_of [100])]
  = ({| cwd := ex_cwd; cpd := None |},
     Ok [(1, s_of [100], s_of [47;66;47;115;47;112], s_of [47;66;47;115;47;112;47;100])]).
Proof. vm_compute. auto. Qed.

(* finding 5 (chdir-lexical-dotdot): from /B/r the spelling ../l/../x/c names — for the kernel, hence for open() —
   the config file /B/s/x/c (l -> /B/s/p, and ".." of that is /B/s); its line `d` means /B/s/x/d. The code enters
   os.path.abspath of the directory part, /B/x (".." cancelled lexically against "l"), and resolves d to the
   unrelated file /B/x/d. With realpath instead of abspath (fx_rp) it is /B/s/x/d. *)
Theorem C19_chdir_lexical_dotdot_refuted : exists files links s top body,
  is_abs (cwd s) = true /\
  spec_top files links (cwd s) top body
    = Ok [(1, s_of [100], s_of [47;66;47;115;47;120], s_of [47;66;47;115;47;120;47;100])] /\
  snd (run_top no_fixes files links (fun _ => true) s top body)
    = Ok [(1, s_of [100], s_of [47;66;47;120], s_of [47;66;47;120;47;100])] /\
  snd (run_top all_fixes files links (fun _ => true) s top body) = spec_top files links (cwd s) top body.
Proof.
  exists [s_of [47;66;47;115;47;120;47;99]; s_of [47;66;47;115;47;120;47;100]; s_of [47;66;47;120;47;100]],
         sl_links, {| cwd := ex_cwd; cpd := None |}, (s_of [46;46;47;108;47;46;46;47;120;47;99]),
         [NPath 1 (s_of [100])].
  vm_compute. auto.
Qed.
Print Assumptions C19_chdir_lexical_dotdot_refuted.

(* finding 5, second face: the same spelling when the lexically normalised directory /B/x does not exist (the only
   directories are /B/r, /B/s, /B/s/p, /B/s/x): os.chdir raises FileNotFoundError — not a documented error —, and as
   it comes before the `try:` but after current_path_dir.set, the context variable is left pointing into the config
   file's directory: the process state is NOT restored. With realpath (fx_rp) the load succeeds and restores. *)
Definition sl_dirs : list str :=
  [s_of [47;66;47;114]; s_of [47;66;47;115]; s_of [47;66;47;115;47;112]; s_of [47;66;47;115;47;120]].
Theorem C19_chdir_failure_leaks_refuted : exists files links dirs s top body,
  is_abs (cwd s) = true /\
  spec_top files links (cwd s) top body
    = Ok [(1, s_of [100], s_of [47;66;47;115;47;120], s_of [47;66;47;115;47;120;47;100])] /\
  snd (run_top no_fixes files links (fun d => mem_str d dirs) s top body) = ErrOs /\
  fst (run_top no_fixes files links (fun d => mem_str d dirs) s top body) <> s /\
  run_top all_fixes files links (fun d => mem_str d dirs) s top body = (s, spec_top files links (cwd s) top body).
Proof.
  exists [s_of [47;66;47;115;47;120;47;99]; s_of [47;66;47;115;47;120;47;100]],
         sl_links, sl_dirs, {| cwd := ex_cwd; cpd := None |}, (s_of [46;46;47;108;47;46;46;47;120;47;99]),
         [NPath 1 (s_of [100])].
  vm_compute. repeat split; try reflexivity. discriminate.
Qed.
Print Assumptions C19_chdir_failure_leaks_refuted.

(* the restoration theorem is not vacuous: the same bracket without `finally` leaves the process in the
   config file's directory when the body fails *)
Example C19_no_finally_would_leak :
  fst (bracket_no_finally (Some (s_of [47;66;47;97;47;116])) (fun s' => (s', @Err unit))
         {| cwd := ex_cwd; cpd := None |})
  <> {| cwd := ex_cwd; cpd := None |}.
Proof. vm_compute. discriminate. Qed.

(* C10 — parse results are fixed points: property theorems only.
   Each is closed by `exact` of a lemma proved in Proofs/ (or a vm_compute witness).

   Everything is stated for ARBITRARY text readers jload / pval / ikey (what json_or_yaml_load,
   parse_value_or_config and int() answer for a string): the fixed-point property does not depend on
   what text means, only on how adapt_typehints / _check_type / parse_object treat values.

   THE FULL STATEMENT (false of the faithful model, see C10_fixed_point_refuted):
     forall t v0 w, parse_key VNone t v0 = AOk w -> parse_key VNone t w = AOk w.
   What is proved: the same with the guard `key_guard` / `ns_guard` (no Union node re-selects a
   member on the adapted value — Model/C10Adapt.v, `stable`), for every type of the grammar, every
   input value, every parser with distinct keys; and without any guard for Union-free types. *)
From JV Require Import Lib.Base Model.C10Adapt Model.C10Parser Model.C10Nargs Proofs.C10AdaptProofs Proofs.C10ParserProofs
                       Proofs.C10NargsProofs.

(* adapt_typehints: a value it returned is returned unchanged when adapted again *)
Theorem C10_readapt_fixed_point :
  forall (jload : str -> lres) (pval : bool -> str -> lres) (ikey : str -> option Z)
         (t : ty) (orig : option str) (v w : val),
    adapt jload pval ikey orig t v = AOk w ->
    stable jload pval ikey orig t v = true ->
    adapt jload pval ikey None t w = AOk w.
Proof. exact adapt_fixed. Qed.
Print Assumptions C10_readapt_fixed_point.

(* ... with no guard at all for types without Union: leaves, Literal, Enum, Any, List, Dict[str|int,_],
   Tuple[..], Tuple[T,...], Set, arbitrarily nested *)
Theorem C10_readapt_fixed_point_union_free :
  forall (jload : str -> lres) (pval : bool -> str -> lres) (ikey : str -> option Z)
         (t : ty) (orig : option str) (v w : val),
    union_free t = true ->
    adapt jload pval ikey orig t v = AOk w ->
    adapt jload pval ikey None t w = AOk w.
Proof. exact adapt_fixed_union_free. Qed.
Print Assumptions C10_readapt_fixed_point_union_free.

(* ActionTypeHint._check_type (text loading, orig_val retry, default early-out, valid-string fallback):
   what it accepted it returns unchanged *)
Theorem C10_check_type_fixed_point :
  forall (jload : str -> lres) (pval : bool -> str -> lres) (ikey : str -> option Z)
         (dflt : val) (t : ty) (v0 w : val),
    key_guard jload pval ikey dflt t v0 = true ->
    check_type jload pval ikey dflt t v0 = AOk w ->
    check_type jload pval ikey dflt t w = AOk w.
Proof. exact check_type_fixed. Qed.
Print Assumptions C10_check_type_fixed_point.

(* one key through a parse method (action, then validation): the result passes validation and
   parsing it again returns it *)
Theorem C10_parsed_key_validates_and_reparses :
  forall (jload : str -> lres) (pval : bool -> str -> lres) (ikey : str -> option Z)
         (dflt : val) (t : ty) (v0 w : val),
    key_guard jload pval ikey dflt t v0 = true ->
    parse_key jload pval ikey dflt t v0 = AOk w ->
    validate_key jload pval ikey dflt t w = true /\ parse_key jload pval ikey dflt t w = AOk w.
Proof. exact parse_key_fixed. Qed.
Print Assumptions C10_parsed_key_validates_and_reparses.

(* parse_object over a whole parser (typed arguments under distinct dotted keys, defaults): the
   returned configuration validates, and given back as an object it is returned unchanged — defaults
   applied once, every value normalised once *)
Theorem C10_parse_object_fixed_point :
  forall (jload : str -> lres) (pval : bool -> str -> lres) (ikey : str -> option Z)
         (p : parser) (asg : list (str * val)) (cfg : list val),
    nodup_keys p = true ->
    ns_guard jload pval ikey p asg = true ->
    parse_flat jload pval ikey p asg = Some cfg ->
    validate_all jload pval ikey p cfg = true /\
    parse_flat jload pval ikey p (as_assignments p cfg) = Some cfg.
Proof. exact parse_flat_fixed. Qed.
Print Assumptions C10_parse_object_fixed_point.

(* list-valued options (nargs '+', '*', N): _check_type iterates the value, passes every item through the
   scalar path and writes it back; a mapping, a non-empty str / tuple / set and a scalar are refused, an empty
   str / tuple / set is handed back untouched.  What it accepted it returns unchanged ... *)
Theorem C10_nargs_check_type_fixed_point :
  forall (jload : str -> lres) (pval : bool -> str -> lres) (ikey : str -> option Z)
         (dflt : val) (t : ty) (v0 w : val),
    list_guard jload pval ikey dflt t v0 = true ->
    check_type_list jload pval ikey dflt t v0 = AOk w ->
    check_type_list jload pval ikey dflt t w = AOk w.
Proof. exact check_type_list_fixed. Qed.
Print Assumptions C10_nargs_check_type_fixed_point.

(* ... so a list-valued key that went through a parse method validates and re-parses to itself, item by item
   (every item normalised once; the guard is the key-level guard on every item) *)
Theorem C10_nargs_key_validates_and_reparses :
  forall (jload : str -> lres) (pval : bool -> str -> lres) (ikey : str -> option Z)
         (dflt : val) (t : ty) (v0 w : val),
    list_guard jload pval ikey dflt t v0 = true ->
    parse_list_key jload pval ikey dflt t v0 = AOk w ->
    validate_list_key jload pval ikey dflt t w = true /\ parse_list_key jload pval ikey dflt t w = AOk w.
Proof. exact parse_list_key_fixed. Qed.
Print Assumptions C10_nargs_key_validates_and_reparses.

(* ---- the finding: without the guard the statement is false --------------------------------------
   Union[Tuple[int], Set[int]] given [1, 1]: Tuple[int] rejects two elements, Set[int] makes {1};
   on {1} the Union now selects Tuple[int] and answers (1,).  No text is involved. *)
Definition no_text : str -> lres := fun _ => LYamlErr.
Definition no_text2 : bool -> str -> lres := fun _ _ => LYamlErr.
Definition no_int : str -> option Z := fun _ => None.

Theorem C10_fixed_point_refuted :
  exists (t : ty) (v0 w w' : val),
    parse_key no_text no_text2 no_int VNone t v0 = AOk w /\
    validate_key no_text no_text2 no_int VNone t w = true /\
    parse_key no_text no_text2 no_int VNone t w = AOk w' /\
    val_eqb w w' = false /\
    key_guard no_text no_text2 no_int VNone t v0 = false.
Proof.
  exists (TUnion [TTuple [TInt]; TSet TInt]), (VList [VInt 1; VInt 1]), (VSet [VInt 1]), (VTuple [VInt 1]).
  vm_compute. repeat split; reflexivity.
Qed.
Print Assumptions C10_fixed_point_refuted.

(* ---- the hypotheses are satisfiable by non-trivial inputs -------------------------------------- *)
Definition s1 : str := [49%N].                         (* "1" *)
Definition sred : str := [114; 101; 100]%N.            (* "red" *)
Definition ex_jload (s : str) : lres := if str_eqb s s1 then LVal (VInt 1) else LYamlErr.
Definition ex_pval (_ : bool) (s : str) : lres := LVal (VStr s).
Definition ex_ty : ty :=
  TUnion [TDict true (TTuple [TInt; TEnum [67%N] [sred]]); TSet TFloat; TNone].

(* Union[Dict[int, Tuple[int, Color]], Set[float], None] on {"1": ["1", "red"]}: the key and the
   elements change representation, the guard holds, the result is a fixed point *)
Example C10_guard_satisfiable_key :
  let v0 := VDict [(VStr s1, VList [VStr s1; VStr sred])] in
  let w := VDict [(VInt 1, VTuple [VInt 1; VEnum [67%N] sred])] in
  key_guard ex_jload ex_pval (fun _ => Some 1%Z) VNone ex_ty v0 = true /\
  parse_key ex_jload ex_pval (fun _ => Some 1%Z) VNone ex_ty v0 = AOk w /\
  parse_key ex_jload ex_pval (fun _ => Some 1%Z) VNone ex_ty w = AOk w.
Proof. vm_compute. repeat split; reflexivity. Qed.

(* a parser with a default given as text and a Union-typed key *)
Definition ex_parser : parser :=
  [ {| d_key := [97%N]; d_ty := TFloat; d_default := VStr s1 |};
    {| d_key := [103; 46; 98]%N; d_ty := TUnion [TList TInt; TNone]; d_default := VNone |} ].

Example C10_guard_satisfiable_parser :
  let asg := [([103; 46; 98]%N, VTuple [VStr s1; VInt 2])] in
  let cfg := [VFloat (FFin 1 0); VList [VInt 1; VInt 2]] in
  nodup_keys ex_parser = true /\
  ns_guard ex_jload ex_pval no_int ex_parser asg = true /\
  parse_flat ex_jload ex_pval no_int ex_parser asg = Some cfg /\
  parse_flat ex_jload ex_pval no_int ex_parser (as_assignments ex_parser cfg) = Some cfg.
Proof. vm_compute. repeat split; reflexivity. Qed.

(* nargs='+', type=Union[float, None] given ['1', 1, None]-like items: text and int items become floats, the
   guard holds for every item, the list is a fixed point *)
Example C10_nargs_guard_satisfiable :
  let t := TUnion [TFloat; TNone] in
  let v0 := VList [VStr s1; VInt 1; VNone] in
  let w := VList [VFloat (FFin 1 0); VFloat (FFin 1 0); VNone] in
  list_guard ex_jload ex_pval no_int VNone t v0 = true /\
  parse_list_key ex_jload ex_pval no_int VNone t v0 = AOk w /\
  parse_list_key ex_jload ex_pval no_int VNone t w = AOk w.
Proof. vm_compute. repeat split; reflexivity. Qed.

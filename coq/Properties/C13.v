(* C13 — property theorems only. Each is closed by `exact` of a lemma proved in Proofs/KwargsProofs.v
   or by evaluation of a closed witness.

   Two semantics of one DSL of Python programs (Model/Kwargs.v):
     resolve : what jsonargparse's resolver offers for a class (model of _parameter_resolvers.py)
     call    : what CPython does when the class is called with a list of keyword names (Spec/KwargsSpec.v)
   klass_top (Model/KwargsGuard.v) is the executable hypothesis; the correspondence judge evaluates the
   same function on every generated program.  Class hierarchies, MROs and call chains are arbitrary
   (induction on the fuel of the call chain); OutOfFuel is excluded by `resolve .. = Ok R` and by the
   conclusion (CFuel is not a good outcome). *)
From JV Require Import Lib.Base Model.Kwargs Model.KwargsGuard Model.C13KwargsFx Spec.KwargsSpec Proofs.KwargsProofs Proofs.C13FxProofs Proofs.C13FxTransfer Proofs.C13Complete.

(* ---- witnesses (the Python source each term was printed from is in the comment) ------------- *)
(*
class C0:
    def __init__(self, a: int = 0, b: int = 1):
        pass


class C1(C0):
    def __init__(self, ** kwargs):
        v_n = kwargs.get("n", 3)
        super().__init__( ** kwargs)
*)
Definition P_get_then_forward : prog :=
  {| p_funcs := (@nil fn); p_classes := [{| c_bases := (@nil nat); c_init := (Some {| f_params := [{| sp_name := [97]%N; sp_ty := 0%N; sp_def := DVal 0%N (0)%Z; sp_kwonly := false |}; {| sp_name := [98]%N; sp_ty := 0%N; sp_def := DVal 0%N (1)%Z; sp_kwonly := false |}]; f_kw := false; f_body := (@nil stmt) |}); c_meths := (@nil (nat * fn)) |}; {| c_bases := [0%nat]; c_init := (Some {| f_params := (@nil sparam); f_kw := true; f_body := [SPG false [110]%N 0%N (3)%Z; SCall KSuper 0%nat (@nil str)] |}); c_meths := (@nil (nat * fn)) |}] |}.

(*
class C0:
    def __init__(self, a: int = 0, b: int = 1):
        pass


class C1(C0):
    def __init__(self, ** kwargs):
        v_n = kwargs.pop("n", 3)
        super().__init__( ** kwargs)
*)
Definition P_pop_then_forward : prog :=
  {| p_funcs := (@nil fn); p_classes := [{| c_bases := (@nil nat); c_init := (Some {| f_params := [{| sp_name := [97]%N; sp_ty := 0%N; sp_def := DVal 0%N (0)%Z; sp_kwonly := false |}; {| sp_name := [98]%N; sp_ty := 0%N; sp_def := DVal 0%N (1)%Z; sp_kwonly := false |}]; f_kw := false; f_body := (@nil stmt) |}); c_meths := (@nil (nat * fn)) |}; {| c_bases := [0%nat]; c_init := (Some {| f_params := (@nil sparam); f_kw := true; f_body := [SPG true [110]%N 0%N (3)%Z; SCall KSuper 0%nat (@nil str)] |}); c_meths := (@nil (nat * fn)) |}] |}.

(*
class C0:
    def __init__(self, a: int = 0, b: int = 1):
        pass


class C1(C0):
    def __init__(self, ** kwargs):
        super().__init__(0, ** kwargs)


class C2(C1):
    pass
*)
Definition P_inherited_init : prog :=
  {| p_funcs := (@nil fn); p_classes := [{| c_bases := (@nil nat); c_init := (Some {| f_params := [{| sp_name := [97]%N; sp_ty := 0%N; sp_def := DVal 0%N (0)%Z; sp_kwonly := false |}; {| sp_name := [98]%N; sp_ty := 0%N; sp_def := DVal 0%N (1)%Z; sp_kwonly := false |}]; f_kw := false; f_body := (@nil stmt) |}); c_meths := (@nil (nat * fn)) |}; {| c_bases := [0%nat]; c_init := (Some {| f_params := (@nil sparam); f_kw := true; f_body := [SCall KSuper 1%nat (@nil str)] |}); c_meths := (@nil (nat * fn)) |}; {| c_bases := [1%nat]; c_init := None; c_meths := (@nil (nat * fn)) |}] |}.

(*
class C0:
    def __init__(self, a: int = 0, b: int = 1):
        pass


class C1(C0):
    def __init__(self, ** kwargs):
        v_a = kwargs.pop("a", 3)
        super().__init__(a=0, ** kwargs)
*)
Definition P_popget_hardcoded : prog :=
  {| p_funcs := (@nil fn); p_classes := [{| c_bases := (@nil nat); c_init := (Some {| f_params := [{| sp_name := [97]%N; sp_ty := 0%N; sp_def := DVal 0%N (0)%Z; sp_kwonly := false |}; {| sp_name := [98]%N; sp_ty := 0%N; sp_def := DVal 0%N (1)%Z; sp_kwonly := false |}]; f_kw := false; f_body := (@nil stmt) |}); c_meths := (@nil (nat * fn)) |}; {| c_bases := [0%nat]; c_init := (Some {| f_params := (@nil sparam); f_kw := true; f_body := [SPG true [97]%N 0%N (3)%Z; SCall KSuper 0%nat [[97]%N]] |}); c_meths := (@nil (nat * fn)) |}] |}.

(*
class C0:
    def __init__(self, a: int = 0, b: int = 1):
        pass


class C1(C0):
    def __init__(self, c: str = 'v1', ** kwargs):
        super().__init__(a=0, ** kwargs)
*)
Definition P_hardcoded : prog :=
  {| p_funcs := (@nil fn); p_classes := [{| c_bases := (@nil nat); c_init := (Some {| f_params := [{| sp_name := [97]%N; sp_ty := 0%N; sp_def := DVal 0%N (0)%Z; sp_kwonly := false |}; {| sp_name := [98]%N; sp_ty := 0%N; sp_def := DVal 0%N (1)%Z; sp_kwonly := false |}]; f_kw := false; f_body := (@nil stmt) |}); c_meths := (@nil (nat * fn)) |}; {| c_bases := [0%nat]; c_init := (Some {| f_params := [{| sp_name := [99]%N; sp_ty := 2%N; sp_def := DVal 2%N (1)%Z; sp_kwonly := false |}]; f_kw := true; f_body := [SCall KSuper 0%nat [[97]%N]] |}); c_meths := (@nil (nat * fn)) |}] |}.

(*
class C0:
    def __init__(self, ** kwargs):
        self.m0( ** kwargs)

    def m0(self, p: int = 2):
        pass


class C1(C0):
    def __init__(self, ** kwargs):
        super().__init__( ** kwargs)

    def m0(self, q: int = 3):
        pass
*)
Definition P_method_override : prog :=
  {| p_funcs := (@nil fn); p_classes := [{| c_bases := (@nil nat); c_init := (Some {| f_params := (@nil sparam); f_kw := true; f_body := [SCall (KMeth 0%nat) 0%nat (@nil str)] |}); c_meths := [(0%nat, {| f_params := [{| sp_name := [112]%N; sp_ty := 0%N; sp_def := DVal 0%N (2)%Z; sp_kwonly := false |}]; f_kw := false; f_body := (@nil stmt) |})] |}; {| c_bases := [0%nat]; c_init := (Some {| f_params := (@nil sparam); f_kw := true; f_body := [SCall KSuper 0%nat (@nil str)] |}); c_meths := [(0%nat, {| f_params := [{| sp_name := [113]%N; sp_ty := 0%N; sp_def := DVal 0%N (3)%Z; sp_kwonly := false |}]; f_kw := false; f_body := (@nil stmt) |})] |}] |}.

(*
class C0:
    def __init__(self, z: int = 1):
        pass


class C1(C0):
    def __init__(self, ** kwargs):
        v_z = kwargs.pop("z", 3)
        super().__init__( ** kwargs)


class C2:
    def __init__(self, ** kwargs):
        v_q = kwargs.pop("q", 0)
        C1( ** kwargs)
*)
Definition P_cond_crash : prog :=
  {| p_funcs := (@nil fn); p_classes := [{| c_bases := (@nil nat); c_init := (Some {| f_params := [{| sp_name := [122]%N; sp_ty := 0%N; sp_def := DVal 0%N (1)%Z; sp_kwonly := false |}]; f_kw := false; f_body := (@nil stmt) |}); c_meths := (@nil (nat * fn)) |}; {| c_bases := [0%nat]; c_init := (Some {| f_params := (@nil sparam); f_kw := true; f_body := [SPG true [122]%N 0%N (3)%Z; SCall KSuper 0%nat (@nil str)] |}); c_meths := (@nil (nat * fn)) |}; {| c_bases := (@nil nat); c_init := (Some {| f_params := (@nil sparam); f_kw := true; f_body := [SPG true [113]%N 0%N (0)%Z; SCall (KClass 1%nat) 0%nat (@nil str)] |}); c_meths := (@nil (nat * fn)) |}] |}.

(*
class C0:
    def __init__(self, ** kwargs):
        v_b = kwargs.get("b", 3)
        self.m0(b=0, ** kwargs)

    def m0(self, ** kwargs):
        pass
*)
Definition P_get_hardcoded_swallowed : prog :=
  {| p_funcs := (@nil fn); p_classes := [{| c_bases := (@nil nat); c_init := (Some {| f_params := (@nil sparam); f_kw := true; f_body := [SPG false [98]%N 0%N (3)%Z; SCall (KMeth 0%nat) 0%nat [[98]%N]] |}); c_meths := [(0%nat, {| f_params := (@nil sparam); f_kw := true; f_body := (@nil stmt) |})] |}] |}.

(*
class C0:
    def __init__(self, a: int = 0, ** kwargs):
        super().__init__( ** kwargs)


class C1(C0):
    def __init__(self, b: float = 1.5, ** kwargs):
        v_n = kwargs.pop("n", 3)
        super().__init__( ** kwargs)


class C2(C0):
    def __init__(self, r0: str, c: str = 'v2', ** kwargs):
        super().__init__(a=0, ** kwargs)


class C3(C1, C2):
    def __init__(self, d: int = 3, ** kwargs):
        super().__init__( ** kwargs)
*)
Definition P_diamond : prog :=
  {| p_funcs := (@nil fn); p_classes := [{| c_bases := (@nil nat); c_init := (Some {| f_params := [{| sp_name := [97]%N; sp_ty := 0%N; sp_def := DVal 0%N (0)%Z; sp_kwonly := false |}]; f_kw := true; f_body := [SCall KSuper 0%nat (@nil str)] |}); c_meths := (@nil (nat * fn)) |}; {| c_bases := [0%nat]; c_init := (Some {| f_params := [{| sp_name := [98]%N; sp_ty := 1%N; sp_def := DVal 1%N (1)%Z; sp_kwonly := false |}]; f_kw := true; f_body := [SPG true [110]%N 0%N (3)%Z; SCall KSuper 0%nat (@nil str)] |}); c_meths := (@nil (nat * fn)) |}; {| c_bases := [0%nat]; c_init := (Some {| f_params := [{| sp_name := [114;48]%N; sp_ty := 2%N; sp_def := DReq; sp_kwonly := false |}; {| sp_name := [99]%N; sp_ty := 2%N; sp_def := DVal 2%N (2)%Z; sp_kwonly := false |}]; f_kw := true; f_body := [SCall KSuper 0%nat [[97]%N]] |}); c_meths := (@nil (nat * fn)) |}; {| c_bases := [1%nat; 2%nat]; c_init := (Some {| f_params := [{| sp_name := [100]%N; sp_ty := 0%N; sp_def := DVal 0%N (3)%Z; sp_kwonly := false |}]; f_kw := true; f_body := [SCall KSuper 0%nat (@nil str)] |}); c_meths := (@nil (nat * fn)) |}] |}.

(* ---- resolver_sound ----------------------------------------------------------------------------
   Full statement (FALSE of the unchanged code, see the _refuted lemmas):
     forall P c R S, resolve P c = Ok R -> NoDup S -> S included in names R ->
                     call P c S is not an unexpected-keyword / object.__init__ / multiple-values error.
   Proved: the same under klass_top = 0.  good_outcome o  <->  o = COk \/ o = CMissing: no keyword is
   refused, no positional overflow, the program stays inside the DSL, the fuel suffices. *)
Theorem C13_resolver_sound :
  forall (fuel : nat) (P : prog) (c : nat) (R : list rparam) (kws : list str),
    klass_top fuel P c = 0%N ->
    resolve fuel P c = Ok R ->
    NoDup kws ->
    (forall n, In n kws -> In n (names R)) ->
    good_outcome (fst (call fuel P c kws)) = true.
Proof. exact sound_class. Qed.
Print Assumptions C13_resolver_sound.

(* the same for any callable reached on the way (functions, methods, __init__ of base classes at any
   MRO position), with positional arguments already bound *)
Theorem C13_resolver_sound_frame :
  forall (fuel : nat) (P : prog) (fr : frame) (R : list rparam) (npos : nat) (kws : list str),
    klass fuel P fr = 0%N ->
    resolve_frame fuel P fr = Ok R ->
    npos <= npos_cap (fr_fn fr) ->
    NoDup kws ->
    (forall n, In n kws -> In n (names (skipn npos R))) ->
    good_outcome (fst (call_frame fuel P fr npos kws)) = true.
Proof. exact sound_frame. Qed.
Print Assumptions C13_resolver_sound_frame.

(* ---- hardcoded_not_offered (every program, no guard) ----------------------------------------------
   A keyword that is hard-coded at a forwarding call and that the callee would accept is offered only
   if it is one of the callable's own declared parameters. *)
Theorem C13_hardcoded_not_offered :
  forall rec cf (fr : frame) (R : list rparam) (c : callee) (np : nat) (gv : list str)
         (ps : list rparam) (x : str),
    ast_step rec cf fr = Ok R ->
    In (SCall c np gv) (f_body (fr_fn fr)) ->
    call_params rec cf c = Ok ps ->
    In x gv -> In x (names ps) ->
    In x (names R) -> In x (map sp_name (f_params (fr_fn fr))).
Proof. exact hardcoded_frame. Qed.
Print Assumptions C13_hardcoded_not_offered.

(* ---- keeps_type_and_default (every program, no guard; partial) --------------------------------------
   (a) the declared parameters come first, with their annotation, default and kind;
   (b) a body that only forwards offers, beyond those, records taken unchanged (name, annotation,
       default, kind) from the callee's resolved parameters.
   Not proved: the statement for bodies that mix pop/get with forwarding (group_parameters); that part
   is judged per case by Spec.tydef_b in the correspondence. *)
Theorem C13_keeps_type_and_default_declared :
  forall (fuel : nat) (P : prog) (fr : frame) (R : list rparam),
    resolve_frame fuel P fr = Ok R ->
    firstn (length (f_params (fr_fn fr))) R = own_rparams (fr_fn fr).
Proof. exact own_kept. Qed.
Print Assumptions C13_keeps_type_and_default_declared.

Theorem C13_keeps_type_and_default_forwarded :
  forall rec cf (fr : frame) (R : list rparam) (c : callee) (np : nat) (gv : list str) (ps : list rparam),
    ast_step rec cf fr = Ok R ->
    f_body (fr_fn fr) = [SCall c np gv] ->
    call_params rec cf c = Ok ps ->
    forall p, In p R -> In p (own_rparams (fr_fn fr)) \/ In p ps.
Proof. exact forwarded_kept. Qed.
Print Assumptions C13_keeps_type_and_default_forwarded.

(* ---- the hypotheses are satisfiable, on non-trivial programs ------------------------------------ *)
Example C13_guard_pop_then_forward :
  klass_top 40 P_pop_then_forward 1 = 0%N /\
  option_map names (match resolve 40 P_pop_then_forward 1 with Ok r => Some r | Err _ => None end)
    = Some [[110]; [97]; [98]]%N /\
  fst (call 40 P_pop_then_forward 1 [[110]; [97]; [98]]%N) = COk.
Proof. vm_compute. auto. Qed.

(* cooperative diamond D(B, C), B(A), C(A): C's parameters are reached from B's super() through the
   instance's MRO; C hard-codes a *)
Example C13_guard_diamond :
  klass_top 40 P_diamond 3 = 0%N /\
  c3 40 P_diamond 3 = Some [3; 1; 2; 0] /\
  option_map names (match resolve 40 P_diamond 3 with Ok r => Some r | Err _ => None end)
    = Some [[100]; [98]; [110]; [114; 48]; [99]]%N /\
  fst (call 40 P_diamond 3 [[100]; [98]; [110]; [114; 48]; [99]]%N) = COk /\
  fst (call 40 P_diamond 3 [[114; 48]; [97]]%N) = CMultiple.
Proof. vm_compute. auto 10. Qed.

(* ---- findings: the full statements are false of the faithful model --------------------------------- *)
(* 1: v_n = kwargs.get("n", 3); super().__init__( ** kwargs): n is offered, passing it is refused *)
Theorem C13_get_then_forward_refuted :
  exists P c R n, resolve 40 P c = Ok R /\ In n (names R) /\ fst (call 40 P c [n]) = CUnexpected
                  /\ klass_top 40 P c = 1%N.
Proof. exists P_get_then_forward, 1, ltac:(let r := eval vm_compute in (resolve 40 P_get_then_forward 1) in
                                           match r with Ok ?x => exact x end), [110]%N.
       vm_compute. auto. Qed.

(* 2: a class that inherits an __init__ whose super() call passes a positional argument: b is legal,
      received by C0.__init__, and not offered *)
Theorem C13_inherited_init_refuted :
  exists P c n, resolve 40 P c = Ok [] /\ fst (call 40 P c [n]) = COk
                /\ In n (map fst (snd (call 40 P c [n]))) /\ klass_top 40 P c = 2%N.
Proof. exists P_inherited_init, 2, [98]%N. vm_compute. auto. Qed.

(* 1b: a get key that is hard-coded at the forwarding call is still in the forwarded dict: offered
       (the callee swallows it in its own **kwargs, so it is not recorded as removed), refused with
       "multiple values for keyword argument" — the same root cause as 1 *)
Theorem C13_get_hardcoded_refuted :
  exists P c R n, resolve 40 P c = Ok R /\ In n (names R) /\ fst (call 40 P c [n]) = CMultiple
                  /\ klass_top 40 P c = 1%N.
Proof. exists P_get_hardcoded_swallowed, 0,
         ltac:(let r := eval vm_compute in (resolve 40 P_get_hardcoded_swallowed 0) in
               match r with Ok ?x => exact x end), [98]%N.
       vm_compute. auto. Qed.

(* 3: a key popped before the forwarding call that is also hard-coded at the call: legal, received by
      the pop, not offered (removed_params is applied to the pop parameter too) *)
Theorem C13_pop_hardcoded_refuted :
  exists P c R n, resolve 40 P c = Ok R /\ ~ In n (names R) /\ fst (call 40 P c [n]) = COk
                  /\ In n (map fst (snd (call 40 P c [n]))) /\ klass_top 40 P c = 3%N.
Proof.
  exists P_popget_hardcoded, 1, ltac:(let r := eval vm_compute in (resolve 40 P_popget_hardcoded 1) in
                                      match r with Ok ?x => exact x end), [97]%N.
  vm_compute. repeat split; auto. intros [H|[]]. discriminate.
Qed.

(* 4: self.m0 is resolved on the class being visited, the interpreter calls the override *)
Theorem C13_method_override_refuted :
  exists P c R p q, resolve 40 P c = Ok R /\ In p (names R) /\ fst (call 40 P c [p]) = CUnexpected
                    /\ ~ In q (names R) /\ fst (call 40 P c [q]) = COk /\ klass_top 40 P c = 4%N.
Proof. exists P_method_override, 1, ltac:(let r := eval vm_compute in (resolve 40 P_method_override 1) in
                                          match r with Ok ?x => exact x end), [112]%N, [113]%N.
       vm_compute. repeat split; auto. intros [H|[]]. discriminate. Qed.

(* 5: group_parameters raises on a tuple origin; the assumptions resolver offers nothing although
      q and z are legal and received *)
Theorem C13_cond_origin_crash_refuted :
  exists P c q z, resolve 40 P c = Ok [] /\ fst (call 40 P c [q; z]) = COk
                  /\ map fst (snd (call 40 P c [q; z])) = [q; z] /\ klass_top 40 P c = 5%N.
Proof. exists P_cond_crash, 2, [113]%N, [122]%N. vm_compute. auto. Qed.

(* hard-coded arguments are removed (instance of C13_hardcoded_not_offered evaluated) *)
Example C13_hardcoded_example :
  option_map names (match resolve 40 P_hardcoded 1 with Ok r => Some r | Err _ => None end)
    = Some [[99]; [98]]%N /\ fst (call 40 P_hardcoded 1 [[97]]%N) = CMultiple.
Proof. vm_compute. auto. Qed.

(* ---- the repairs of fixes/C13-*.patch (Model/C13KwargsFx.v) --------------------------------------
   On the four witnesses above the repaired resolver offers exactly what the interpreter accepts
   (Spec.exact_b: sound, complete, type and default), and it leaves finding 1 as it is. *)
Definition exact_fx (fx : fixes) (P : prog) (c : nat) : bool :=
  match resolve_fx fx 40 P c with Ok R => exact_b 40 P c R | Err _ => false end.

Theorem C13_repairs_close_witnesses :
  exact_fx no_fixes P_inherited_init 2 = false /\ exact_fx all_fixes P_inherited_init 2 = true /\
  exact_fx no_fixes P_popget_hardcoded 1 = false /\ exact_fx all_fixes P_popget_hardcoded 1 = true /\
  exact_fx no_fixes P_method_override 1 = false /\ exact_fx all_fixes P_method_override 1 = true /\
  exact_fx no_fixes P_cond_crash 2 = false /\ exact_fx all_fixes P_cond_crash 2 = true /\
  exact_fx all_fixes P_get_then_forward 1 = false /\ exact_fx all_fixes P_get_hardcoded_swallowed 0 = false /\
  klass_top_fx all_fixes 40 P_get_then_forward 1 = 1%N /\
  exact_fx all_fixes P_diamond 3 = true.
Proof. vm_compute. repeat split; reflexivity. Qed.
Print Assumptions C13_repairs_close_witnesses.

(* the flagged model with no flag set is the faithful model, and its guard is the guard of the theorems:
   Model/C13KwargsFx.v is a conservative extension (every program, every fuel) *)
Theorem C13_fx_conservative :
  forall (fuel : nat) (P : prog) (c : nat),
    resolve_fx no_fixes fuel P c = resolve fuel P c /\
    klass_top_fx no_fixes fuel P c = klass_top fuel P c.
Proof. exact (fun fuel P c => conj (resolve_nofx fuel P c) (klass_top_nofx fuel P c)). Qed.
Print Assumptions C13_fx_conservative.

(* inside the guard the four repairs change nothing (every program, every fuel): the repaired resolver
   returns what the faithful model returns, hence C13_resolver_sound holds of the repaired resolver too *)
Theorem C13_repairs_preserve_guarded :
  forall (fuel : nat) (P : prog) (c : nat),
    klass_top fuel P c = 0%N -> resolve_fx all_fixes fuel P c = resolve fuel P c.
Proof. exact fx_same_in_guard_top. Qed.
Print Assumptions C13_repairs_preserve_guarded.

Theorem C13_resolver_sound_repaired :
  forall (fuel : nat) (P : prog) (c : nat) (R : list rparam) (kws : list str),
    klass_top fuel P c = 0%N ->
    resolve_fx all_fixes fuel P c = Ok R ->
    NoDup kws ->
    (forall n, In n kws -> In n (names R)) ->
    good_outcome (fst (call fuel P c kws)) = true.
Proof. exact sound_class_fx. Qed.
Print Assumptions C13_resolver_sound_repaired.

(* ---- classes that INHERIT __init__ (round 6) -----------------------------------------------------
   klass_top excludes every class without an __init__ of its own (class_agree: the unrepaired resolver
   started the MRO walk at position 0 with the inherited function — finding inherited-init-positional,
   repaired in /repo by 0af5536).  For the repaired resolver the hypothesis is klass_top_inh
   (Model/C13KwargsFx.v): the frame of the __init__ found through the MRO, AT ITS OWN POSITION, is inside
   the proved fragment.  Every program, class and fuel; hierarchies unbounded; the class may inherit
   __init__ from any depth of a single- or multiple-inheritance hierarchy. *)
Theorem C13_resolver_sound_inherited_init :
  forall (fuel : nat) (P : prog) (c : nat) (R : list rparam) (kws : list str),
    klass_top_inh fuel P c = 0%N ->
    resolve_fx all_fixes fuel P c = Ok R ->
    NoDup kws ->
    (forall n, In n kws -> In n (names R)) ->
    good_outcome (fst (call fuel P c kws)) = true.
Proof. exact sound_class_inh. Qed.
Print Assumptions C13_resolver_sound_inherited_init.

(* the new hypothesis is weaker than the old one: C13_resolver_sound_repaired is the special case *)
Theorem C13_inherited_guard_widens :
  forall (fuel : nat) (P : prog) (c : nat), klass_top fuel P c = 0%N -> klass_top_inh fuel P c = 0%N.
Proof. exact klass_top_inh_widens. Qed.
Print Assumptions C13_inherited_guard_widens.

(* and what is offered for such a class is what the faithful model offers for the inherited __init__ at its
   position (so hardcoded_not_offered / keeps_type_and_default, stated per frame, speak about it too) *)
Theorem C13_inherited_init_offers_frame :
  forall (fuel : nat) (P : prog) (c : nat) (fr : frame),
    class_frame Interp fuel P c = Ok (Some fr) -> klass fuel P fr = 0%N ->
    resolve_fx all_fixes fuel P c = resolve_frame fuel P fr.
Proof. exact resolve_inh_frame. Qed.
Print Assumptions C13_inherited_init_offers_frame.

(* the hypothesis is satisfiable exactly where the old one was not: the former witness of the finding
   (C2(C1): pass; C1.__init__: super().__init__(0, **kwargs); C0.__init__(a, b)) is inside, offers b, C2(b=0) is ok *)
Example C13_guard_inherited_init :
  klass_top 40 P_inherited_init 2 = 2%N /\ klass_top_inh 40 P_inherited_init 2 = 0%N /\
  option_map names (match resolve_fx all_fixes 40 P_inherited_init 2 with Ok r => Some r | Err _ => None end)
    = Some [[98]%N] /\
  fst (call 40 P_inherited_init 2 [[98]%N]) = COk.
Proof. vm_compute. auto. Qed.

(* ---- resolver_complete: "no reachable parameter is missing" (round 6) ------------------------------
   Spec.call records WHO receives each keyword of the outermost call (`binding`: a declared parameter
   that is not bound positionally, a kwargs.pop / kwargs.get anywhere on the call chain, a parameter
   of a callee reached through **kwargs; names hard-coded at a forwarding call are the callee's own
   business and are filtered out).  Under the same executable hypothesis as soundness, EVERY keyword
   that anything receives in ANY call of the class — whatever the keyword set, whatever the outcome —
   is a name the resolver offers.  Every program, class, fuel; induction on the call-chain fuel. *)
Theorem C13_resolver_complete :
  forall (fuel : nat) (P : prog) (c : nat) (R : list rparam) (kws : list str) (n : str),
    klass_top fuel P c = 0%N ->
    resolve fuel P c = Ok R ->
    In n (map fst (snd (call fuel P c kws))) ->
    In n (names R).
Proof. exact complete_class. Qed.
Print Assumptions C13_resolver_complete.

(* the same for any callable reached on the way, with positional arguments already bound: a parameter
   bound positionally is not counted as reachable by keyword *)
Theorem C13_resolver_complete_frame :
  forall (fuel : nat) (P : prog) (fr : frame) (R : list rparam) (npos : nat) (kws : list str) (n : str),
    klass fuel P fr = 0%N ->
    resolve_frame fuel P fr = Ok R ->
    npos <= npos_cap (fr_fn fr) ->
    In n (map fst (snd (call_frame fuel P fr npos kws))) ->
    In n (names (skipn npos R)).
Proof. exact complete_frame. Qed.
Print Assumptions C13_resolver_complete_frame.

(* the repaired resolver (what /repo runs today), classes that inherit __init__ included *)
Theorem C13_resolver_complete_repaired :
  forall (fuel : nat) (P : prog) (c : nat) (R : list rparam) (kws : list str) (n : str),
    klass_top_inh fuel P c = 0%N ->
    resolve_fx all_fixes fuel P c = Ok R ->
    In n (map fst (snd (call fuel P c kws))) ->
    In n (names R).
Proof. exact complete_class_inh. Qed.
Print Assumptions C13_resolver_complete_repaired.

(* bindings are never vacuous: a keyword that is received is one that was passed (no hypothesis) *)
Theorem C13_bindings_are_passed_keywords :
  forall (fuel : nat) (P : prog) (fr : frame) (npos : nat) (kws : list str) (n : str),
    In n (map fst (snd (call_frame fuel P fr npos kws))) -> In n kws.
Proof. exact bindings_sub. Qed.
Print Assumptions C13_bindings_are_passed_keywords.

(* the statement is not vacuous and it is tight: on the cooperative diamond (inside the guard) the call with
   all offered names succeeds and the names received are exactly the names offered, in that order *)
Example C13_complete_diamond_tight :
  klass_top 40 P_diamond 3 = 0%N /\ match resolve 40 P_diamond 3 with
  | Ok R => fst (call 40 P_diamond 3 (names R)) = COk /\ map fst (snd (call 40 P_diamond 3 (names R))) = names R /\ negb (is_nil R) = true
  | Err _ => False
  end.
Proof. vm_compute. auto. Qed.

(* link to the executable predicate the judge evaluates on the OBSERVED list (Spec.complete_b = "calling with
   all offered names is not `missing`" && complete_names_b): in the guard its second conjunct is a theorem
   about the resolver model, so an observed list that the model reproduces can only fail it by a broken tie *)
Theorem C13_resolver_complete_spec :
  forall (fuel : nat) (P : prog) (c : nat) (R : list rparam),
    klass_top_inh fuel P c = 0%N -> resolve_fx all_fixes fuel P c = Ok R ->
    complete_names_b fuel P c R = true /\ complete_b fuel P c R =
      (negb (outcome_eqb (fst (call fuel P c (names R))) CMissing) && complete_names_b fuel P c R).
Proof.
  exact (fun fuel P c R Hk Hr =>
           conj (complete_names_class_inh fuel P c R Hk Hr) (complete_b_split fuel P c R)).
Qed.
Print Assumptions C13_resolver_complete_spec.

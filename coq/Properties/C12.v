(* C12 — property theorems only. Each is closed by `exact` of a lemma proved in Proofs/C12CliProofs.v.

   auto_cli        : the code-shaped model of jsonargparse.auto_cli (Model/C12Cli.v): the argparse table of
                     _add_signature_parameter, the per-level namespaces of parse_args, the nested Namespace,
                     the dotted-key dispatch loop and _run_component with its pop("config") / pop("subcommand").
   spec            : the reference semantics in the words of the property (Spec/C12CliSpec.v): the selected
                     component is called once, each parameter bound to the LAST value given for it (converted
                     to the declared type) or else to its default; no namespace, no key popping.
   conv / as_pos   : every theorem holds for EVERY conversion function and both values of as_positional.
   auto_cli false  : the code as it is now (after the repairs 5bbebb1, 2f69862 and 4bb4764 in /repo);
   auto_cli true   : the code before them — only in the regression witnesses at the end.
   The guard in_guard is exactly "in neither open finding class" of the correspondence judge (Corr/C12Judge.v,
   C12_guard_is_neither_finding_class); the guards no_reserved_param_names, no_private_optional_without_default,
   no_class_subcommand_param are gone with the repairs.
   Signatures range over three parameter kinds: positional-or-keyword, keyword-only and positional-only (`/`); the
   model's call binding (py_call) is kind-aware: a value that reaches a positional-only parameter by keyword is a
   TypeError, and _run_component passes everything by keyword (open finding positional-only-param). *)
From JV Require Import Lib.Base Lib.C12Syntax Model.C12Cli Spec.C12CliSpec Proofs.C12CliProofs.

(* The core: for all component trees (function, class with methods, list, nested dict), all tokenised
   command lines and all conversions, if no Optional parameter has a str default that YAML reads as null and no parameter
   is positional-only (the two open findings), the code-shaped model and the reference
   semantics agree on EVERY outcome: the same call log and returned value when the component is run,
   rejection of the command line exactly when the spec rejects it, refusal to build exactly when the
   spec refuses, and never an exception escaping from the call (no missing / unexpected keyword). *)
Theorem C12_binds_exactly :
  forall (conv : ty -> raw -> option value) (as_pos : bool) (cs : components) (toks : list tok),
    in_guard cs = true ->
    match auto_cli false conv as_pos cs toks with
    | Ok (log, ret) => spec conv as_pos cs toks = Done log ret
    | Err EParse => spec conv as_pos cs toks = Rejected
    | Err EBuild => spec conv as_pos cs toks = Refused
    | Err ECrash => False
    | Err _ => True      (* EUnmodelled / EFuel: the model declines to answer, nothing is claimed *)
    end.
Proof. exact model_refines_spec. Qed.
Print Assumptions C12_binds_exactly.

(* What a successful call looks like in the reference semantics: each parameter of the callee exactly
   once, in signature order, nothing else; bound to sp_value = the last given value converted to the
   declared type, else the default; every required parameter was given. *)
Theorem C12_each_parameter_once :
  forall (conv : ty -> raw -> option value) (s : sig) (asg : list (str * raw)) (b : list (str * value)),
    sp_finish conv s asg = Some b -> NoDup (names s) ->
    map fst b = names s /\
    (forall p, In p s -> assoc (p_name p) b = sp_value conv asg p) /\
    (forall p, In p s -> sp_required p = true -> exists r, last_asg (p_name p) asg = Some r).
Proof. exact sp_finish_exact. Qed.
Print Assumptions C12_each_parameter_once.

Theorem C12_given_else_default :
  forall (conv : ty -> raw -> option value) (asg : list (str * raw)) (p : param),
    (forall r, sp_offered p = true -> last_asg (p_name p) asg = Some r -> sp_value conv asg p = conv (sp_ty p) r) /\
    (last_asg (p_name p) asg = None -> sp_value conv asg p = sp_default p).
Proof. exact given_else_default. Qed.
Print Assumptions C12_given_else_default.

(* The selected component and only it: in a list / dict of components the first bare word selects one
   entry and the whole call log is that entry's ... *)
Theorem C12_selected_only :
  forall (conv : ty -> raw -> option value) (as_pos top : bool) (kids : list (str * comp)) (toks : list tok)
         (asg : list (str * raw)) (npos : nat) (secs : list (str * doc)) (log : list call) (ret : retv),
    sp_walk conv as_pos top (SGrp kids) asg npos secs toks = Some (log, ret) ->
    exists pre m c lv' asg' secs' rest,
      toks = pre ++ KPos (RStr m) :: rest /\ (forall t, In t pre -> exists d, t = KCfg d) /\
      m <> s__help /\ assoc m kids = Some c /\ slevel_of c = Some lv' /\
      sp_walk conv as_pos false lv' asg' 0 secs' rest = Some (log, ret).
Proof. exact sp_walk_grp. Qed.
Print Assumptions C12_selected_only.

(* ... a function is called exactly once and its return value is returned ... *)
Theorem C12_function_called_once :
  forall (conv : ty -> raw -> option value) (as_pos top : bool) (n : str) (s : sig) (toks : list tok)
         (asg : list (str * raw)) (npos : nat) (secs : list (str * doc)) (log : list call) (ret : retv),
    sp_walk conv as_pos top (SFn n s) asg npos secs toks = Some (log, ret) ->
    exists asg' b, sp_finish conv s asg' = Some b /\ log = [([n], b)] /\ ret = RetCall 0.
Proof. exact sp_walk_fn. Qed.
Print Assumptions C12_function_called_once.

(* ... and for a class handed to auto_cli (model level, through C12_binds_exactly): the constructor is
   called once with exactly the constructor's parameters, then the chosen method once with exactly its
   own, and the method's return value is returned (the instance, for a class without methods). *)
Theorem C12_class_split :
  forall (conv : ty -> raw -> option value) (as_pos : bool) (n : str) (i : sig) (ms : list (str * sig))
         (toks : list tok) (log : list call) (ret : retv),
    in_guard (One (CCls n i ms)) = true ->
    auto_cli false conv as_pos (One (CCls n i ms)) toks = Ok (log, ret) ->
    exists b1, map fst b1 = names i /\
      ((ms = [] /\ log = [([n; s__init__], b1)] /\ ret = RetInstance) \/
       (exists m s b2, assoc m ms = Some s /\ map fst b2 = names s /\
                       log = [([n; s__init__], b1); ([n; m], b2)] /\ ret = RetCall 1)).
Proof. exact class_split. Qed.
Print Assumptions C12_class_split.

(* _add_signature_parameter's table (code-shaped arg_of_param): required iff no default, not Optional and not a
   dataclass group whose fields all have defaults (ty_default);
   positional iff required and as_positional; Optional without default = option defaulting to None (private or not). *)
Theorem C12_required_iff_no_default :
  forall (as_pos : bool) (p : param) (a : arg),
    arg_of_param false as_pos p = Some a ->
    (a_req a = true <-> (p_default p = None /\ is_optional (p_ty p) = false /\ ty_default (p_ty p) = None)) /\
    (a_pos a = true <-> (a_req a = true /\ as_pos = true)).
Proof. exact required_iff_no_default. Qed.
Print Assumptions C12_required_iff_no_default.

Theorem C12_optional_defaults_none :
  forall (as_pos : bool) (p : param),
    p_default p = None -> is_optional (p_ty p) = true ->
    arg_of_param false as_pos p =
    Some {| a_dest := p_name p; a_pos := false; a_ty := p_ty p; a_req := false; a_def := VNone |}.
Proof. exact optional_defaults_none. Qed.
Print Assumptions C12_optional_defaults_none.

(* the guard of C12_binds_exactly / C12_class_split is the conjunction of the two finding classes of the judge *)
Theorem C12_guard_is_neither_finding_class :
  forall cs, in_guard cs = no_nullish_str_default cs && no_positional_only cs.
Proof. exact in_guard_split. Qed.
Print Assumptions C12_guard_is_neither_finding_class.

(* ---- the guards are needed: the present code violates the property there (open findings) ------- *)
(* def run(alpha: Optional[str] = "null"), no arguments: the callee receives None instead of its default "null" *)
Theorem C12_nullish_default_refuted :
  exists cs toks,
    no_nullish_str_default cs = false /\
    auto_cli false conv_simple true cs toks = Ok ([([w_run], [(w_alpha, VNone)])], RetCall 0) /\
    spec conv_simple true cs toks = Done [([w_run], [(w_alpha, VStr w_null)])] (RetCall 0).
Proof. exact nullish_default_refuted. Qed.
Print Assumptions C12_nullish_default_refuted.

(* def run(alpha: int, /), `3`: run( **{alpha: 3} ) -> TypeError escapes auto_cli; the property demands run(3) *)
Theorem C12_positional_only_refuted :
  exists cs toks,
    no_positional_only cs = false /\ no_nullish_str_default cs = true /\
    auto_cli false conv_simple true cs toks = Err ECrash /\
    spec conv_simple true cs toks = Done [([w_run], [(w_alpha, VInt 3)])] (RetCall 0).
Proof. exact positional_only_refuted. Qed.
Print Assumptions C12_positional_only_refuted.

(* a positional-only parameter that is left to its signature default (a private name is not offered) is harmless *)
Example C12_positional_only_default_harmless :
  auto_cli false conv_simple true (One (CFn w_run [w_po w_hid TInt (Some (VInt 4));
                                                        {| p_name := w_alpha; p_kind := KwOnly; p_ty := TInt; p_default := None |}])) [KPos (RInt 3)]
  = Ok ([([w_run], [(w_hid, VInt 4); (w_alpha, VInt 3)])], RetCall 0).
Proof. exact positional_only_default_harmless. Qed.

(* ---- regression witnesses about the code BEFORE the repairs (auto_cli true): the four inputs on which it
        violated the property, and the same inputs on the present model ------------------------------------------ *)
(* def run(subcommand: int = 1), `--subcommand=5`: the callee receives 1, the property demands 5 *)
Theorem C12_reserved_names_refuted :
  exists cs toks,
    no_reserved_param_names cs = false /\
    auto_cli true conv_simple true cs toks = Ok ([([w_run], [(s_subcommand, VInt 1)])], RetCall 0) /\
    spec conv_simple true cs toks = Done [([w_run], [(s_subcommand, VInt 5)])] (RetCall 0).
Proof. exact reserved_subcommand_refuted. Qed.
Print Assumptions C12_reserved_names_refuted.

(* class Tool: __init__(self, alpha: int = 1); train(self, config: int = 3), `train --config=7`: the method receives 3 *)
Theorem C12_reserved_config_refuted :
  exists cs toks,
    no_reserved_param_names cs = false /\
    auto_cli true conv_simple true cs toks =
      Ok ([([w_tool; s__init__], [(w_alpha, VInt 1)]); ([w_tool; w_train], [(s_config, VInt 3)])], RetCall 1) /\
    spec conv_simple true cs toks =
      Done [([w_tool; s__init__], [(w_alpha, VInt 1)]); ([w_tool; w_train], [(s_config, VInt 7)])] (RetCall 1).
Proof. exact reserved_config_refuted. Qed.
Print Assumptions C12_reserved_config_refuted.

(* def run(_hid: Optional[int], sigma: bool), `true`: TypeError (missing '_hid') escapes; the property demands _hid=None *)
Theorem C12_private_optional_refuted :
  exists cs toks,
    no_reserved_param_names cs = true /\ no_private_optional_without_default cs = false /\
    auto_cli true conv_simple true cs toks = Err ECrash /\
    spec conv_simple true cs toks = Done [([w_run], [(w_hid, VNone); (w_sigma, VBool true)])] (RetCall 0).
Proof. exact private_optional_refuted. Qed.
Print Assumptions C12_private_optional_refuted.

(* class Tool: def __init__(self, subcommand: int = 1) (no public methods), `--subcommand=5`: before 4bb4764 _run_component
   popped "subcommand" for every class and took the value for a method name: TypeError escaped *)
Theorem C12_class_subcommand_refuted :
  exists cs toks,
    no_class_subcommand_param cs = false /\
    auto_cli true conv_simple true cs toks = Err ECrash /\
    spec conv_simple true cs toks = Done [([w_tool; s__init__], [(s_subcommand, VInt 5)])] RetInstance.
Proof. exact class_subcommand_refuted. Qed.
Print Assumptions C12_class_subcommand_refuted.

Theorem C12_round1_inputs_repaired :
  auto_cli false conv_simple true (One (CFn w_run [w_p s_subcommand TInt (Some (VInt 1))])) [KOpt s_subcommand (RInt 5)]
    = Ok ([([w_run], [(s_subcommand, VInt 5)])], RetCall 0) /\
  auto_cli false conv_simple true
    (One (CCls w_tool [w_p w_alpha TInt (Some (VInt 1))] [(w_train, [w_p s_config TInt (Some (VInt 3))])]))
    [KPos (RStr w_train); KOpt s_config (RInt 7)]
    = Ok ([([w_tool; s__init__], [(w_alpha, VInt 1)]); ([w_tool; w_train], [(s_config, VInt 7)])], RetCall 1) /\
  auto_cli false conv_simple true (One (CFn w_run [w_p w_hid (TOpt TInt) None; w_p w_sigma TBool None])) [KPos (RBool true)]
    = Ok ([([w_run], [(w_hid, VNone); (w_sigma, VBool true)])], RetCall 0) /\
  auto_cli false conv_simple true (One (CCls w_tool [w_p s_subcommand TInt (Some (VInt 1))] [])) [KOpt s_subcommand (RInt 5)]
    = Ok ([([w_tool; s__init__], [(s_subcommand, VInt 5)])], RetInstance).
Proof. exact round1_inputs_repaired. Qed.
Print Assumptions C12_round1_inputs_repaired.

(* ---- the hypotheses are satisfiable by a non-trivial input: a dict holding a class with a method;
        values from a --config section, positionally, by option (twice, last wins) and by default ---- *)
Example C12_guards_satisfiable :
  in_guard w_ex_comps = true /\
  auto_cli false conv_simple true w_ex_comps w_ex_toks =
    Ok ([([w_tool; s__init__], [(w_alpha, VInt 9); (w_beta, VStr w_sigma)]);
         ([w_tool; w_train], [(w_alpha, VInt 5); (w_sigma, VBool true)])], RetCall 1).
Proof. exact guards_satisfiable. Qed.

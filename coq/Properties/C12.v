(* C12 — property theorems (placeholder while the tie is being developed) *)
From JV Require Import Lib.Base Lib.C12Syntax Model.C12Cli Spec.C12CliSpec.
Example C12_placeholder : True. Proof. exact I. Qed.

(* C15 — a linked argument always equals the function of its sources. Property theorems only: each is closed by
   `exact` of a lemma proved in Proofs/C15*.v and followed by Print Assumptions; Examples show that the hypotheses
   are satisfiable by a non-trivial parser and input (Proofs/C15Witness.v: two sources, a compute function, a
   required target, the environment, a config that supplies a value for the target, an option).

   Vocabulary (Model/C15Links.v): [build ds ls] = the parser after add_argument for the declarations [ds] and the
   link_arguments calls [ls] in order (a call that raises ValueError leaves the parser unchanged); [parse] = defaults
   -> environment -> argv / --cfg / parse_object -> apply_parsing_links -> validate; [finish] = the last two steps from
   ANY configuration [pre] (whatever channel produced it; this is the statement that also covers parsers with
   class-typed arguments, whose collection phase is not modelled); [strip] = strip_link_target_keys (dump / save);
   [holds fn a cfg] = "if all sources of link a are present in cfg then compute_fn succeeds on their FINAL values and
   the target holds exactly the result" (for a target dest.init_args.x: or the class at dest takes no x);
   [fn : nat -> list val -> option val] interprets the compute functions and is universally quantified. *)
From JV Require Import Lib.Base Lib.C15Val Model.C15Links Model.C15Tree
  Proofs.C15Proofs Proofs.C15DumpProofs Proofs.C15ItemsProofs Proofs.C15FixedProofs Proofs.C15Witness Proofs.C15TreeProofs
  Proofs.C15FixedDumpProofs.

(* ---------------------------------------------------------------- 1. the invariant *)
(* Every successful parse of every parser, whatever the input: each link holds in the result. The guard excludes
   only link sets with key-PREFIX overlaps that _initial_input_checks fails to reject (finding
   link-key-prefix-overlap; C15_fixed_link_invariant below has no guard). *)
Theorem C15_link_invariant :
  forall (fn : nat -> list val -> option val) (classes : list cls) (ds : list decl) (ls : list link) (x : input) (cfg : val),
    let p := fst (build ds ls) in
    overlap_free (map al_link (p_links p)) = true ->
    parse fn classes p x = Ok cfg ->
    forall a, In a (p_links p) -> holds fn a cfg.
Proof. exact link_invariant_parse. Qed.
Print Assumptions C15_link_invariant.

(* The same from the entry of apply_parsing_links, for an arbitrary collected configuration: "whatever channel set
   the sources and whatever value was supplied for the target itself". *)
Theorem C15_link_invariant_any_channel :
  forall (fn : nat -> list val -> option val) (classes : list cls) (ds : list decl) (ls : list link) (pre cfg : val),
    let p := fst (build ds ls) in
    overlap_free (map al_link (p_links p)) = true ->
    finish fn classes p pre = Ok cfg ->
    forall a, In a (p_links p) -> holds fn a cfg.
Proof. exact link_invariant_finish. Qed.
Print Assumptions C15_link_invariant_any_channel.

(* Targets that are parameters of the items of a list of classes (cs : List[Base], target cs.init_args.q): when the
   sources are present, compute_fn succeeds and EVERY item of the list at the target's dest either does not take the
   parameter or holds exactly the result (items_ok, Proofs/C15ItemsProofs.v). *)
Theorem C15_link_invariant_list_items :
  forall (fn : nat -> list val -> option val) (classes : list cls) (ds : list decl) (ls : list link) (pre cfg : val),
    let p := fst (build ds ls) in
    overlap_free (map al_link (p_links p)) = true ->
    finish fn classes p pre = Ok cfg ->
    forall a, In a (p_links p) -> holds_items fn a cfg.
Proof. exact link_items_finish. Qed.
Print Assumptions C15_link_invariant_list_items.

Example C15_list_items_hypotheses_satisfiable :
  overlap_free (map al_link (p_links (fst (build li_decls li_links)))) = true /\
  finish wfn li_classes (fst (build li_decls li_links)) (VMap [(sU, VInt 7); (sCS, VList [li_item 2; li_item 5])])
  = Ok (VMap [(sU, VInt 7); (sCS, VList [li_item 7; li_item 7])]).
Proof. split; [exact li_overlap_free|exact li_two_items]. Qed.

Example C15_invariant_hypotheses_satisfiable :
  snd (build ex_decls ex_links) = [0%N] /\
  overlap_free (map al_link (p_links (fst (build ex_decls ex_links)))) = true /\
  parse wfn [] (fst (build ex_decls ex_links)) ex_input = Ok ex_cfg.
Proof. split; [exact ex_accepted|split; [exact ex_overlap_free|exact ex_parse]]. Qed.

(* ---------------------------------------------------------------- 2. no chains *)
(* What _initial_input_checks establishes for the accepted links, in application order: a later target is no
   earlier target and no earlier source, and no later source is an earlier target. *)
Theorem C15_no_chain :
  forall (ds : list decl) (ls : list link), chain_free (map al_link (p_links (fst (build ds ls)))).
Proof. exact no_chain_build. Qed.
Print Assumptions C15_no_chain.

(* Why that matters (the step of the induction behind C15_link_invariant): applying link b changes neither the
   target nor any source of a link a whose keys do not overlap b's target. *)
Theorem C15_links_commute :
  forall (fn : nat -> list val -> option val) (a b : alink) (cfg cfg' : val),
    wf_alink b ->
    (forall s, In s (al_tgt a :: al_src a) -> comparable (al_tgt b) s = false) ->
    apply1 fn cfg b = Ok cfg' ->
    forall s, In s (al_tgt a :: al_src a) -> get cfg' s = get cfg s.
Proof. exact links_commute. Qed.
Print Assumptions C15_links_commute.

Example C15_chain_calls_are_rejected :
  snd (build ex_decls (ex_links ++ [{| l_src := [[sT]]; l_tgt := [sB]; l_fn := None |};
                                    {| l_src := [[sB]]; l_tgt := [sA]; l_fn := None |};
                                    {| l_src := [[sA]]; l_tgt := [sT]; l_fn := None |}])) = [0; 1; 1; 1]%N.
Proof. exact ex_chain_rejected. Qed.

(* ---------------------------------------------------------------- 3. the target is not required *)
Theorem C15_target_not_required :
  forall (ds : list decl) (ls : list link) (a : alink),
    In a (p_links (fst (build ds ls))) -> ~ In (al_tgt a) (p_req (fst (build ds ls))).
Proof. exact target_not_required_build. Qed.
Print Assumptions C15_target_not_required.

Example C15_required_target_becomes_optional :
  p_req (init_parser ex_decls) = [[sT]] /\ p_req (fst (build ex_decls ex_links)) = [].
Proof. split; [exact ex_required_before|exact ex_required_after]. Qed.

(* ---------------------------------------------------------------- 4. the option of a plain target is rejected *)
Theorem C15_target_option_rejected :
  forall (fn : nat -> list val -> option val) (classes : list cls) (ds : list decl) (ls : list link)
         (env : list (key * val)) (argv : list item) (a : alink) (v : val),
    let p := fst (build ds ls) in
    In a (p_links p) -> al_kind a = TgtPlain -> In (Opt (al_tgt a) v) argv ->
    exists e, parse fn classes p (InArgs env argv) = Err e.
Proof. exact target_option_rejected_parse. Qed.
Print Assumptions C15_target_option_rejected.

(* ... through ANY of its option strings (add_argument("--b", "--b_alt") / ("--b", "-B")): ActionLink.__init__ re-points
   every spelling of the replaced target action at the link action. *)
Theorem C15_target_option_rejected_any_spelling :
  forall (fn : nat -> list val -> option val) (classes : list cls) (ds : list decl) (ls : list link)
         (env : list (key * val)) (argv : list item) (a : alink) (v : val),
    let p := fst (build ds ls) in
    In a (p_links p) -> al_kind a = TgtPlain ->
    In (Opt (al_tgt a) v) argv \/ In (OptAlias (al_tgt a) v) argv ->
    exists e, parse fn classes p (InArgs env argv) = Err e.
Proof. exact target_option_rejected_any_spelling. Qed.
Print Assumptions C15_target_option_rejected_any_spelling.

Example C15_target_alias_rejected_as_linked :
  parse wfn [] (fst (build ex_decls ex_links)) (InArgs [] [OptAlias [sA] (VInt 3); OptAlias [sT] (VInt 5)]) = Err ELinked.
Proof. exact ex_alias_rejected. Qed.

Example C15_target_option_rejected_as_linked :
  parse wfn [] (fst (build ex_decls ex_links)) (InArgs [] [Opt [sA] (VInt 3); Opt [sT] (VInt 5)]) = Err ELinked.
Proof. exact ex_option_rejected. Qed.

(* ---------------------------------------------------------------- 5. dumps *)
(* No target key is present in the stripped configuration (any configuration, not only parse results) ... *)
Theorem C15_target_absent_from_dump :
  forall (ds : list decl) (ls : list link) (cfg : val) (a : alink),
    let p := fst (build ds ls) in
    In a (p_links p) -> al_tgt a <> [] -> get (strip p cfg) (al_tgt a) = None.
Proof. exact target_absent_from_dump_build. Qed.
Print Assumptions C15_target_absent_from_dump.

(* ... and every key that overlaps no target (in particular every such source) is dumped unchanged. *)
Theorem C15_dump_changes_only_targets :
  forall (ds : list decl) (ls : list link) (cfg : val) (k : key),
    let p := fst (build ds ls) in
    (forall a, In a (p_links p) -> comparable (al_tgt a) k = false) -> get (strip p cfg) k = get cfg k.
Proof. exact dump_frame_build. Qed.
Print Assumptions C15_dump_changes_only_targets.

(* Re-parsing reconstructs the target: two successful parses of the same parser (e.g. the original input and the
   dump) in which the sources of a link have the same values give the same target value. That the dump -> parse round
   trip preserves the source values themselves is property C01's subject and is exercised by the correspondence. *)
Theorem C15_reparse_restores_target :
  forall (fn : nat -> list val -> option val) (classes : list cls) (ds : list decl) (ls : list link)
         (x x2 : input) (cfg cfg2 : val),
    let p := fst (build ds ls) in
    overlap_free (map al_link (p_links p)) = true ->
    parse fn classes p x = Ok cfg -> parse fn classes p x2 = Ok cfg2 ->
    forall a args, In a (p_links p) ->
      mapM (get cfg) (al_src a) = Some args -> mapM (get cfg2) (al_src a) = Some args ->
      tgt_same a cfg cfg2.
Proof. exact reparse_restores_target_build. Qed.
Print Assumptions C15_reparse_restores_target.

Example C15_dump_and_reparse :
  strip (fst (build ex_decls ex_links)) ex_cfg = VMap [(sA, VInt 5); (sB, VInt 7)] /\
  parse wfn [] (fst (build ex_decls ex_links)) (InArgs [] [Cfg (strip (fst (build ex_decls ex_links)) ex_cfg)]) = Ok ex_cfg.
Proof. split; [exact ex_dump|exact ex_reparse]. Qed.

(* ---------------------------------------------------------------- 6. findings on the unrepaired code *)
(* link-key-prefix-overlap: the guard of C15_link_invariant cannot be dropped for [build]. *)
Theorem C15_link_key_prefix_overlap_refuted :
  exists ds ls x cfg a,
    parse wfn [] (fst (build ds ls)) x = Ok cfg /\ In a (p_links (fst (build ds ls))) /\ ~ holds wfn a cfg.
Proof. exact overlap_refuted. Qed.
Print Assumptions C15_link_key_prefix_overlap_refuted.

(* list-item-target-in-dump: C15_target_absent_from_dump speaks about keys of the configuration; a target that is a
   parameter of the ITEMS of a list of classes survives in every item of the dump. *)
Theorem C15_list_item_target_in_dump_refuted :
  exists classes ds ls pre cfg a dest child items i v,
    finish wfn classes (fst (build ds ls)) pre = Ok cfg /\
    In a (p_links (fst (build ds ls))) /\ al_kind a = TgtInit dest child /\
    get (strip (fst (build ds ls)) cfg) dest = Some (VList items) /\ In i items /\ get i child = Some v.
Proof. exact list_item_refuted. Qed.
Print Assumptions C15_list_item_target_in_dump_refuted.

(* skipped-link-target-stripped: a link whose class-valued source is absent is not applied and the target keeps the
   supplied value — C15_target_absent_from_dump nevertheless removes it, so no re-parse of the dump can reconstruct
   it (guard of this finding class: skipped_target_present, the function the judge uses for class 3). *)
Theorem C15_skipped_link_target_stripped_refuted :
  exists classes ds ls pre cfg a v,
    finish wfn classes (fst (build ds ls)) pre = Ok cfg /\ In a (p_links (fst (build ds ls))) /\
    overlap_free (map al_link (p_links (fst (build ds ls)))) = true /\
    skipped_target_present (p_links (fst (build ds ls))) cfg = true /\
    mapM (get cfg) (al_src a) = None /\ get cfg (al_tgt a) = Some v /\
    get (strip (fst (build ds ls)) cfg) (al_tgt a) = None.
Proof. exact skipped_refuted. Qed.
Print Assumptions C15_skipped_link_target_stripped_refuted.

(* ---------------------------------------------------------------- 7. the repaired link_arguments
   (fixes/C15-link-key-prefix-overlap.patch; Model build_fixed): no guard is left. *)
Theorem C15_fixed_link_invariant :
  forall (fn : nat -> list val -> option val) (classes : list cls) (ds : list decl) (ls : list link) (x : input) (cfg : val),
    let p := fst (build_fixed ds ls) in
    parse fn classes p x = Ok cfg -> forall a, In a (p_links p) -> holds fn a cfg.
Proof. exact fixed_link_invariant_parse. Qed.
Print Assumptions C15_fixed_link_invariant.

Theorem C15_fixed_link_invariant_any_channel :
  forall (fn : nat -> list val -> option val) (classes : list cls) (ds : list decl) (ls : list link) (pre cfg : val),
    let p := fst (build_fixed ds ls) in
    finish fn classes p pre = Ok cfg -> forall a, In a (p_links p) -> holds fn a cfg.
Proof. exact fixed_link_invariant_finish. Qed.
Print Assumptions C15_fixed_link_invariant_any_channel.

Theorem C15_fixed_link_invariant_list_items :
  forall (fn : nat -> list val -> option val) (classes : list cls) (ds : list decl) (ls : list link) (pre cfg : val),
    let p := fst (build_fixed ds ls) in
    finish fn classes p pre = Ok cfg -> forall a, In a (p_links p) -> holds_items fn a cfg.
Proof. exact fixed_link_items_finish. Qed.
Print Assumptions C15_fixed_link_invariant_list_items.

Example C15_fixed_rejects_the_overlap_and_keeps_the_rest :
  snd (build_fixed ov_decls ov_links) = [0; 1]%N /\ build_fixed ex_decls ex_links = build ex_decls ex_links.
Proof. split; [exact ov_fixed_rejects|exact ex_fixed_same]. Qed.

(* The repaired strip_link_target_keys (fixes/C15-list-item-target-in-dump.patch; Model strip_fixed): no item of a
   dumped list of classes carries the target parameter — the statement C15_list_item_target_in_dump_refuted denies
   for the unrepaired [strip]. *)
Theorem C15_fixed_dump_list_items_clean :
  forall (ds : list decl) (ls : list link) (cfg : val) (a : alink) (d c : key),
    let p := fst (build_fixed ds ls) in
    In a (p_links p) -> al_kind a = TgtInit d c ->
    forall items, get (strip_fixed p cfg) d = Some (VList items) -> forall i, In i items -> get i c = None.
Proof. exact fixed_dump_items_clean_build. Qed.
Print Assumptions C15_fixed_dump_list_items_clean.

Example C15_fixed_dump_of_the_finding_input :
  strip_fixed (fst (build li_decls li_links)) li_cfg
  = VMap [(sU, VInt 7); (sCS, VList [VMap [(class_path, VStr sBase); (init_args, VMap [(sP, VInt 1)])]])].
Proof. exact li_fixed_dump. Qed.

(* ---------------------------------------------------------------- 8. one level of subcommands (Model/C15Tree.v)
   A top-level parser p and the parser q of the chosen subcommand n; links declared in p, in q, or in both; parse and
   dump go through the TOP parser. The hypothesis on p's targets says that the top parser declares nothing at or
   below the subcommand's key (argparse would not let it). *)
Theorem C15_tree_link_invariant :
  forall (fn : nat -> list val -> option val) (classes : list cls)
         (ds : list decl) (ls : list link) (ds' : list decl) (ls' : list link) (n : str) (pre cfg : val),
    let p := fst (build ds ls) in
    let q := fst (build ds' ls') in
    overlap_free (map al_link (p_links p)) = true -> overlap_free (map al_link (p_links q)) = true ->
    (forall a, In a (p_links p) -> comparable (al_tgt a) [n] = false) ->
    finish_tree fn classes p q n pre = Ok cfg ->
    (forall a, In a (p_links p) -> holds fn a cfg) /\
    (forall subpre, get pre [n] = Some subpre ->
       exists s, get cfg [n] = Some s /\ forall a, In a (p_links q) -> holds fn a s).
Proof. exact tree_link_invariant. Qed.
Print Assumptions C15_tree_link_invariant.

(* The dump of the TOP parser holds no target of its own links and no target of the subcommand parser's links —
   whether or not the top parser has any link of its own (any configuration). *)
Theorem C15_tree_targets_absent_from_dump :
  forall (ds : list decl) (ls : list link) (ds' : list decl) (ls' : list link) (n : str) (cfg : val),
    let p := fst (build ds ls) in
    let q := fst (build ds' ls') in
    (forall a, In a (p_links p) -> al_tgt a <> [] ->
       comparable (al_tgt a) [n] = false -> get (strip_tree strip p q n cfg) (al_tgt a) = None) /\
    (forall a, In a (p_links q) -> al_tgt a <> [] -> get (strip_tree strip p q n cfg) (n :: al_tgt a) = None).
Proof. exact tree_targets_absent_from_dump. Qed.
Print Assumptions C15_tree_targets_absent_from_dump.

Example C15_tree_links_only_in_subcommand :
  p_links (fst (build tr_top [])) = [] /\
  finish_tree wfn [] (fst (build tr_top [])) (fst (build ex_decls ex_links)) sFit tr_pre = Ok tr_cfg /\
  strip_tree strip (fst (build tr_top [])) (fst (build ex_decls ex_links)) sFit tr_cfg
  = VMap [(sS, VInt 3); (sFit, VMap [(sA, VInt 5); (sB, VInt 7)])].
Proof. split; [exact tr_no_top_links|split; [exact tr_finish|exact tr_dump]]. Qed.

(* subcommand-env-defaults-stale-target: re-loading the dump of a parser tree through the top parser (default_env)
   is rejected although the first parse succeeded, when the subcommand's DEFAULT sources pushed through its links
   give a target a value of the wrong type (guard of this finding class: stale_default_target, the function the judge
   uses for class 4; reload_sub: Model/C15Tree.v). *)
Theorem C15_subcommand_stale_target_refuted :
  exists ds ls ds' ls' n pre cfg sub,
    let p := fst (build ds ls) in
    let q := fst (build ds' ls') in
    finish_tree wfn [] p q n pre = Ok cfg /\
    overlap_free (map al_link (p_links q)) = true /\
    get (strip_tree strip p q n cfg) [n] = Some sub /\
    stale_default_target wfn [] q = true /\
    reload_sub wfn false q sub = Err EOther.
Proof. exact stale_refuted. Qed.
Print Assumptions C15_subcommand_stale_target_refuted.

Example C15_subcommand_stale_target_repaired :
  reload_sub wfn true (fst (build st_decls st_links)) (VMap [(sY, VInt 9)]) = Ok (VMap [(sY, VInt 9)]) /\
  apply_links wfn (VMap [(sY, VInt 9)]) (p_links (fst (build st_decls st_links))) = Ok (VMap [(sY, VInt 9); (sA, VInt 9)]).
Proof. exact st_fixed_reload. Qed.

(* ---------------------------------------------------------------- 10. the dump statements for the REPAIRED code
   Both repairs are in /repo (known_findings/C15.txt: fixed), so the judge ties the implementation to
   [build_fixed] / [strip_fixed] (Corr/C15Judge.v, c_fixed). Sections 5 and 8 speak about [build] / [strip]; these are
   the same statements for the pair the current code is tied to: no target key of any accepted link in the dump,
   every key that overlaps no target dumped unchanged (in particular such sources: what the re-parse computes the
   target from), and the same through the TOP parser of a tree, including the items of a list of classes under the
   subcommand's key. Any configuration, any declarations and link_arguments calls. *)
Theorem C15_fixed_target_absent_from_dump :
  forall (ds : list decl) (ls : list link) (cfg : val) (a : alink),
    let p := fst (build_fixed ds ls) in
    In a (p_links p) -> al_tgt a <> [] -> get (strip_fixed p cfg) (al_tgt a) = None.
Proof. exact fixed_target_absent_from_dump. Qed.
Print Assumptions C15_fixed_target_absent_from_dump.

Theorem C15_fixed_dump_changes_only_targets :
  forall (ds : list decl) (ls : list link) (cfg : val) (k : key),
    let p := fst (build_fixed ds ls) in
    (forall a, In a (p_links p) -> comparable (al_tgt a) k = false) -> get (strip_fixed p cfg) k = get cfg k.
Proof. exact fixed_dump_frame. Qed.
Print Assumptions C15_fixed_dump_changes_only_targets.

Theorem C15_fixed_tree_targets_absent_from_dump :
  forall (ds : list decl) (ls : list link) (ds' : list decl) (ls' : list link) (n : str) (cfg : val),
    let p := fst (build_fixed ds ls) in
    let q := fst (build_fixed ds' ls') in
    (forall a, In a (p_links p) -> al_tgt a <> [] ->
       comparable (al_tgt a) [n] = false -> get (strip_tree strip_fixed p q n cfg) (al_tgt a) = None) /\
    (forall a, In a (p_links q) -> al_tgt a <> [] -> get (strip_tree strip_fixed p q n cfg) (n :: al_tgt a) = None) /\
    (forall a d c, In a (p_links q) -> al_kind a = TgtInit d c ->
       forall items, get (strip_tree strip_fixed p q n cfg) (n :: d) = Some (VList items) ->
       forall i, In i items -> get i c = None).
Proof. exact fixed_tree_targets_absent_from_dump. Qed.
Print Assumptions C15_fixed_tree_targets_absent_from_dump.

Example C15_fixed_dump_hypotheses_satisfiable :
  let p := fst (build_fixed ex_decls ex_links) in
  exists a, In a (p_links p) /\ al_tgt a = [sT] /\ get ex_cfg (al_tgt a) = Some (VInt 12) /\
            (forall b, In b (p_links p) -> comparable (al_tgt b) [sA] = false) /\
            strip_fixed p ex_cfg = VMap [(sA, VInt 5); (sB, VInt 7)].
Proof. exact fx_dump_hyps. Qed.

Example C15_fixed_tree_dump_links_only_in_subcommand :
  strip_tree strip_fixed (fst (build_fixed tr_top [])) (fst (build_fixed ex_decls ex_links)) sFit tr_cfg
  = VMap [(sS, VInt 3); (sFit, VMap [(sA, VInt 5); (sB, VInt 7)])].
Proof. exact fx_tree_dump. Qed.

(* the invariant for a parser tree built by the repaired link_arguments: no overlap guard (cf. C15_tree_link_invariant) *)
Theorem C15_fixed_tree_link_invariant :
  forall (fn : nat -> list val -> option val) (classes : list cls)
         (ds : list decl) (ls : list link) (ds' : list decl) (ls' : list link) (n : str) (pre cfg : val),
    let p := fst (build_fixed ds ls) in
    let q := fst (build_fixed ds' ls') in
    (forall a, In a (p_links p) -> comparable (al_tgt a) [n] = false) ->
    finish_tree fn classes p q n pre = Ok cfg ->
    (forall a, In a (p_links p) -> holds fn a cfg) /\
    (forall subpre, get pre [n] = Some subpre ->
       exists s, get cfg [n] = Some s /\ forall a, In a (p_links q) -> holds fn a s).
Proof. exact fixed_tree_link_invariant. Qed.
Print Assumptions C15_fixed_tree_link_invariant.

Example C15_fixed_tree_hypotheses_satisfiable :
  p_links (fst (build_fixed tr_top [])) = [] /\
  finish_tree wfn [] (fst (build_fixed tr_top [])) (fst (build_fixed ex_decls ex_links)) sFit tr_pre = Ok tr_cfg.
Proof. exact fx_tree_finish. Qed.

From JV Require Import Lib.Base Lib.C15Val Model.C15Links Proofs.C15Proofs.

Theorem C15_placeholder : forall k v m, alookup k (aset k v m) = Some v.
Proof. exact alookup_aset_same. Qed.
Print Assumptions C15_placeholder.

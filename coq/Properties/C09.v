(* C09 — property theorems (placeholder while the correspondence is being tuned) *)
From JV Require Import Lib.Base Model.C09ParserState.
Example C09_placeholder : is_int [49%N] = true.
Proof. reflexivity. Qed.

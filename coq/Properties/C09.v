(* C09 — a parser's answers do not depend on what it was asked before.  Property theorems only.

   Model.C09ParserState: the parsers of one process as a state machine over the state the real objects carry
   between calls (pending --print_config request, stored argv, the lazily added --print_shtab action and the
   sub_add_kwargs["default"] of a dataclass-typed option per root parser; the context variables parse_kwargs / subclass_arg_parser / dump_kwargs and the class-level dict of the
   class help action per process).  step fx Ds s o = (state after, answer) of call o (on parser op_p o) in state s,
   for declarations Ds; init n = n freshly built parsers in a fresh process; run = fold of step over a history.
   fx : fixes says which of the four repairs the tree contains (pinned = none; three of them have landed in /repo).

   FULL STATEMENT (DESIGN 5.9)            history_independent fx :=
       forall Ds n ops o, snd (step fx Ds (run fx Ds (init n) ops) o) = snd (step fx Ds (init n) o)
   It is FALSE of the pinned tree in exactly four ways (C09_*_refuted, each replayed on the implementation by the
   correspondence run and listed in known_findings/C09.txt) and TRUE of the repaired tree
   (C09_repaired_history_independent). *)
From JV Require Import Lib.Base Model.C09ParserState Proofs.C09Proofs.

(* history_independent is defined in Proofs.C09Proofs exactly as displayed above *)

(* ---------- what holds of every variant, the pinned tree included ---------- *)

(* The answer of a call is the answer of the same call on a fresh parser in a fresh process whenever the call is
   inside the guard — and this for ANY state s, reachable or not, of any number of parsers: the answer does not
   read the context variables (parse_kwargs, subclass_arg_parser, dump_kwargs are written and never reset, but
   never read before the same call has written them), nor the stored argv, nor the state of any other parser.
   The guard (the same function the judge evaluates, v_class) excludes only:
     1  a --print_config request is pending on the parser called,
     2  the call names the key print_shtab and the parser called has acquired the --print_shtab action,
     3  the call asks for a class help and the class-level `skip` entry has been written,
     4  the call gives (part of) a value for the dataclass option d and the action of d holds a stored default. *)
Theorem C09_guarded_answer_is_fresh_answer :
  forall fx Ds n s o, in_guard fx s o = true -> snd (step fx Ds s o) = snd (step fx Ds (init n) o).
Proof. exact guarded_state_independent. Qed.
Print Assumptions C09_guarded_answer_is_fresh_answer.

(* the statement over histories: all histories of any length over any declarations, failing, help-printing and
   config-printing calls included *)
Theorem C09_history_independent_guarded :
  forall fx Ds n ops o,
    in_guard fx (run fx Ds (init n) ops) o = true ->
    snd (step fx Ds (run fx Ds (init n) ops) o) = snd (step fx Ds (init n) o).
Proof. exact guarded_history_independent. Qed.
Print Assumptions C09_history_independent_guarded.

(* a call on one parser never changes what another parser carries itself (request, argv, --print_shtab): classes
   1 and 2 can only be caused by earlier calls on the SAME parser; only class 3 crosses parsers *)
Theorem C09_other_parser_untouched :
  forall fx Ds s o i, op_p o <> i -> get_ps (fst (step fx Ds s o)) i = get_ps s i.
Proof. exact other_parser_untouched. Qed.
Print Assumptions C09_other_parser_untouched.

(* after any history, a finding class can only be met on a tree that lacks the corresponding repair:
   with fx_pc no request is pending after any call (invariant over histories), with fx_sh the acquired action is
   not read, with fx_hs the class-level dict is not read *)
Theorem C09_class_needs_missing_repair :
  forall fx Ds n ops o,
    match guard_class fx (run fx Ds (init n) ops) o with
    | 1%N => fx_pc fx = false
    | 2%N => fx_sh fx = false
    | 3%N => fx_hs fx = false
    | 4%N => fx_dd fx = false
    | _ => True
    end.
Proof. exact class_needs_missing_repair. Qed.
Print Assumptions C09_class_needs_missing_repair.

(* ---------- the repaired tree: the FULL statement, no guard ---------- *)
Theorem C09_repaired_history_independent :
  forall fx, fx_pc fx = true -> fx_sh fx = true -> fx_hs fx = true -> fx_dd fx = true -> history_independent fx.
Proof. exact repaired_is_history_independent. Qed.
Print Assumptions C09_repaired_history_independent.

(* state invariants of the single repairs *)
Theorem C09_repair_pc_nothing_pending :
  forall fx Ds ops s, fx_pc fx = true -> no_pending s -> no_pending (run fx Ds s ops).
Proof. exact run_no_pending. Qed.
Print Assumptions C09_repair_pc_nothing_pending.

Theorem C09_repair_dd_nothing_stored :
  forall fx Ds ops s, fx_dd fx = true -> no_ddef s -> no_ddef (run fx Ds s ops).
Proof. exact run_no_ddef. Qed.
Print Assumptions C09_repair_dd_nothing_stored.

Theorem C09_repair_hs_class_dict_never_written :
  forall fx Ds ops s, fx_hs fx = true -> st_help_skip (run fx Ds s ops) = st_help_skip s.
Proof. exact run_help_skip_kept. Qed.
Print Assumptions C09_repair_hs_class_dict_never_written.

(* ---------- the pinned tree: the full statement is false, three witnesses ---------- *)
Definition s_k : str := [107]%N.
Definition s_s : str := [115]%N.
Definition s_bad : str := [98;97;100]%N.
Definition s_2 : str := [50]%N.
Definition s_3 : str := [51]%N.
Definition s_cb : str := [99;98]%N.
Definition s_model : str := [109;111;100;101;108]%N.
Definition s_cb_help : str := [99;98;46;104;101;108;112]%N.
Definition s_model_help : str := [109;111;100;101;108;46;104;101;108;112]%N.
Definition s_fit : str := [102;105;116]%N.
Definition s_lr : str := [108;114]%N.

Definition pd_plain (cls : list copt) : pdecl :=
  {| pd_cfg := true; pd_opts := [(s_k, KInt); (s_s, KStr)]; pd_req := []; pd_cls := cls; pd_dc := false |}.
Definition d_dc : decl :=
  {| d_root := {| pd_cfg := true; pd_opts := [(s_k, KInt); (s_s, KStr)]; pd_req := []; pd_cls := []; pd_dc := true |};
     d_subreq := false; d_subs := [] |}.
Definition s_da : str := [100;46;97]%N.
Definition s_db : str := [100;46;98]%N.
Definition d_plain : decl := {| d_root := pd_plain []; d_subreq := false; d_subs := [] |}.
Definition d_cb : decl :=
  {| d_root := pd_plain [{| co_name := s_cb; co_base := s_Base; co_callable := true; co_default := None |}]; d_subreq := false; d_subs := [] |}.
Definition d_model : decl :=
  {| d_root := pd_plain [{| co_name := s_model; co_base := s_Base; co_callable := false; co_default := None |}]; d_subreq := false; d_subs := [] |}.
Definition d_sub : decl :=
  {| d_root := pd_plain []; d_subreq := false;
     d_subs := [(s_fit, {| pd_cfg := true; pd_opts := [(s_lr, KInt)]; pd_req := []; pd_cls := []; pd_dc := false |})] |}.
Definition call (p : nat) (k : opk) : op := {| op_p := p; op_k := k |}.

(* 1  p.parse_args(['--print_config','--k=bad']) fails and leaves the request; p.parse_args([]) then prints the
      configuration and exits 0 where a fresh parser returns the namespace            (key print-config-pending) *)
Theorem C09_print_config_pending_refuted :
  exists Ds n ops o,
    snd (step pinned Ds (run pinned Ds (init n) ops) o) <> snd (step pinned Ds (init n) o) /\
    guard_class pinned (run pinned Ds (init n) ops) o = 1%N /\
    snd (step pinned Ds (run pinned Ds (init n) ops) o) = OPrint None no_flags false None /\
    snd (step pinned Ds (init n) o) = OOk false None None.
Proof.
  exists [d_plain; d_plain], 2%nat, [call 0 (PArgs [TFlag s_print_config; TOpt s_k s_bad])], (call 0 (PArgs [])).
  vm_compute. repeat split; discriminate.
Qed.
Print Assumptions C09_print_config_pending_refuted.

(* 1' the request can also be left half-consumed for good: a request made inside sub-command fit, left behind by a
      failure, is consumed by a later call that selects no fit section (KeyError after both pops): from then on
      EVERY parse on that parser fails                                                (key print-config-pending) *)
Theorem C09_print_config_broken_refuted :
  exists Ds n ops o,
    guard_class pinned (run pinned Ds (init n) ops) o = 1%N /\
    snd (step pinned Ds (run pinned Ds (init n) ops) o) = OErr EBroken /\
    snd (step pinned Ds (init n) o) = OOk false None None.
Proof.
  exists [d_sub], 1%nat,
         [call 0 (PArgs [TPos s_fit; TFlag s_print_config; TOpt s_lr s_bad]); call 0 (PArgs [])],
         (call 0 (PObject [(s_k, s_2)])).
  vm_compute. repeat split.
Qed.
Print Assumptions C09_print_config_broken_refuted.

(* 2  p.parse_args(['--k=2']) adds --print_shtab; p.parse_object({'k':3,'print_shtab':'bash'}) is then accepted
      where a fresh parser rejects the key                                            (key lazy-print-shtab-key) *)
Theorem C09_lazy_print_shtab_key_refuted :
  exists Ds n ops o,
    snd (step pinned Ds (run pinned Ds (init n) ops) o) <> snd (step pinned Ds (init n) o) /\
    guard_class pinned (run pinned Ds (init n) ops) o = 2%N /\
    snd (step pinned Ds (run pinned Ds (init n) ops) o) = OOk true None None /\
    snd (step pinned Ds (init n) o) = OErr (EUnknown s_print_shtab).
Proof.
  exists [d_plain; d_plain], 2%nat, [call 0 (PArgs [TOpt s_k s_2])],
         (call 0 (PObject [(s_k, s_3); (s_print_shtab, s_bash)])).
  vm_compute. repeat split; discriminate.
Qed.
Print Assumptions C09_lazy_print_shtab_key_refuted.

(* 3  p0.parse_args(['--cb.help=SubA']) (cb : Callable[[int], Base]) writes `skip` into the class-level dict;
      p1.parse_args(['--model.help=SubA']) on ANOTHER parser then shows the help of SubA without its first
      parameter                                                                     (key class-help-skip-shared) *)
Theorem C09_class_help_skip_shared_refuted :
  exists Ds n ops o,
    snd (step pinned Ds (run pinned Ds (init n) ops) o) <> snd (step pinned Ds (init n) o) /\
    guard_class pinned (run pinned Ds (init n) ops) o = 3%N /\
    snd (step pinned Ds (run pinned Ds (init n) ops) o) = OHelpCls true /\
    snd (step pinned Ds (init n) o) = OHelpCls false.
Proof.
  exists [d_cb; d_model], 2%nat, [call 0 (PArgs [TOpt s_cb_help s_SubA])], (call 1 (PArgs [TOpt s_model_help s_SubA])).
  vm_compute. repeat split; discriminate.
Qed.
Print Assumptions C09_class_help_skip_shared_refuted.

(* 4  p.parse_args(['--d.a=3']) on a parser whose option d : Optional[Data] comes from a signature leaves
      Namespace(a=3, b=0) in the action's sub_add_kwargs["default"]; p.parse_args(['--d.b=2']) then returns
      d = (a=3, b=2) where a fresh parser returns (a=0, b=2)                      (key dataclass-default-carried) *)
Theorem C09_dataclass_default_carried_refuted :
  exists Ds n ops o,
    snd (step pinned Ds (run pinned Ds (init n) ops) o) <> snd (step pinned Ds (init n) o) /\
    guard_class pinned (run pinned Ds (init n) ops) o = 4%N /\
    snd (step pinned Ds (run pinned Ds (init n) ops) o) = OOk false (Some (s_3, s_2)) None /\
    snd (step pinned Ds (init n) o) = OOk false (Some (s_0, s_2)) None.
Proof.
  exists [d_dc; d_plain], 2%nat, [call 0 (PArgs [TOpt s_da s_3])], (call 0 (PArgs [TOpt s_db s_2])).
  vm_compute. repeat split; discriminate.
Qed.
Print Assumptions C09_dataclass_default_carried_refuted.

(* 4' also a FAILING call leaves it (the second field is set on the object stored by then), and validate(cfg)
      stores the d of its argument *)
Theorem C09_dataclass_default_after_failure_refuted :
  exists Ds n ops o,
    guard_class pinned (run pinned Ds (init n) ops) o = 4%N /\
    snd (step pinned Ds (run pinned Ds (init n) ops) o) = OOk false (Some (s_3, s_2)) None /\
    snd (step pinned Ds (init n) o) = OOk false (Some (s_3, s_0)) None.
Proof.
  exists [d_dc], 1%nat, [call 0 (PArgs [TOpt s_da s_2; TOpt s_db s_2; TOpt s_k s_bad])], (call 0 (PObject [(s_d, [51;44]%N)])).
  vm_compute. repeat split.
Qed.
Print Assumptions C09_dataclass_default_after_failure_refuted.

Theorem C09_full_statement_refuted_on_pinned_tree : ~ history_independent pinned.
Proof.
  intro H.
  specialize (H [d_plain; d_plain] 2%nat [call 0 (PArgs [TFlag s_print_config; TOpt s_k s_bad])] (call 0 (PArgs []))).
  vm_compute in H. discriminate.
Qed.
Print Assumptions C09_full_statement_refuted_on_pinned_tree.

(* ---------- the hypotheses are satisfiable by non-trivial inputs ---------- *)
(* a history on the pinned tree with a config-printing call, a failing call, a help-printing call, a failing call
   that leaves a request on the OTHER parser, and a dump: the next call on parser 0 is inside the guard although
   the carried state is far from fresh (context variables set, argv stored, --print_shtab acquired, a request
   pending on parser 1), and its answer is the fresh answer *)
Definition h_example : list op :=
  [ call 0 (PArgs [TOpt s_k s_2; TFlag s_print_config]);
    call 0 (PArgs [TOpt s_k s_bad]);
    call 0 (PArgs [TFlag s_help]);
    call 1 (PArgs [TFlag s_print_config; TOpt s_k s_bad]);
    call 0 (Dump None false true false false) ].
Example C09_guard_satisfiable :
  let s := run pinned [d_sub; d_plain] (init 2) h_example in
  let o := call 0 (PArgs [TPos s_fit; TOpt s_lr s_3]) in
  in_guard pinned s o = true /\
  s <> init 2 /\ ps_shtab (get_ps s 0) = true /\ ps_pending (get_ps s 1) = PFull None no_flags /\
  st_dk s = Some (false, true) /\
  snd (step pinned [d_sub; d_plain] s o) = OOk false None (Some (None, true)) /\
  map (fun p => snd (step pinned [d_sub; d_plain] (run pinned [d_sub; d_plain] (init 2) (firstn p h_example))
                       (nth p h_example o)))
      [0; 1; 2; 3; 4]%nat
  = [OPrint None no_flags false None; OErr EPre; OHelp []; OErr EPre; OOk false None None].
Proof. vm_compute. repeat split. discriminate. Qed.
Print Assumptions C09_guard_satisfiable.

(* the premises of the repaired theorem are met by `repaired`, and there the three witnesses answer like fresh *)
Example C09_repaired_example :
  fx_pc repaired = true /\ fx_sh repaired = true /\ fx_hs repaired = true /\ fx_dd repaired = true /\
  snd (step repaired [d_dc] (run repaired [d_dc] (init 1) [call 0 (PArgs [TOpt s_da s_3])])
         (call 0 (PArgs [TOpt s_db s_2]))) = OOk false (Some (s_0, s_2)) None /\
  snd (step repaired [d_plain] (run repaired [d_plain] (init 1) [call 0 (PArgs [TFlag s_print_config; TOpt s_k s_bad])])
         (call 0 (PArgs []))) = OOk false None None /\
  snd (step repaired [d_plain] (run repaired [d_plain] (init 1) [call 0 (PArgs [TOpt s_k s_2])])
         (call 0 (PObject [(s_k, s_3); (s_print_shtab, s_bash)]))) = OErr (EUnknown s_print_shtab) /\
  snd (step repaired [d_cb; d_model] (run repaired [d_cb; d_model] (init 2) [call 0 (PArgs [TOpt s_cb_help s_SubA])])
         (call 1 (PArgs [TOpt s_model_help s_SubA]))) = OHelpCls false.
Proof. vm_compute. repeat split. Qed.
Print Assumptions C09_repaired_example.

(* ---------- round 6: the keywords of parse_args (env=, defaults=) and the parse_kwargs context variable ---------- *)

(* parse_args(argv, env=e, defaults=d) stores (e, d) in the context variable parse_kwargs, which is never reset; the
   sub-command action READS that variable to call the sub-command parser (_actions.py:680).  The answer of the model
   shows the keywords read (third component of OOk): whatever state is carried in — in particular whatever keywords an
   earlier parse_args of this or another parser left in the variable — a sub-command is parsed with the keywords of
   the call that names it, or with (None, true): the keywords of the parse_args of a throw-away class parser that
   the SAME command line went through before the sub-command token (a field --d.<x> of the dataclass option; an
   intra-call effect, identical on a fresh parser).  Never with what an earlier call stored.  (The guarded and the
   repaired theorems above quantify over PArgsKw as well, and the answers they compare now include these keywords.) *)
Theorem C09_subcommand_keywords_are_this_calls :
  forall fx Ds s p env dflt argv a b x,
    snd (step fx Ds s {| op_p := p; op_k := PArgsKw env dflt argv |}) = OOk a b (Some x) ->
    x = (env, dflt) \/ x = (None, true).
Proof. exact subcommand_keywords_are_this_calls. Qed.
Print Assumptions C09_subcommand_keywords_are_this_calls.

Theorem C09_subcommand_keywords_default :
  forall fx Ds s p argv a b x,
    snd (step fx Ds s {| op_p := p; op_k := PArgs argv |}) = OOk a b (Some x) -> x = (None, true).
Proof. exact subcommand_keywords_default. Qed.
Print Assumptions C09_subcommand_keywords_default.

(* the premise is met: after parse_args(defaults=False) on parser 1 and a plain parse_args on parser 0 the variable
   holds (None, true); a call with env=True, defaults=False that names a sub-command is answered with ITS keywords,
   the same answer as on fresh parsers; and a class help without a value answers with the help of the base type *)
Example C09_keywords_example :
  let Ds := [d_sub; d_model] in
  let s := run repaired Ds (init 2) [call 1 (PArgsKw None false [TOpt s_k s_2]); call 0 (PArgs [TPos s_fit])] in
  let o := call 0 (PArgsKw (Some true) false [TPos s_fit; TOpt s_lr s_3]) in
  st_pk s = Some (None, true) /\
  snd (step repaired Ds s o) = OOk false None (Some (Some true, false)) /\
  snd (step repaired Ds (init 2) o) = OOk false None (Some (Some true, false)) /\
  st_pk (fst (step repaired Ds s o)) = Some (Some true, false) /\
  snd (step repaired Ds s (call 1 (PArgs [TFlag s_model_help]))) = OHelpCls false /\
  snd (step repaired Ds s (call 1 (PArgs [TFlag s_model_help; TOpt s_k s_2]))) = OHelpCls false.
Proof. vm_compute. repeat split. Qed.
Print Assumptions C09_keywords_example.

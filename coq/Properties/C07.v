(* C07 — property theorems (work in progress) *)
From JV Require Import Lib.Base Model.C07Decl Model.C07Parse.

Theorem C07_dataclass_is_class_group : forall gk fs, as_dataclass (dashes ++ gk) fs = as_class_group (lstrip_dash (dashes ++ gk)) fs.
Proof. reflexivity. Qed.
Print Assumptions C07_dataclass_is_class_group.

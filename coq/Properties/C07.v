(* C07 — property theorems only. Each is closed by `exact` of a lemma proved in Proofs/C07*.v.

   Vocabulary (Model/C07Decl.v, Model/C07Parse.v):
     as_dotted / as_dataclass / as_class_group / as_inner_parser : the four declaration styles as compilers from
        a group key and a field list (name, type, default | none) to the parser's action table;
     norm fs : the field list as the documented signature rules read it (Optional without default -> default
        None; default None -> Optional[T]; non-required names starting with "_" are not offered) — the two
        add_argument styles are declared from norm fs, so that the four declarations describe the same options;
     run pv jl T inp : what a parser with table T answers for the input inp (environment + argv / object /
        config string): rejection, exit, or the parsed namespace together with the dumped content; pv and jl are
        the external loaders (parse_value_or_config, json_or_yaml_load): EVERY statement holds for ANY loaders;
     finding_class : 0 inside the guard; 1-4 the input addresses the group key itself (argv option / environment
        variable / string-or-null in a config / another non-mapping in a config), 5 hyphenated key with a
        required option, 6 declaration outside
        the statement (key with a dot or a leading '-', or nothing left by the signature rules). *)
From JV Require Import Lib.Base Model.C07Decl Model.C07Parse
  Proofs.C07TableProofs Proofs.C07ParseProofs Proofs.C07MemberProofs Proofs.C07Proofs Proofs.C07NestedProofs.

(* The core: for EVERY group key, EVERY field list (any length), ANY loaders and EVERY input mix inside the guard,
   the four styles give the same accept/reject/exit decision, the same nested values and the same dumped
   content. *)
Theorem C07_four_styles_agree :
  forall (pv jl : str -> val) (gk : str) (fs : list field) (inp : input),
    finding_class pv gk fs inp = 0%N ->
    let r := run pv jl (as_dotted gk (norm fs)) inp in
    run pv jl (as_dataclass (dashes ++ gk) fs) inp = r
    /\ run pv jl (as_class_group gk fs) inp = r
    /\ run pv jl (as_inner_parser (dashes ++ gk) (norm fs)) inp = r.
Proof. exact four_styles_agree. Qed.
Print Assumptions C07_four_styles_agree.

(* The three grouped styles build ONE AND THE SAME table, hence agree on ALL inputs — whole-group JSON on the
   command line, the group's environment variable and config strings for the group key included. *)
Theorem C07_grouped_tables_equal :
  forall (gk : str) (fs : list field),
    starts_dash gk = false -> norm fs <> [] -> hyphen_safe gk (norm fs) = true ->
    as_dataclass (dashes ++ gk) fs = as_class_group gk fs
    /\ as_inner_parser (dashes ++ gk) (norm fs) = as_class_group gk fs.
Proof. exact grouped_tables_equal. Qed.
Print Assumptions C07_grouped_tables_equal.

Theorem C07_grouped_styles_agree_on_all_inputs :
  forall (pv jl : str -> val) (gk : str) (fs : list field) (inp : input),
    well_formed gk fs = true -> hyphen_safe gk (norm fs) = true ->
    run pv jl (as_dataclass (dashes ++ gk) fs) inp = run pv jl (as_class_group gk fs) inp
    /\ run pv jl (as_inner_parser (dashes ++ gk) (norm fs)) inp = run pv jl (as_class_group gk fs) inp.
Proof. exact grouped_styles_agree. Qed.
Print Assumptions C07_grouped_styles_agree_on_all_inputs.

(* Table equivalence => same parse (DESIGN 5.7): ANY table of leaf actions below the key and the same table with
   the group's _ActionConfigLoad row in front answer every guarded input identically. *)
Theorem C07_equiv_tables_same_parse :
  forall (pv jl : str -> val) (gk : str) (T : table) (inp : input),
    leaf_table gk T -> has_dot gk = false ->
    argv_names_group gk inp = false -> env_names_group gk inp = false -> config_group_nonmap pv gk inp = false ->
    run pv jl (with_load gk T) inp = run pv jl T inp.
Proof. exact equiv_tables_same_parse. Qed.
Print Assumptions C07_equiv_tables_same_parse.

(* The class-group style is the dotted style on the normal form plus the load row; the signature styles see a
   field list only through its normal form, which the rules leave alone (for lists without private names: a
   private Optional parameter without default is kept by the rules — "it can't be left out of the call" — but
   would be dropped once it carries the default None). *)
Theorem C07_class_group_table :
  forall (gk : str) (fs : list field),
    norm fs <> [] -> as_class_group gk fs = with_load gk (as_dotted gk (norm fs)).
Proof. exact class_group_table. Qed.
Print Assumptions C07_class_group_table.

Theorem C07_signature_rules_normal_form :
  forall (gk : str) (fs : list field),
    public fs = true -> norm fs <> [] ->
    as_class_group gk fs = as_class_group gk (norm fs) /\ explicit (norm fs) = true.
Proof. exact class_group_through_norm. Qed.
Print Assumptions C07_signature_rules_normal_form.

Theorem C07_norm_idempotent : forall fs, public fs = true -> norm (norm fs) = norm fs.
Proof. exact norm_idem. Qed.
Print Assumptions C07_norm_idempotent.

Theorem C07_explicit_fields_untouched : forall fs, explicit fs = true -> norm fs = fs.
Proof. exact explicit_norm. Qed.
Print Assumptions C07_explicit_fields_untouched.

(* ---- the hypotheses are satisfiable by non-trivial inputs ---- *)
Example C07_guard_satisfiable :
  finding_class w_pv w_g w_fields w_in_plain = 0%N
  /\ group_value (run w_pv w_jl (as_dotted w_g (norm w_fields)) w_in_plain) w_g w_a = Some (VInt 2).
Proof. exact guard_example. Qed.

Example C07_guard_satisfiable_non_explicit :
  well_formed w_g w_fields_sig = true /\ hyphen_safe w_g (norm w_fields_sig) = true
  /\ explicit w_fields_sig = false /\ length (norm w_fields_sig) = 2.
Proof. exact guard_example_norm. Qed.

Example C07_norm_is_needed :
  exists gk fs, as_class_group gk fs <> with_load gk (as_dotted gk fs)
                /\ as_class_group gk fs = with_load gk (as_dotted gk (norm fs)).
Proof. exact signature_rules_are_a_normalisation. Qed.

(* ---- findings: outside the guard the property FAILS on the faithful model (kernel-evaluated witnesses) ---- *)
(* fields a:int=1, b:str='x' under g; parse_args(['--g={"a": 2}']) *)
Theorem C07_dotted_whole_group_argv_refuted :
  exists pv jl gk fs inp,
    well_formed gk fs = true /\ hyphen_safe gk (norm fs) = true /\ finding_class pv gk fs inp = 1%N
    /\ is_reject (run pv jl (as_dotted gk (norm fs)) inp) = true
    /\ group_value (run pv jl (as_class_group gk fs) inp) gk w_a = Some (VInt 2).
Proof. exact dotted_whole_group_argv_refuted. Qed.
Print Assumptions C07_dotted_whole_group_argv_refuted.

(* one field a:int=1; parse_args(['--g=5']) is an abbreviation of --g.a for the dotted style only *)
Theorem C07_dotted_group_abbreviation_refuted :
  exists pv jl gk fs inp,
    finding_class pv gk fs inp = 1%N
    /\ group_value (run pv jl (as_dotted gk (norm fs)) inp) gk w_a = Some (VInt 5)
    /\ is_reject (run pv jl (as_class_group gk fs) inp) = true.
Proof. exact dotted_group_abbreviation_refuted. Qed.
Print Assumptions C07_dotted_group_abbreviation_refuted.

(* environment APP_G='{"a": 2}' *)
Theorem C07_dotted_whole_group_env_refuted :
  exists pv jl gk fs inp,
    finding_class pv gk fs inp = 2%N
    /\ group_value (run pv jl (as_dotted gk (norm fs)) inp) gk w_a = Some (VInt 1)
    /\ group_value (run pv jl (as_class_group gk fs) inp) gk w_a = Some (VInt 2).
Proof. exact dotted_whole_group_env_refuted. Qed.
Print Assumptions C07_dotted_whole_group_env_refuted.

(* parse_object({'g': '{"a": 2}'}): rejected by the dotted style, loaded as the group's config by the others *)
Theorem C07_dotted_group_key_string_refuted :
  exists pv jl gk fs inp,
    finding_class pv gk fs inp = 3%N
    /\ is_reject (run pv jl (as_dotted gk (norm fs)) inp) = true
    /\ group_value (run pv jl (as_class_group gk fs) inp) gk w_a = Some (VInt 2).
Proof. exact dotted_group_key_string_refuted. Qed.
Print Assumptions C07_dotted_group_key_string_refuted.

(* parse_object({'g': None}): same result, different dump ('g: null' against '{}') *)
Theorem C07_dotted_group_key_null_refuted :
  exists pv jl gk fs inp,
    finding_class pv gk fs inp = 3%N
    /\ dumped (run pv jl (as_dotted gk (norm fs)) inp) = Some [(gk, TLeaf VNone)]
    /\ dumped (run pv jl (as_class_group gk fs) inp) = Some [].
Proof. exact dotted_group_key_null_refuted. Qed.
Print Assumptions C07_dotted_group_key_null_refuted.

(* parse_object({'g': 5}) — the former finding group-key-scalar, fixed in the tree (d768470): all styles reject *)
Example C07_group_key_scalar_now_rejected :
  is_reject (run w_pv w_jl (as_dotted w_g (norm w_fields)) w_in_obj_five) = true
  /\ is_reject (run w_pv w_jl (as_class_group w_g w_fields) w_in_obj_five) = true.
Proof. exact group_key_scalar_now_rejected. Qed.

(* key my-g, fields f:int (required), a:int=1; parse_args(['--my-g.f=2']): rejected by the inner-parser style
   only; accepted once required_args is prefixed like the dests (the repaired model) *)
Theorem C07_inner_hyphen_required_refuted :
  exists pv jl gk fs inp,
    well_formed gk fs = true /\ finding_class pv gk fs inp = 5%N
    /\ is_reject (run pv jl (as_inner_parser (dashes ++ gk) (norm fs)) inp) = true
    /\ group_value (run pv jl (as_class_group gk fs) inp) (gdest gk) w_f = Some (VInt 2)
    /\ group_value (run pv jl (as_inner_parser_fixed (dashes ++ gk) (norm fs)) inp) (gdest gk) w_f = Some (VInt 2).
Proof. exact inner_hyphen_required_refuted. Qed.
Print Assumptions C07_inner_hyphen_required_refuted.

(* ---- the repaired tree (fixes/C07-inner-hyphen-required.patch): class 5 is gone ---- *)
Theorem C07_four_styles_agree_fixed :
  forall (pv jl : str -> val) (gk : str) (fs : list field) (inp : input),
    finding_class_fixed pv gk fs inp = 0%N ->
    let r := run pv jl (as_dotted gk (norm fs)) inp in
    run pv jl (as_dataclass (dashes ++ gk) fs) inp = r
    /\ run pv jl (as_class_group gk fs) inp = r
    /\ run pv jl (as_inner_parser_fixed (dashes ++ gk) (norm fs)) inp = r.
Proof. exact four_styles_agree_fixed. Qed.
Print Assumptions C07_four_styles_agree_fixed.

Theorem C07_grouped_styles_agree_on_all_inputs_fixed :
  forall (pv jl : str -> val) (gk : str) (fs : list field) (inp : input),
    well_formed gk fs = true ->
    run pv jl (as_dataclass (dashes ++ gk) fs) inp = run pv jl (as_class_group gk fs) inp
    /\ run pv jl (as_inner_parser_fixed (dashes ++ gk) (norm fs)) inp = run pv jl (as_class_group gk fs) inp.
Proof. exact grouped_styles_agree_fixed. Qed.
Print Assumptions C07_grouped_styles_agree_on_all_inputs_fixed.

(* ================= members: declaration-time default overrides, dataclass-typed members =================
   as_dotted_m / as_dataclass_m / as_class_group_m / as_inner_parser_m are the compilers the correspondence judges
   (Corr/C07Judge.v): leaves may carry an overriding default given at declaration (default=<instance> /
   default=<dict> / plain default=), members may be dataclass-typed (one nested sub-group).  The signature styles
   add every parameter with its SIGNATURE default and then run parser.set_defaults over the mapping, entry by
   entry (find the action by dest, set its default; a whole-group entry is expanded, then the NEXT entry). *)

(* The core for every FLAT member list, with or without overrides, complete or partial mapping: same answers.
   finding_class_m = 0 is the guard the judge uses (v_class). *)
Theorem C07_four_styles_agree_m :
  forall (pv jl : str -> val) (full : bool) (gk : str) (ms : list member) (inp : input),
    finding_class_m pv gk ms inp = 0%N ->
    let r := run pv jl (as_dotted_m gk (mnorm ms)) inp in
    (exists Tc, as_class_group_m false full gk ms = Some Tc /\ run pv jl Tc inp = r)
    /\ (exists Td, as_dataclass_m false (dashes ++ gk) ms = Some Td /\ run pv jl Td inp = r)
    /\ run pv jl (as_inner_parser_m (dashes ++ gk) (mnorm ms)) inp = r.
Proof. exact four_styles_agree_m. Qed.
Print Assumptions C07_four_styles_agree_m.

(* No override is lost and none lands on another parameter: after the set_defaults pass the signature styles hold
   exactly the table the inner-parser style builds with the overriding defaults inline (= load row + dotted table). *)
Theorem C07_grouped_tables_equal_m :
  forall (full : bool) (gk : str) (os : list ofield),
    well_formed_m gk (map MLeaf os) = true -> hyphen_defaults gk (map MLeaf os) = false ->
    let T := with_load gk (as_dotted_m gk (mnorm (map MLeaf os))) in
    as_class_group_m false full gk (map MLeaf os) = Some T
    /\ as_dataclass_m false (dashes ++ gk) (map MLeaf os) = Some T
    /\ as_inner_parser_m (dashes ++ gk) (mnorm (map MLeaf os)) = T.
Proof. exact grouped_tables_equal_m. Qed.
Print Assumptions C07_grouped_tables_equal_m.

(* the set_defaults pass itself (the sequential find-and-set of _core.py:190-216), for any list of parameters
   with pairwise different dash-free names, any already-processed prefix `done` that holds none of their dests *)
Theorem C07_set_defaults_in_order :
  forall (full : bool) (gk : str), has_dash gk = false ->
  forall (nl : list ofield) (done : list row),
    forallb (fun o => negb (has_dash (oname o))) nl = true ->
    nodupb (map oname nl) = true ->
    forallb ov_ok nl = true ->
    (forall o r, In o nl -> In r done -> is_leaf_at (key gk (o_field o)) r = false) ->
    set_defaults (done ++ map (fun o => mk gk (o_field o)) nl) (with_prefix gk (flat_map (oentry full) nl))
    = Some (done ++ map (fun o => mk gk (eff o)) nl).
Proof. exact set_defaults_flat. Qed.
Print Assumptions C07_set_defaults_in_order.

Example C07_member_guard_satisfiable :
  finding_class_m w_pv w_g w_over_members w_in_plain = 0%N
  /\ group_value (run w_pv w_jl (as_dotted_m w_g (mnorm w_over_members)) (w_args [])) w_g w_a = Some (VInt 5).
Proof. exact member_guard_example. Qed.

(* a nested declaration with overrides before, inside and AFTER the nested member (class 7: the compilers are
   only tied by the correspondence there; this instance is kernel-evaluated) *)
Example C07_nested_tables_example :
  well_formed_m w_g w_nested_members = true
  /\ as_class_group_m false false w_g w_nested_members = Some (as_inner_parser_m (dashes ++ w_g) (mnorm w_nested_members))
  /\ as_dataclass_m false (dashes ++ w_g) w_nested_members = Some (as_inner_parser_m (dashes ++ w_g) (mnorm w_nested_members))
  /\ leaf_rows_of (as_inner_parser_m (dashes ++ w_g) (mnorm w_nested_members))
     = t_rows (as_dotted_m w_g (mnorm w_nested_members)).
Proof. exact nested_tables_example. Qed.

(* key my-g, a:int=1 overridden by 5: add_class_arguments(..., 'my-g', default={'a': 5}) raises NSKeyError *)
Theorem C07_hyphen_key_default_override_refuted :
  exists full gk ms,
    finding_class_m (fun s => VStr s) gk ms {| i_env := []; i_entry := EArgs [] |} = 8%N
    /\ as_class_group_m false full gk ms = None
    /\ as_dataclass_m false (dashes ++ gk) ms = None
    /\ as_class_group_m true full gk ms = Some (as_inner_parser_m (dashes ++ gk) (mnorm ms)).
Proof. exact hyphen_key_default_override_refuted. Qed.
Print Assumptions C07_hyphen_key_default_override_refuted.

(* ================= nested declarations (a dataclass-typed member = a sub-group), tables =================
   For EVERY group key and EVERY member list with leaves and dataclass-typed members in any number and order (any
   types, defaults or none, private names, lists the signature rules rewrite) that carries no declaration-time default
   (plain_member: no default= override, no default instance on a dataclass-typed member): the class style
   (_add_signature_parameter recursing into add_class_arguments for the member, _create_group_if_requested adding the
   sub-group's loader), the dataclass style and the inner-parser style (an ActionParser holding a nested
   ActionParser: _move_parser_actions applied twice) build ONE AND THE SAME action table — for the tree as it is and
   for the repaired one (fixkey), for either kind of default= mapping. *)
Theorem C07_grouped_tables_equal_nested :
  forall (fixkey full : bool) (gk : str) (ms : list member),
    starts_dash gk = false -> ms <> [] -> forallb plain_member ms = true ->
    let T := as_inner_parser_m (dashes ++ gk) (mnorm ms) in
    as_class_group_m fixkey full gk ms = Some T /\ as_dataclass_m fixkey (dashes ++ gk) ms = Some T.
Proof. exact grouped_tables_equal_nested. Qed.
Print Assumptions C07_grouped_tables_equal_nested.

(* ... hence the three grouped styles answer EVERY input identically on such declarations: whole-group and
   whole-sub-group values (--g=JSON, --g.s=JSON, APP_G, APP_G__S, strings in configs) included. *)
Theorem C07_grouped_styles_agree_nested :
  forall (pv jl : str -> val) (fixkey full : bool) (gk : str) (ms : list member) (inp : input),
    starts_dash gk = false -> ms <> [] -> forallb plain_member ms = true ->
    let r := run pv jl (as_inner_parser_m (dashes ++ gk) (mnorm ms)) inp in
    (exists Tc, as_class_group_m fixkey full gk ms = Some Tc /\ run pv jl Tc inp = r)
    /\ (exists Td, as_dataclass_m fixkey (dashes ++ gk) ms = Some Td /\ run pv jl Td inp = r).
Proof. exact grouped_styles_agree_nested. Qed.
Print Assumptions C07_grouped_styles_agree_nested.

(* The dotted style owns exactly the LEAF actions of the grouped table, in the same order, and the same required keys
   — for EVERY normalised member list (nested members, overrides and default instances included; leaf_rows_t = the
   rows that are not _ActionConfigLoad rows). *)
Theorem C07_dotted_leaves_of_grouped_table :
  forall (gk : str) (nms : list member),
    leaf_rows_t (as_inner_parser_m (dashes ++ gk) nms) = t_rows (as_dotted_m gk nms)
    /\ t_required (as_inner_parser_m (dashes ++ gk) nms) = t_required (as_dotted_m gk nms).
Proof. exact dotted_leaves_of_grouped_table. Qed.
Print Assumptions C07_dotted_leaves_of_grouped_table.

(* The same when dataclass-typed members have a DEFAULT INSTANCE (plain_member_d): the nested
   add_class_arguments(Sub, gk.n, default=Sub()) then runs set_defaults over the member type's own defaults; with
   pairwise different identifier names (names_ok) and a key whose dest is the key (no '-': otherwise finding class 8)
   every entry finds its action and changes nothing (a dest gk.n.f is owned by exactly one action, which already holds
   that default), so the table is again the inner-parser style's. *)
Theorem C07_grouped_tables_equal_nested_mdef :
  forall (fixkey full : bool) (gk : str) (ms : list member),
    starts_dash gk = false -> ms <> [] -> forallb plain_member_d ms = true ->
    (has_mdef ms = true -> has_dash gk = false /\ names_ok (mnorm ms) = true) ->
    let T := as_inner_parser_m (dashes ++ gk) (mnorm ms) in
    as_class_group_m fixkey full gk ms = Some T /\ as_dataclass_m fixkey (dashes ++ gk) ms = Some T.
Proof. exact grouped_tables_equal_nested_d. Qed.
Print Assumptions C07_grouped_tables_equal_nested_mdef.

(* The statement the judged TABLE cases of nested declarations are inside (table_class = 0 is v_class of the judge:
   a nested declaration without default= override, inside no other finding class): the property "the declared
   options are the same" for all four styles. *)
Theorem C07_nested_tables_agree :
  forall (fixkey full : bool) (gk : str) (ms : list member),
    table_class gk ms = 0%N -> has_nested ms = true ->
    let T := as_inner_parser_m (dashes ++ gk) (mnorm ms) in
    as_class_group_m fixkey full gk ms = Some T /\ as_dataclass_m fixkey (dashes ++ gk) ms = Some T
    /\ leaf_rows_t T = t_rows (as_dotted_m gk (mnorm ms)) /\ t_required T = t_required (as_dotted_m gk (mnorm ms)).
Proof. exact nested_tables_agree. Qed.
Print Assumptions C07_nested_tables_agree.

(* g: a:int=1, s:{lr:int (required), m:str=None}, b:Optional[List[int]] without default *)
Example C07_nested_hypotheses_satisfiable :
  starts_dash [103]%N = false /\ wn_members <> [] /\ forallb plain_member wn_members = true
  /\ has_nested wn_members = true /\ table_class [103]%N wn_members = 0%N
  /\ length (t_rows (as_inner_parser_m (dashes ++ [103]%N) (mnorm wn_members))) = 6.
Proof. exact nested_hypotheses_satisfiable. Qed.

(* the same declaration with a default instance on the member s (s: {m: str = None}) *)
Example C07_nested_hypotheses_satisfiable_mdef :
  starts_dash [103]%N = false /\ wn_members_d <> [] /\ forallb plain_member_d wn_members_d = true
  /\ has_mdef wn_members_d = true /\ has_dash [103]%N = false /\ names_ok (mnorm wn_members_d) = true
  /\ table_class [103]%N wn_members_d = 0%N.
Proof. exact nested_hypotheses_satisfiable_d. Qed.

(* C03 — every parse failure surfaces as ArgumentError or exit status 2, nothing else.
   Property theorems only; each is closed by `exact` of a lemma proved in Proofs/.

   Objects:  Model/C03ExnFlow.v   the exception-flow IR, its nondeterministic big-step semantics `exec`
                                  (every Choice / Loop / external failure may or may not happen), the escape
                                  analysis `esc` and the oracle-driven interpreter `run`;
             Gen/C03ExnIR.v       `ir_prog`: the IR of the parse entry points of jsonargparse and their
                                  transitive callees, REGENERATED from the source on every run;
             Spec/C03ChannelSpec  `channel_ok exit_on_error observation`: the property as a predicate on what
                                  a caller observes;
             Model/C03Instance.v  `obs_of_class`, the guard `finding_class` (0 = not a listed finding site). *)
From JV Require Import Lib.Base Model.C03ExnFlow Spec.C03ChannelSpec Gen.C03ExnIR Model.C03Instance
                       Proofs.C03ExnFlowProofs Proofs.C03ChannelProofs
                       Model.C03Cycle Spec.C03CycleSpec Gen.C03Cycle Proofs.C03CycleProofs Corr.C03Judge.
Open Scope N_scope.

(* 1. Soundness of the escape analysis, for ALL IR programs, all summary tables that pass the executable
      post-fixpoint check, both modes, all functions: whatever raise site an execution of f lets escape is in
      the escape set computed for f.  (Induction on the derivation of `exec`, mutual with the handler relation.) *)
Theorem C03_analysis_sound :
  forall (P : prog) (nsites : nat) (T : table),
    postfix P nsites T = true ->
    forall (x : bool) (f i : N),
      exec P x [] (Call f) (ORaise i) -> In i (members nsites (escapes P nsites T x f)).
Proof. exact analysis_sound. Qed.
Print Assumptions C03_analysis_sound.

(* 2. The property on the regenerated IR, all five parse methods, both modes, ALL executions: an exception that
      leaves parse_args / parse_object / parse_string / parse_env / parse_path is observed as the documented
      channel of the mode (ArgumentError when exit_on_error is false, exit status 2 when true, exit status 0 in
      both) — unless it is raised at one of the listed finding sites (guard). *)
Theorem C03_single_channel :
  forall (x : bool) (e i : N),
    In e ir_entries ->
    exec ir_prog x [] (Call e) (ORaise i) ->
    finding_class x i = 0 ->
    channel_ok x (obs_of_class (site_class ir_prog i)) = true.
Proof. exact channel_guarded. Qed.
Print Assumptions C03_single_channel.

(* 3. ArgumentParser.error never returns.  In exception mode it raises exactly ArgumentError; in exit mode whatever
      leaves it reads as the channel (exit status 2 after the usage, or 0) unless it is raised at a finding site (the
      usage formatter re-reads the default config files: finding usage-formatting-reraises). *)
Theorem C03_error_is_the_channel :
  forall (x : bool) (o : outcome),
    exec ir_prog x [] (Call entry_error) o ->
    exists i, o = ORaise i /\
              (finding_class x i = 0 -> channel_ok x (obs_of_class (site_class ir_prog i)) = true) /\
              (x = false -> site_class ir_prog i = cls_ArgumentError).
Proof. exact error_channel. Qed.
Print Assumptions C03_error_is_the_channel.

(* 4. The oracle-driven interpreter only follows executions of the semantics (what makes the witnesses below proofs). *)
Theorem C03_witness_runs_are_executions :
  forall P fuel x stk s orc o orc', run P fuel x stk s orc = Some (o, orc') -> exec P x stk s o.
Proof. exact oracle_run_sound. Qed.
Print Assumptions C03_witness_runs_are_executions.

(* Non-vacuity: in both modes there IS an execution of a parse method that raises inside the guard — the
   hypotheses of C03_single_channel are satisfiable and its conclusion is reached by ArgumentParser.error. *)
Example C03_channel_reached_exception_mode : reached_status false wit_channel_false.
Proof. exact channel_reached_false. Qed.
Print Assumptions C03_channel_reached_exception_mode.

Example C03_channel_reached_exit_mode : reached_status true wit_channel_true.
Proof. exact channel_reached_true. Qed.
Print Assumptions C03_channel_reached_exit_mode.

(* Findings.  For every guard class k: finding_status k w is
     finding_refuted k  (exists mode, entry, site: an execution of the entry raises the site, the site has class k,
                         and the observation VIOLATES the channel)   when the translator produced a witness w,
     finding_absent k   (no execution lets a site of class k escape outside the channel) when it did not —
   i.e. the unguarded statement is refuted on the tree as it is, and the lemma keeps checking (second form) once
   the defect is repaired in the source and the site no longer escapes. *)
Theorem C03_cfg_value_not_str_refuted : finding_status 1 wit_finding_1.
Proof. exact finding_1_status. Qed.
Print Assumptions C03_cfg_value_not_str_refuted.
Theorem C03_recursive_yaml_alias_refuted : finding_status 2 wit_finding_2.
Proof. exact finding_2_status. Qed.
Print Assumptions C03_recursive_yaml_alias_refuted.
Theorem C03_config_content_unreadable_refuted : finding_status 3 wit_finding_3.
Proof. exact finding_3_status. Qed.
Print Assumptions C03_config_content_unreadable_refuted.
Theorem C03_path_nul_byte_refuted : finding_status 4 wit_finding_4.
Proof. exact finding_4_status. Qed.
Print Assumptions C03_path_nul_byte_refuted.
Theorem C03_parse_path_patherror_refuted : finding_status 5 wit_finding_5.
Proof. exact finding_5_status. Qed.
Print Assumptions C03_parse_path_patherror_refuted.
Theorem C03_type_import_error_refuted : finding_status 6 wit_finding_6.
Proof. exact finding_6_status. Qed.
Print Assumptions C03_type_import_error_refuted.
Theorem C03_argument_type_error_refuted : finding_status 7 wit_finding_7.
Proof. exact finding_7_status. Qed.
Print Assumptions C03_argument_type_error_refuted.
Theorem C03_help_subparser_exit_refuted : finding_status 8 wit_finding_8.
Proof. exact finding_8_status. Qed.
Print Assumptions C03_help_subparser_exit_refuted.
Theorem C03_default_config_argument_error_refuted : finding_status 9 wit_finding_9.
Proof. exact finding_9_status. Qed.
Print Assumptions C03_default_config_argument_error_refuted.
Theorem C03_nested_parser_argument_error_refuted : finding_status 10 wit_finding_10.
Proof. exact finding_10_status. Qed.
Print Assumptions C03_nested_parser_argument_error_refuted.
Theorem C03_usage_formatting_reraises_refuted : finding_status 11 wit_finding_11.
Proof. exact finding_11_status. Qed.
Print Assumptions C03_usage_formatting_reraises_refuted.
Theorem C03_append_without_parser_context_refuted : finding_status 12 wit_finding_12.
Proof. exact finding_12_status. Qed.
Print Assumptions C03_append_without_parser_context_refuted.
Theorem C03_list_option_given_mapping_refuted : finding_status 13 wit_finding_13.
Proof. exact finding_13_status. Qed.
Print Assumptions C03_list_option_given_mapping_refuted.
Theorem C03_overflow_error_refuted : finding_status 14 wit_finding_14.
Proof. exact finding_14_status. Qed.
Print Assumptions C03_overflow_error_refuted.
Theorem C03_cfg_key_in_config_refuted : finding_status 15 wit_finding_15.
Proof. exact finding_15_status. Qed.
Print Assumptions C03_cfg_key_in_config_refuted.
Theorem C03_nested_key_on_any_print_config_refuted : finding_status 16 wit_finding_16.
Proof. exact finding_16_status. Qed.
Print Assumptions C03_nested_key_on_any_print_config_refuted.
Theorem C03_nargs_choices_scalar_refuted : finding_status 17 wit_finding_17.
Proof. exact finding_17_status. Qed.
Print Assumptions C03_nargs_choices_scalar_refuted.
Theorem C03_deep_nesting_recursion_refuted : finding_status 18 wit_finding_18.
Proof. exact finding_18_status. Qed.
Print Assumptions C03_deep_nesting_recursion_refuted.
Theorem C03_closed_stdin_dash_refuted : finding_status 19 wit_finding_19.
Proof. exact finding_19_status. Qed.
Print Assumptions C03_closed_stdin_dash_refuted.
Theorem C03_subcommand_value_not_mapping_refuted : finding_status 20 wit_finding_20.
Proof. exact finding_20_status. Qed.
Print Assumptions C03_subcommand_value_not_mapping_refuted.
Theorem C03_any_class_path_override_refuted : finding_status 21 wit_finding_21.
Proof. exact finding_21_status. Qed.
Print Assumptions C03_any_class_path_override_refuted.
Theorem C03_print_config_value_empty_refuted : finding_status 22 wit_finding_22.
Proof. exact finding_22_status. Qed.
Print Assumptions C03_print_config_value_empty_refuted.
Theorem C03_json_int_digit_limit_refuted : finding_status 23 wit_finding_23.
Proof. exact finding_23_status. Qed.
Print Assumptions C03_json_int_digit_limit_refuted.
Theorem C03_registered_type_arithmetic_error_refuted : finding_status 24 wit_finding_24.
Proof. exact finding_24_status. Qed.
Print Assumptions C03_registered_type_arithmetic_error_refuted.
Theorem C03_yaml_timestamp_tag_refuted : finding_status 25 wit_finding_25.
Proof. exact finding_25_status. Qed.
Print Assumptions C03_yaml_timestamp_tag_refuted.
Theorem C03_parse_object_non_mapping_refuted : finding_status 26 wit_finding_26.
Proof. exact finding_26_status. Qed.
Print Assumptions C03_parse_object_non_mapping_refuted.
Theorem C03_huge_int_rendering_refuted : finding_status 27 wit_finding_27.
Proof. exact finding_27_status. Qed.
Print Assumptions C03_huge_int_rendering_refuted.
Theorem C03_cwd_deleted_refuted : finding_status 28 wit_finding_28.
Proof. exact finding_28_status. Qed.
Print Assumptions C03_cwd_deleted_refuted.
Theorem C03_any_class_spec_init_args_not_mapping_refuted : finding_status 29 wit_finding_29.
Proof. exact finding_29_status. Qed.
Print Assumptions C03_any_class_spec_init_args_not_mapping_refuted.
Theorem C03_yaml_alias_cycle_through_pairs_refuted : finding_status 30 wit_finding_30.
Proof. exact finding_30_status. Qed.
Print Assumptions C03_yaml_alias_cycle_through_pairs_refuted.

(* 5. The cycle check of yaml_load (Model/C03Cycle.has_cycle renders _loaders_dumpers._has_reference_cycle; the flag
      cyc_tuples — are tuples descended — is regenerated from its source).  For ALL heaps (loaded values with sharing and
      cycles), roots and fuels: a value the check ACCEPTS can be walked through mappings, lists and tuples to any depth
      without re-entering a node — every recursive walk of the parse path over it is at most |heap| levels deep — provided
      the check descends tuples or the value holds none (cyc_guard, the same function the judge uses as the guard).
      This is what keeps a self-referential alias from surfacing as RecursionError instead of the channel. *)
Theorem C03_cycle_check_sound :
  forall (h : heap) (root fuel : nat),
    cyc_guard h = true ->
    has_cycle cyc_tuples fuel h [] root = Some false ->
    forall n, walks_ok n h [] root = true.
Proof. exact (cycle_check_sound cyc_tuples). Qed.
Print Assumptions C03_cycle_check_sound.

(* the same against the judge's spec: whatever answer the check gives inside the guard satisfies cycle_check_ok *)
Theorem C03_cycle_check_meets_spec :
  forall (h : heap) (root fuel : nat) (rejected : bool),
    cyc_guard h = true ->
    has_cycle cyc_tuples fuel h [] root = Some rejected ->
    cycle_check_ok h root rejected = true.
Proof. exact (cycle_check_spec cyc_tuples). Qed.
Print Assumptions C03_cycle_check_meets_spec.

(* hypotheses satisfiable: a value with sharing but no cycle is accepted inside the guard; a self-referential list is refused *)
Example C03_cycle_check_accepts_sharing : has_cycle false 5 shared_heap [] 0 = Some false /\ tuple_free shared_heap = true.
Proof. exact shared_accepted. Qed.
Print Assumptions C03_cycle_check_accepts_sharing.
Example C03_cycle_check_refuses_selfref : has_cycle false 5 selfref_heap [] 0 = Some true.
Proof. exact selfref_refused. Qed.
Print Assumptions C03_cycle_check_refuses_selfref.

(* finding yaml-alias-cycle-through-pairs, outside the guard: a check that does not descend tuples accepts the value of
   `&x !!pairs [k: *x]` (a list holding a tuple holding the list), which is not walkable; a check that does refuses it *)
Theorem C03_cycle_check_pairs_refuted :
  has_cycle false 5 pairs_heap [] 0 = Some false /\ cycle_check_ok pairs_heap 0 false = false.
Proof. exact pairs_accepted_not_walkable. Qed.
Print Assumptions C03_cycle_check_pairs_refuted.
Example C03_cycle_check_pairs_refused_when_tuples_descended : has_cycle true 5 pairs_heap [] 0 = Some true.
Proof. exact pairs_rejected_when_tuples_descended. Qed.
Print Assumptions C03_cycle_check_pairs_refused_when_tuples_descended.

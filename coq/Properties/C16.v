(* C16 — property theorems only. Each is closed by `exact` of a lemma proved in Proofs/ (or by one kernel evaluation
   for a literal witness).  `fx` ranges over the variants of the code: `nofix` = the pinned tree, `allfix` = after
   fixes/C16-nested-target-order.patch and fixes/C16-source-under-group.patch (Model/LinkOrder.v, Record fixes). *)
From JV Require Import Lib.Base Model.Graph Proofs.GraphProofs Spec.GraphSpec Proofs.C16BuildProofs
                       Model.LinkOrder Spec.LinkSpec Proofs.C16LinkProofs Proofs.C16SmallSpace.
From Coq Require Import Permutation.

(* ==== 1. the topological sort ========================================================================================= *)

(* The DFS of DirectedGraph.get_topological_order, for a graph with ANY number n of nodes and any
   successor lists with targets < n: it never runs out of fuel; when it answers with an order, that
   order is a duplicate-free permutation of all nodes in which every edge points forward, and the
   graph has no cycle; when it reports a cycle u --> v, then u -> v is an edge and v reaches u. *)
Theorem C16_topo_sort_correct :
  forall (succ : nat -> list nat) (n : nat),
    (forall s t, s < n -> In t (succ s) -> t < n) ->
    match topo_idx n succ with
    | TOk _ o => Permutation o (seq 0 n) /\ NoDup o /\
                 (forall u v, u < n -> In v (succ u) -> before o u v) /\
                 (forall u v, u < n -> In v (succ u) -> ~ reach succ v u)
    | TCycle u v => In v (succ u) /\ reach succ v u
    | TFuel => False
    end.
Proof. exact topo_idx_correct. Qed.
Print Assumptions C16_topo_sort_correct.

(* The same for DirectedGraph as it is used: add_edge called for ANY list of labelled edges (first-seen node numbering,
   duplicate-free adjacency lists), then get_topological_order.  Either an order that lists exactly the mentioned
   nodes once, every edge forward, and then the edge list is acyclic; or a reported edge u --> v that closes a cycle. *)
Theorem C16_topo_on_edge_lists :
  forall es : list (str * str),
    match topo (build es) with
    | Order o => NoDup o /\ (forall x, In x o <-> In x (mentioned es)) /\
                 (forall s t, In (s, t) es -> exists l1 l2, o = l1 ++ s :: l2 /\ In t l2) /\
                 (forall s t, In (s, t) es -> ~ reach_es es t s)
    | Cycle u v => In (u, v) es /\ reach_es es v u
    | Broken => False
    end.
Proof. exact topo_build_correct. Qed.
Print Assumptions C16_topo_on_edge_lists.

(* ==== 2. the instantiation order respects every link =================================================================== *)

(* For ANY components cs, ANY links ls (any key strings) and either variant of the code: if link_arguments accepted the
   links (instantiation_order answers with an order o) then, inside the guard enclosing_ok, in the sequence in which
   instantiate_classes walks through the components (depth sort, then ActionLink.reorder by o) the component cS of every
   source of every link l stands strictly before every component cT whose dest encloses l's target key — the
   component that constructs the object fed by l.  (cS <> cT follows: a sequence position is strictly earlier.) *)
Theorem C16_sources_before_targets :
  forall fx cs ls o l k cS cT,
    inst_order fx cs ls = Order o ->
    enclosing_ok fx cs ls = true ->
    In l ls -> In k (l_srcs l) -> resolve_src cs k = Some cS ->
    In cT cs -> matches (c_dest cT) (l_target l) = true ->
    precedes (comp_sequence cs o) cS cT.
Proof. exact sources_before_targets. Qed.
Print Assumptions C16_sources_before_targets.

(* without any guard: the order itself lists every link's source component before the link's target node *)
Theorem C16_order_respects_links :
  forall fx cs ls o l k cS,
    inst_order fx cs ls = Order o -> In l ls -> In k (l_srcs l) -> resolve_src cs k = Some cS ->
    edge_before o (c_dest cS, target_node l) = true.
Proof. exact order_respects_links. Qed.
Print Assumptions C16_order_respects_links.

(* every component is instantiated exactly once: the sequence walked by instantiate_classes is a permutation of the
   components, for any order *)
Theorem C16_each_component_once :
  forall cs order, Permutation (comp_sequence cs order) cs.
Proof. exact comp_sequence_perm. Qed.
Print Assumptions C16_each_component_once.

(* ==== 3. cycles are rejected when the link is added ==================================================================== *)

(* link_arguments called for ls one after the other: all calls succeed iff the link graph is acyclic after every
   addition; otherwise exactly the first call that makes it cyclic raises. *)
Theorem C16_links_accepted_iff_acyclic :
  forall fx cs ls,
    match add_links fx cs ls with
    | None => forall n, 1 <= n <= length ls -> acyclic (link_edges fx cs (firstn n ls))
    | Some k => k < length ls
                /\ (forall n, 1 <= n <= k -> acyclic (link_edges fx cs (firstn n ls)))
                /\ cyclic (link_edges fx cs (firstn (S k) ls))
    end.
Proof. exact add_links_spec. Qed.
Print Assumptions C16_links_accepted_iff_acyclic.

Theorem C16_cycle_rejected_at_link_time :
  forall fx ds ls n,
    1 <= n <= length ls -> cyclic (link_edges fx (components ds) (firstn n ls)) ->
    exists k, k < n /\ run fx ds ls = (OLinkErr k, []).
Proof. exact run_cycle_rejected. Qed.
Print Assumptions C16_cycle_rejected_at_link_time.

(* histories that go on after rejected links (the caller catches the ValueError and adds further links): what the parser
   holds in the end is acyclic and instantiate_classes finds an order for it — it never raises "Graph has cycles" for the
   accepted set; C16_sources_before_targets / C16_order_respects_links apply to that set as to any accepted one. *)
Theorem C16_accepted_set_acyclic_after_rejections :
  forall fx cs ls, let a := fst (add_links_cont fx cs ls) in a = [] \/ acyclic (link_edges fx cs a).
Proof. exact add_links_cont_acyclic. Qed.
Print Assumptions C16_accepted_set_acyclic_after_rejections.

Theorem C16_accepted_set_has_order_after_rejections :
  forall fx cs ls, exists o, inst_order fx cs (fst (add_links_cont fx cs ls)) = Order o.
Proof. exact add_links_cont_has_order. Qed.
Print Assumptions C16_accepted_set_has_order_after_rejections.

(* ==== 4. the whole statement on a finite space, decided by the kernel ================================================= *)

(* Every layout of class groups / class-typed arguments (possibly nested two or three deep) constructing <= 3 objects,
   and every arrangement of four flat class groups / class-typed arguments; every sequence of one or two links whose
   source is any component (object or attribute), whose target is a parameter of any constructed object, with and without
   compute_fn — cyclic ones included.  Inside the guard link_class = 0 the model's run is what Spec/LinkSpec.v demands:
   a cycle-closing link is rejected at that call and nothing is constructed; otherwise every object is constructed
   exactly once, every source before the object it feeds, every linked parameter receives exactly the source object /
   attribute / compute_fn result, and compute_fn runs once, after its sources exist and before the target is built. *)
Theorem C16_small_space_model_meets_spec :
  forall shs ls, In shs (layouts_upto3 ++ layouts_flat4) -> In ls (link_seqs (components (decls_from 0 shs))) ->
    case_ok nofix (decls_from 0 shs, ls) = true.
Proof. exact small_space_ok_pinned. Qed.
Print Assumptions C16_small_space_model_meets_spec.

(* after both repairs no case of the space is left in class 1 or 2 (only the nested-self-link class 3), and the
   repaired model meets the spec on all the others *)
Theorem C16_small_space_fixed_model_meets_spec :
  forall shs ls, In shs layouts_upto3 -> In ls (link_seqs (components (decls_from 0 shs))) ->
    case_ok_fixed (decls_from 0 shs, ls) = true.
Proof. exact small_space_ok_fixed. Qed.
Print Assumptions C16_small_space_fixed_model_meets_spec.

(* every sequence of three links over the layouts with at most two constructed objects (25,120 cases), both variants *)
Theorem C16_small_space_three_links :
  forall shs ls, In shs layouts_upto2 -> In ls (link_seqs3 (components (decls_from 0 shs))) ->
    (case_ok nofix (decls_from 0 shs, ls) && case_ok_fixed (decls_from 0 shs, ls)) = true.
Proof. exact small_space3_ok. Qed.
Print Assumptions C16_small_space_three_links.

(* targets that only the FINAL apply_instantiation_links pass fills: one class group added with instantiate=False at every
   declaration position of every layout with <= 2 constructed objects (21 layouts), every 1- and 2-link sequence into
   constructed objects and into that group (9,000 cases), both variants of the code.  This is the theorem in which
   apply_final (and, for fx_source, the record of instantiated components it is given) is inside the statement. *)
Theorem C16_small_space_final_pass_targets :
  forall shs ls, In shs layouts_sink -> In ls (link_seqs_sink (decls_from 0 shs)) ->
    (case_ok nofix (decls_from 0 shs, ls) && case_ok_fixed (decls_from 0 shs, ls)) = true.
Proof. exact small_space_sink_ok. Qed.
Print Assumptions C16_small_space_final_pass_targets.

(* WHOLE class-typed arguments as link targets (link(src, "n") with add_argument("--n", type=Optional[Base])): one such argument
   at every declaration position of every layout with <= 2 constructed objects (21 layouts), every 1- and 2-link sequence of
   which at least one link targets the whole argument (source: any component, object or attribute, compute_fn or not; the
   other link into any constructed object or the argument), both variants of the code.  The argument is no component (its
   action is replaced by the link action), nothing is constructed for it, the final pass type-checks and writes the value:
   inside the guard the returned cfg holds exactly the source object / attribute / compute_fn result under "n", every source
   was constructed before, every class exactly once. *)
Theorem C16_small_space_whole_argument_targets :
  forall shs ls, In shs layouts_whole -> In ls (link_seqs_whole (decls_from 0 shs)) ->
    (case_ok nofix (decls_from 0 shs, ls) && case_ok_fixed (decls_from 0 shs, ls)) = true.
Proof. exact small_space_whole_ok. Qed.
Print Assumptions C16_small_space_whole_argument_targets.

(* histories with rejections: every 3-link sequence over the layouts with <= 2 constructed objects (25,120 cases, both
   variants), every rejection caught and the remaining links still added: inside the guard (evaluated on the accepted
   links) exactly the links that close a cycle between the objects are rejected and the final construction obeys the
   accepted links. *)
Theorem C16_small_space_histories_with_rejections :
  forall shs ls, In shs layouts_upto2 -> In ls (link_seqs3 (components (decls_from 0 shs))) ->
    (case_ok_cont nofix (decls_from 0 shs, ls) && case_ok_cont allfix (decls_from 0 shs, ls)) = true.
Proof. exact small_space_cont_ok. Qed.
Print Assumptions C16_small_space_histories_with_rejections.

(* ==== 5. witnesses: hypotheses are satisfiable, findings refute the unguarded statement ================================ *)

Definition key (l : list str) : str := join_dot l.
Definition mk (j : nat) (src : list str) (tgt : list str) (fn : bool) : link :=
  {| l_id := j; l_srcs := [key src]; l_target := key (tgt ++ [param j]); l_fn := fn |}.

(* a: class-typed argument with a nested object, b, c: class groups *)
Definition ex_ds : list decl := decls_from 0 [ShSN; ShG; ShG].
(* b.at --> a.init_args.sub.init_args.l0 ;  c --> b.l1 (through a compute_fn): chain c, b, a with a nested target *)
Definition ex_ls : list link :=
  [mk 0 [nm 1; s_at] [nm 0; s_init_args; s_sub; s_init_args] false; mk 1 [nm 2] [nm 1] true].

Example C16_hypotheses_satisfiable :
  let cs := components ex_ds in
  exists o l k cS cT,
    inst_order nofix cs ex_ls = Order o /\ enclosing_ok nofix cs ex_ls = true /\
    In l ex_ls /\ In k (l_srcs l) /\ resolve_src cs k = Some cS /\ In cT cs /\
    matches (c_dest cT) (l_target l) = true /\
    map c_dest (comp_sequence cs o) = [nm 2; nm 1; nm 0] /\        (* c, then b, then a *)
    link_class nofix ex_ds ex_ls = 0%N /\
    link_spec_ok ex_ds ex_ls (run nofix ex_ds ex_ls) = true /\
    length (snd (run nofix ex_ds ex_ls)) = 5.                        (* 4 constructor calls + 1 compute_fn call *)
Proof.
  exists [nm 2; nm 1; key [nm 0; s_init_args; s_sub]],
         (mk 0 [nm 1; s_at] [nm 0; s_init_args; s_sub; s_init_args] false), (key [nm 1; s_at]),
         {| c_dest := nm 1; c_kind := KGroup; c_units := [nm 1] |},
         {| c_dest := nm 0; c_kind := KType; c_units := [key [nm 0; s_init_args; s_sub]; nm 0] |}.
  vm_compute. repeat split; try reflexivity; auto 10.
Qed.

(* a three-link cycle a -> b -> c -> a between class groups: the third call is the one that raises *)
Definition ex_cyc_ds : list decl := decls_from 0 [ShG; ShG; ShG].
Definition ex_cyc_ls : list link := [mk 0 [nm 0] [nm 1] false; mk 1 [nm 1; s_at] [nm 2] false; mk 2 [nm 2] [nm 0] true].
Example C16_cycle_example :
  add_links nofix (components ex_cyc_ds) ex_cyc_ls = Some 2 /\
  run nofix ex_cyc_ds ex_cyc_ls = (OLinkErr 2, []) /\
  link_spec_ok ex_cyc_ds ex_cyc_ls (run nofix ex_cyc_ds ex_cyc_ls) = true.
Proof. vm_compute. auto. Qed.

(* an attribute whose value is None (or 0, "", False) is a value like any other: c.an --> a.l0 hands None to a, and
   compute_fn(c.ae, c.an) is called with both arguments ("" and None) *)
Definition ex_none_ds : list decl := decls_from 0 [ShG; ShG; ShS].
Definition ex_none_ls : list link :=
  [mk 0 [nm 2; s_an] [nm 0] false;
   {| l_id := 1; l_srcs := [key [nm 2; s_ae]; key [nm 2; s_an]]; l_target := key [nm 1; param 1]; l_fn := true |}].
Example C16_none_valued_attribute_is_passed :
  run allfix ex_none_ds ex_none_ls
  = (OOk, [ENew (nm 2) []; ECall 1 [BLit 2; BLit 0]; ENew (nm 1) [(1, VFn 1 [BLit 2; BLit 0])];
           ENew (nm 0) [(0, VBase (BLit 0))]]) /\
  link_spec_ok ex_none_ds ex_none_ls (run allfix ex_none_ds ex_none_ls) = true /\
  (* a run that drops the None argument or leaves the target at its default is refused by the spec *)
  link_spec_ok ex_none_ds ex_none_ls
    (OOk, [ENew (nm 2) []; ECall 1 [BLit 2]; ENew (nm 1) [(1, VFn 1 [BLit 2])]; ENew (nm 0) []]) = false.
Proof. vm_compute. auto. Qed.

(* a: class group added with instantiate=False; b: class group whose parameter child is a class-typed argument.
   b.child --fn--> a.l0: both b.child and b are constructed, then the final pass calls compute_fn on the b.child object
   (taken from the record of instantiated components: cfg no longer leads to it) and the returned cfg holds the result.
   On the pinned tree (nofix) the same link raises NSKeyError: class 2, finding source-under-group. *)
Definition ex_sink_ds : list decl := decls_from 0 [ShGI; ShGN].
Definition ex_sink_ls : list link :=
  [{| l_id := 0; l_srcs := [key [nm 1; s_child]]; l_target := key [nm 0; param 0]; l_fn := true |}].
Example C16_final_pass_target_example :
  run allfix ex_sink_ds ex_sink_ls
  = (OOk, [ENew (key [nm 1; s_child]) []; ENew (nm 1) []; ECall 0 [BObj (key [nm 1; s_child])];
           ECfg (nm 0) [(0, VFn 0 [BObj (key [nm 1; s_child])])]]) /\
  link_class allfix ex_sink_ds ex_sink_ls = 0%N /\
  link_spec_ok ex_sink_ds ex_sink_ls (run allfix ex_sink_ds ex_sink_ls) = true /\
  run nofix ex_sink_ds ex_sink_ls = (OExc, []) /\ link_class nofix ex_sink_ds ex_sink_ls = 2%N /\
  In [ShGI; ShGN] layouts_sink /\ In ex_sink_ls (link_seqs_sink ex_sink_ds).
Proof. vm_compute. repeat split; try reflexivity; repeat (try (left; reflexivity); right). Qed.

(* a: a whole class-typed argument that is a link target; b: class group; c: class-typed argument.
   c --> a (the whole argument receives the c object) and c.at --fn--> b.l1: c, compute_fn, b are constructed / called in
   that order and the returned cfg holds the c object under "a".  An observation in which cfg["a"] was left empty is
   refused by the spec; a source attribute holding 0 is refused by the type check of the target (the model raises like the
   code: an ill-typed link, not part of the enumerated space). *)
Definition ex_whole_ds : list decl := decls_from 0 [ShTI; ShG; ShS].
Definition ex_whole_ls : list link :=
  [{| l_id := 0; l_srcs := [nm 2]; l_target := nm 0; l_fn := false |}; mk 1 [nm 2; s_at] [nm 1] true].
Example C16_whole_argument_target_example :
  run allfix ex_whole_ds ex_whole_ls
  = (OOk, [ENew (nm 2) []; ECall 1 [BAttr (nm 2)];
           ENew (nm 1) [(1, VFn 1 [BAttr (nm 2)])]; ECfg (nm 0) [(0, VBase (BObj (nm 2)))]]) /\
  link_class allfix ex_whole_ds ex_whole_ls = 0%N /\
  link_spec_ok ex_whole_ds ex_whole_ls (run allfix ex_whole_ds ex_whole_ls) = true /\
  link_spec_ok ex_whole_ds ex_whole_ls
    (OOk, [ENew (nm 2) []; ECall 1 [BAttr (nm 2)];
           ENew (nm 1) [(1, VFn 1 [BAttr (nm 2)])]; ECfg (nm 0) []]) = false /\
  run allfix ex_whole_ds [{| l_id := 0; l_srcs := [key [nm 2; s_az]]; l_target := nm 0; l_fn := false |}] = (OExc, []) /\
  In [ShTI; ShG; ShS] layouts_whole /\ length (link_seqs_whole ex_whole_ds) = 264 /\
  existsb whole_target ex_whole_ls = true /\ whole_space_size = 3976.
Proof. vm_compute. repeat split; try reflexivity; repeat (try (left; reflexivity); right). Qed.

(* a -> b.l0 accepted; b.at -> a.l1 closes a cycle: rejected (call 1); the caller goes on: b -fn-> c.l2 is accepted, and
   instantiate_classes builds a, b, c with the two accepted links applied *)
Definition ex_cont_ls : list link := [mk 0 [nm 0] [nm 1] false; mk 1 [nm 1; s_at] [nm 0] false; mk 2 [nm 1] [nm 2] true].
Example C16_history_with_rejection_example :
  run_cont allfix ex_cyc_ds ex_cont_ls
  = ([1], (OOk, [ENew (nm 0) []; ENew (nm 1) [(0, VBase (BObj (nm 0)))]; ECall 2 [BObj (nm 1)];
                 ENew (nm 2) [(2, VFn 2 [BObj (nm 1)])]])) /\
  link_spec_cont_ok ex_cyc_ds ex_cont_ls [1] (snd (run_cont allfix ex_cyc_ds ex_cont_ls)) = true /\
  (* had the rejected link stayed in the parser, the third call would be refused too: the spec does not accept that *)
  link_spec_cont_ok ex_cyc_ds ex_cont_ls [1; 2] (OOk, [ENew (nm 0) []; ENew (nm 1) [(0, VBase (BObj (nm 0)))]; ENew (nm 2) []]) = false.
Proof. vm_compute. auto. Qed.

Example C16_small_space_nontrivial :
  length layouts_upto3 = 27 /\ length layouts_flat4 = 16 /\
  length (link_seqs (components (decls_from 0 [ShSN; ShG]))) = 600 /\
  In [ShSN; ShG] (layouts_upto3 ++ layouts_flat4).
Proof. vm_compute. repeat split; try reflexivity. repeat (try (left; reflexivity); right). Qed.

(* ---- finding nested-target-order (class 1) --------------------------------------------------------------------------
   b.at --> a.init_args.sub.init_args.l0 ;  a --> c.l1   (a: class-typed argument with nested object; b, c: class groups).
   Acyclic, accepted by link_arguments; the order puts a before b; instantiate_classes raises. *)
Definition nto_ls : list link :=
  [mk 0 [nm 1; s_at] [nm 0; s_init_args; s_sub; s_init_args] false; mk 1 [nm 0] [nm 2] false].

Theorem C16_nested_target_order_refuted :
  exists ds ls o,
    let cs := components ds in
    first_cycle (all_units ds) [] (flat_map (fun l => match spec_link (all_units ds) (sinks_of ds) l with Some x => [x] | None => [] end) ls) 0 = None /\
    add_links nofix cs ls = None /\                                  (* acyclic and accepted *)
    inst_order nofix cs ls = Order o /\
    map c_dest (comp_sequence cs o) = [nm 0; nm 2; nm 1] /\          (* a is built before b, which feeds a's nested object *)
    enclosing_ok nofix cs ls = false /\ link_class nofix ds ls = 1%N /\
    run nofix ds ls = (OExc, []) /\                                  (* AttributeError out of instantiate_classes *)
    link_spec_ok ds ls (run nofix ds ls) = false /\
    (* with fixes/C16-nested-target-order.patch: inside the guard, order b, a, c, and the spec holds *)
    link_class allfix ds ls = 0%N /\ link_spec_ok ds ls (run allfix ds ls) = true.
Proof. exists ex_ds, nto_ls. eexists. vm_compute. repeat split; reflexivity. Qed.
Print Assumptions C16_nested_target_order_refuted.

(* ---- finding source-under-group (class 2) ---------------------------------------------------------------------------
   add_class_arguments(Parent, "b") with Parent(child: Child);  b.at --> a.l0 ;  b.child --> a.l1 *)
Definition sug_ds : list decl := decls_from 0 [ShG; ShGN].
Definition sug_ls : list link := [mk 0 [nm 1; s_at] [nm 0] false; mk 1 [nm 1; s_child] [nm 0] false].

Theorem C16_source_under_group_refuted :
  exists ds ls,
    add_links nofix (components ds) ls = None /\
    enclosing_ok nofix (components ds) ls = true /\                   (* the ORDER is right (theorem 2 applies) ... *)
    link_class nofix ds ls = 2%N /\
    run nofix ds ls = (OExc, []) /\                                   (* ... yet reading the source raises NSKeyError *)
    link_spec_ok ds ls (run nofix ds ls) = false /\
    link_class allfix ds ls = 0%N /\ link_spec_ok ds ls (run allfix ds ls) = true.
Proof. exists sug_ds, sug_ls. vm_compute. repeat split; reflexivity. Qed.
Print Assumptions C16_source_under_group_refuted.

(* ---- finding nested-self-link (class 3) -----------------------------------------------------------------------------
   a.at --> a.init_args.sub.init_args.l0: the attribute of a needs a, a needs its nested object, which needs a.at — a
   cycle; link_arguments takes it for a link nested inside a and accepts it; instantiate_classes raises ValueError
   (both variants of the code). *)
Definition nsl_ds : list decl := decls_from 0 [ShSN].
Definition nsl_ls : list link := [mk 0 [nm 0; s_at] [nm 0; s_init_args; s_sub; s_init_args] false].

Theorem C16_nested_self_link_refuted :
  exists ds ls,
    link_spec_ok ds ls (OLinkErr 0, []) = true /\                     (* the property demands: rejected at call 0 *)
    add_links nofix (components ds) ls = None /\ add_links allfix (components ds) ls = None /\
    run nofix ds ls = (OExc, []) /\ run allfix ds ls = (OExc, []) /\
    link_class nofix ds ls = 3%N /\ link_class allfix ds ls = 3%N.
Proof. exists nsl_ds, nsl_ls. vm_compute. repeat split; reflexivity. Qed.
Print Assumptions C16_nested_self_link_refuted.

(* C16 — property theorems only. Each is closed by `exact` of a lemma proved in Proofs/. *)
From JV Require Import Lib.Base Model.Graph Proofs.GraphProofs.
From Coq Require Import Permutation.

(* The DFS of DirectedGraph.get_topological_order, for a graph with ANY number n of nodes and any
   successor lists with targets < n: it never runs out of fuel; when it answers with an order, that
   order is a duplicate-free permutation of all nodes in which every edge points forward, and the
   graph has no cycle; when it reports a cycle u --> v, then u -> v is an edge and v reaches u. *)
Theorem C16_topo_sort_correct :
  forall (succ : nat -> list nat) (n : nat),
    (forall s t, s < n -> In t (succ s) -> t < n) ->
    match topo_idx n succ with
    | TOk _ o => Permutation o (seq 0 n) /\ NoDup o /\
                 (forall u v, u < n -> In v (succ u) -> before o u v) /\
                 (forall u v, u < n -> In v (succ u) -> ~ reach succ v u)
    | TCycle u v => In v (succ u) /\ reach succ v u
    | TFuel => False
    end.
Proof. exact topo_idx_correct. Qed.
Print Assumptions C16_topo_sort_correct.

(* C11 — property theorems only. *)
From JV Require Import Lib.Base Model.Ns.
Example placeholder_true : True. Proof. exact I. Qed.

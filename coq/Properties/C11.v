(* C11 — property theorems only. Each is closed by `exact` of a lemma proved in Proofs/*.v, or by kernel evaluation of
   a closed witness.
   PART 1 speaks about the CURRENT code: jsonargparse/_namespace.py after the repair b856eae
   (fixes/C11-path-through-dict.patch), modelled by Model/C11NsFixed.v. There is NO path-through-dict guard any more.
   PART 2 holds for any stored tree, whatever the code version (items, as_dict, ==).
   PART 3 keeps the theorems about the model of the code BEFORE the repair (Model/Ns.v), names suffixed `_prefix`,
   with path_through_dict_refuted as the regression witness of the repaired defect. *)
From JV Require Import Lib.Base Model.Ns Model.NsRun Model.NsGuard Model.C11NsFixed Model.C11FixedGuard
  Spec.NestedDict Spec.NestedDictRun Gen.C11Clash Corr.C11Judge
  Proofs.NsProofs Proofs.C11MoreProofs Proofs.C11FixedProofs Proofs.C11EqProofs Proofs.C11FixedRefine.

(* ======================================= PART 1: the current code ======================================= *)

(* THE REFINEMENT. For ANY clash set and ANY history (no bound on its length, on the depth of keys or on the size of
   values) of the operations
       ns[k]=v, setattr(ns,k,v), ns[k], ns.get(k,d), k in ns, del ns[k], ns.pop(k,d),
       ns.update(v,k,only_unset) for a non-Namespace v, ns.update(namespace,k,only_unset) (every leaf item of the
       source assigned under prefix k, only_unset tested per item against the CURRENT state, no rollback when an
       item key is rejected midway), ns.clone(), items/keys/values(branches), ns.as_dict()
   starting from the empty Namespace, with
     - key segments that do not start with U+200B (wf_key; keys the code rejects — a space, an empty segment — are
       INCLUDED: model and spec must both fail and leave the state alone),
     - for update(namespace, k): every key prefix+item_key it addresses is such a key (upd_keys_ok),
     - values in stored form along every path (wf2: every Namespace reachable through Namespaces and dicts carries the
       attribute names add_clash_mark produces; the keys of dicts are the user's and unconstrained),
   the model of jsonargparse.Namespace answers every step exactly as the nested dictionary does (modulo removing the
   clash marks from what is shown to the user), and after every step the stored __dict__ tree, seen through abs_d, IS
   the nested dictionary. Dotted keys THROUGH dict-valued leaves (and through Namespaces stored inside dicts) are
   included: reading, membership, deletion, pop, assignment (also creating intermediate levels inside a dict). *)
Theorem ns_refines_dict :
  forall (clash : list str) (ops : list op),
    hist_class_fx clash ops = 0%N ->
    Forall2 rel_out (run_fixed clash [] ops) (run_spec [] ops).
Proof. exact ns_refines_dict_fx_proof. Qed.
Print Assumptions ns_refines_dict.

(* what class 0 says, spelled out: only well-formedness and the proved core of operations (core_op_fx = the core of
   Model/NsGuard.v and update(namespace); outside: Namespace(dict), dict_to_namespace, ==, step-by-step get as steps) *)
Theorem hist_class_0_means :
  forall clash ops,
    hist_class_fx clash ops = 0%N <->
    forallb (wf_op_fx clash) ops = true /\ forallb core_op_fx ops = true.
Proof. exact hist_class_fx_0. Qed.
Print Assumptions hist_class_0_means.

(* one step, from ANY well-formed stored tree (not only from states reachable from empty) *)
Theorem step_commutes :
  forall clash root o,
    wf2 clash (VNs root) = true -> wf_op_fx clash o = true -> core_op_fx o = true ->
    forall ou r md, step_fixed clash root o = (ou, r, md) ->
      step_spec (abs_d root) o = (unmark_out ou, abs_d r) /\ wf2 clash (VNs r) = true.
Proof. exact step_commutes_fx. Qed.
Print Assumptions step_commutes.

(* update(namespace, key, only_unset) on its own, from ANY well-formed tree and for ANY source namespace in stored form
   (Namespaces inside lists / dicts of the source included; the source need not be "plain"): the model's loop
   `for key, val in value.items(): if not only_unset or prefix+key not in self: self[prefix+key] = val` is the
   dictionary's fold of (membership test;) path assignment over the leaf items of the source, also when the addressed
   paths go through dict values of the target, and a rejected item key stops both at the same item *)
Theorem update_namespace_refines :
  forall clash root src k only_unset,
    wf2 clash (VNs root) = true -> wf2 clash src = true -> upd_keys_ok src k = true ->
    forall ou r md, step_fixed clash root (OUpdNs src k only_unset) = (ou, r, md) ->
      step_spec (abs_d root) (OUpdNs src k only_unset) = (unmark_out ou, abs_d r) /\ wf2 clash (VNs r) = true.
Proof. exact step_updns_fx. Qed.
Print Assumptions update_namespace_refines.

(* the same from any well-formed start state, for histories *)
Theorem ns_refines_dict_from :
  forall clash ops root,
    wf2 clash (VNs root) = true ->
    forallb (wf_op_fx clash) ops = true -> forallb core_op_fx ops = true ->
    Forall2 rel_out (run_fixed clash root ops) (run_spec (abs_d root) ops).
Proof. exact run_refines_fx. Qed.
Print Assumptions ns_refines_dict_from.

(* one dotted string = step by step, for keys of ANY depth and THROUGH dict values, with no hypothesis on the tree:
   reading s1.s2.....sn as one dotted string is reading ns[s1][s2]...[sn], whenever the segments are names
   (no dot, no space, not empty, not starting with the clash mark) *)
Theorem dotted_eq_stepwise :
  forall clash a rest root,
    seg_ok2 a = true -> forallb seg_ok2 rest = true ->
    ns_get_steps clash (join_segs a rest) root = fx_getitem clash (join_segs a rest) root.
Proof. exact stepwise_eq_dotted_fx_proof. Qed.
Print Assumptions dotted_eq_stepwise.

(* names that coincide with Namespace's own attributes are stored and returned like any other: the user-visible
   outputs and dictionaries do not depend on the clash set at all *)
Theorem clash_names_transparent :
  forall c1 c2 ops,
    hist_class_fx c1 ops = 0%N -> hist_class_fx c2 ops = 0%N ->
    Forall2 (fun m1 m2 : out * alist =>
               unmark_out (fst m1) = unmark_out (fst m2) /\ abs_d (snd m1) = abs_d (snd m2))
            (run_fixed c1 [] ops) (run_fixed c2 [] ops).
Proof. exact clash_names_transparent_fx_proof. Qed.
Print Assumptions clash_names_transparent.

(* a failing operation leaves the Namespace as it was (update(namespace) has no rollback and is excluded) — no
   well-formedness needed *)
Theorem failed_op_changes_nothing :
  forall clash root o r md,
    match o with OUpdNs _ _ _ => False | _ => True end ->
    step_fixed clash root o = (OutFail, r, md) -> r = root.
Proof. exact failed_op_changes_nothing_fx_proof. Qed.
Print Assumptions failed_op_changes_nothing.

(* ---- the hypotheses are satisfiable by a non-trivial history (with dict-valued leaves) ------------------- *)
Definition s_a : str := [97]%N.
Definition s_b : str := [98]%N.
Definition s_c : str := [99]%N.
Definition s_items : str := [105;116;101;109;115]%N.
Definition s_a_b : str := s_a ++ DOT :: s_b.
Definition s_a_items : str := s_a ++ DOT :: s_items.
Definition s_a_b_items : str := s_a ++ DOT :: s_b ++ DOT :: s_items.
Definition s_a_c_items : str := s_a ++ DOT :: s_c ++ DOT :: s_items.
Definition s_bad : str := s_a ++ DOT :: DOT :: s_b.

Definition example_history : list op :=
  [ OSet s_a (VDict [(s_b, VInt 1); (s_items, VInt 2)]);      (* a = {'b': 1, 'items': 2}: a dict-valued leaf *)
    OGet s_a_b; OContains s_a_items;                         (* read / membership THROUGH the dict *)
    OSet s_a_items (VInt 3);                                 (* clash name inside the dict: stored without mark *)
    OSet s_a_c_items (VNs [(ZW :: s_items, VList [VInt 4])]);   (* creates {'c': {...}} inside; a Namespace in a dict *)
    OGet (s_a_c_items ++ DOT :: s_items);                    (* through dict, dict, Namespace *)
    OPop s_a_b (VInt 9); ODel s_a_items; OGetD s_a_b (VInt 9);
    OSetAttr s_items (VNs [(ZW :: s_items, VInt 5)]);
    OUpdV (VStr s_b) (Some s_a_b_items) true;
    OSet s_bad (VInt 0);                                     (* rejected key: both fail *)
    OItems true; OAsDict; ODel s_a; OGet s_a; OClone ].

Example hypotheses_satisfiable : hist_class_fx clash_names example_history = 0%N.
Proof. vm_compute. reflexivity. Qed.

Example example_is_nontrivial :
  map fst (run_spec [] example_history) =
  [ OutUnit; OutVal (VInt 1); OutBool true; OutUnit; OutUnit; OutVal (VList [VInt 4]);
    OutVal (VInt 1); OutUnit; OutVal (VInt 9); OutUnit; OutUnit; OutFail;
    OutItems [ (s_a, VDict [ (s_c, VDict [(s_items, VNs [(s_items, VList [VInt 4])])]);
                             (s_b, VDict [(s_items, VStr s_b)]) ]);
               (s_items, VNs [(s_items, VInt 5)]);
               (s_items ++ DOT :: s_items, VInt 5) ];
    OutVal (VDict [ (s_a, VDict [ (s_c, VDict [(s_items, VNs [(s_items, VList [VInt 4])])]);
                                  (s_b, VDict [(s_items, VStr s_b)]) ]);
                    (s_items, VDict [(s_items, VInt 5)]) ]);
    OutUnit; OutFail; OutBool true ].
Proof. vm_compute. reflexivity. Qed.

(* the hypotheses of update_namespace_refines / of the refinement with update(namespace) steps are satisfiable:
   a dict-valued target leaf; only_unset decided through the dict ('a.b' is set, 'a.items' is not; the clash name is
   stored WITHOUT mark inside the dict); a source with a Namespace inside a list (not "plain"); a prefix that creates
   dicts inside the dict; an item key the code rejects ('b.a ' has a space: update fails, nothing stored) *)
Definition s_a_c : str := s_a ++ DOT :: s_c.
Definition update_history : list op :=
  [ OSet s_a (VDict [(s_b, VInt 1)]);
    OUpdNs (VNs [(s_a, VNs [(s_b, VInt 7); (ZW :: s_items, VList [VNs [(ZW :: s_items, VInt 1)]])])]) None true;
    OUpdNs (VNs [(s_b, VInt 2); (ZW :: s_items, VNs [(s_c, VNone)])]) (Some s_a_c) false;
    OUpdNs (VNs [(s_a ++ [SPACE], VInt 2)]) (Some s_b) false;
    OGet s_a ].

Example update_hypotheses_satisfiable :
  hist_class_fx clash_names update_history = 0%N /\
  map fst (run_spec [] update_history) =
  [ OutUnit; OutUnit; OutUnit; OutFail;
    OutVal (VDict [ (s_b, VInt 1);
                    (s_items, VList [VNs [(s_items, VInt 1)]]);
                    (s_c, VDict [(s_b, VInt 2); (s_items, VDict [(s_c, VNone)])]) ]) ].
Proof. vm_compute. split; reflexivity. Qed.

(* the hypotheses of dotted_eq_stepwise hold for a three-segment key through a dict and a clash name *)
Example stepwise_hypotheses_satisfiable :
  let root := [(s_a, VDict [(s_b, VNs [(ZW :: s_items, VInt 5)])])] in
  seg_ok2 s_a = true /\ forallb seg_ok2 [s_b; s_items] = true /\
  join_segs s_a [s_b; s_items] = s_a_b_items /\
  ns_get_steps clash_names s_a_b_items root = Ok (VInt 5) /\
  fx_getitem clash_names s_a_b_items root = Ok (VInt 5).
Proof. vm_compute. repeat split; reflexivity. Qed.

(* the witness of path_through_dict_refuted (PART 3) on the current code: ns['a']={'b':1}; ns['a.b'] reads 1 *)
Example fixed_repairs_witness :
  map fst (run_fixed clash_names [] [OSet s_a (VDict [(s_b, VInt 1)]); OGet s_a_b])
  = [OutUnit; OutVal (VInt 1)] /\
  fx_ok [OSet s_a (VDict [(s_b, VInt 1)]); OGet s_a_b] = true.
Proof. vm_compute. split; reflexivity. Qed.

(* a kernel-evaluated finite product that predates the general proof and is kept as an independent cross-check of
   Model/C11NsFixed.v against the spec with operations OUTSIDE the proved core too (Namespace(dict),
   update(namespace), step-by-step get): every history of length <= 2 over the 73 operations fx_ops and every history
   of length 3 that starts by storing a dict (fx_firsts). fx_ok compares outputs and whole states. *)
Theorem fixed_refines_through_dicts :
  (forall a, In a fx_ops -> fx_ok [a] = true) /\
  (forall a b, In a fx_ops -> In b fx_ops -> fx_ok [a; b] = true) /\
  (forall a b c, In a fx_firsts -> In b fx_ops -> In c fx_ops -> fx_ok [a; b; c] = true).
Proof. exact fixed_refines_through_dicts_proof. Qed.
Print Assumptions fixed_refines_through_dicts.

(* ============================= PART 2: any stored tree, any version of the code ============================= *)

(* the judge compares states as values: that is the same comparison *)
Theorem abs_state_is_unmarked_tree :
  forall r, node_val (Branch (abs_d r)) = unmark_val (VNs r).
Proof. exact abs_is_unmark. Qed.
Print Assumptions abs_state_is_unmarked_tree.

(* items(branches) of any tree in stored form are the items of the nested dictionary (keys()/values() are its
   projections), for values of any depth; dict-valued leaves are leaves *)
Theorem items_agree :
  forall clash br root,
    wf2 clash (VNs root) = true ->
    map (fun kv => (fst kv, unmark_val (snd kv))) (ns_items br root) = spec_items br (abs_d root).
Proof. exact items_agree_fx_proof. Qed.
Print Assumptions items_agree.

(* as_dict of ANY stored tree (no well-formedness) is the nested dictionary itself, Namespaces held in list / dict
   values included *)
Theorem as_dict_agrees :
  forall root, unmark_val (ns_as_dict root) = spec_as_dict (abs_d root).
Proof. exact as_dict_agrees_proof. Qed.
Print Assumptions as_dict_agrees.

(* Python's == on two stored trees (argparse's Namespace.__eq__: equality of __dict__; dict equality does not see
   insertion order; a Namespace never equals a dict, a list never a tuple) is == on the user-visible nested
   dictionaries, for ANY clash set and ANY two values whose Namespaces — at every depth, also inside lists, tuples
   and dicts — carry names in stored form (wf_deep). *)
Theorem eq_agrees :
  forall clash a b,
    wf_deep clash a = true -> wf_deep clash b = true ->
    py_eq a b = py_eq (unmark_val a) (unmark_val b).
Proof. exact eq_agrees_proof. Qed.
Print Assumptions eq_agrees.

(* satisfiable and non-trivial: two Namespaces holding the same entries (one a clash name, one a list of Namespaces)
   in a different order are equal, and differ once a leaf differs *)
Example eq_hypotheses_satisfiable :
  let x := VNs [(ZW :: s_items, VInt 1); (s_a, VList [VNs [(ZW :: s_items, VNone)]])] in
  let y := VNs [(s_a, VList [VNs [(ZW :: s_items, VNone)]]); (ZW :: s_items, VInt 1)] in
  let z := VNs [(s_a, VList [VNs [(ZW :: s_items, VInt 0)]]); (ZW :: s_items, VInt 1)] in
  wf_deep clash_names x = true /\ wf_deep clash_names y = true /\ wf_deep clash_names z = true /\
  py_eq x y = true /\ py_eq (unmark_val x) (unmark_val y) = true /\ py_eq x z = false.
Proof. vm_compute. repeat split; reflexivity. Qed.

(* ========================= PART 3: the code BEFORE the repair (Model/Ns.v), kept ========================= *)
(* The refinement held only under the guard "no addressed path meets a dict-valued leaf" (hist_class = 0). *)
Theorem ns_refines_dict_prefix :
  forall (clash : list str) (ops : list op),
    hist_class clash ops = 0%N ->
    Forall2 rel_out (fst (run_model clash [] ops)) (run_spec [] ops).
Proof. exact ns_refines_dict_proof. Qed.
Print Assumptions ns_refines_dict_prefix.

Theorem hist_class_0_means_prefix :
  forall clash ops,
    hist_class clash ops = 0%N <->
    snd (run_model clash [] ops) = false /\
    forallb (wf_op clash) ops = true /\ forallb core_op ops = true.
Proof. exact hist_class_0_iff. Qed.
Print Assumptions hist_class_0_means_prefix.

Theorem step_commutes_prefix :
  forall clash root o,
    wf_val clash (VNs root) = true -> wf_op clash o = true -> core_op o = true ->
    forall ou r, step_model clash root o = (ou, r, false) ->
      step_spec (abs_d root) o = (unmark_out ou, abs_d r) /\ wf_val clash (VNs r) = true.
Proof. exact NsProofs.step_commutes. Qed.
Print Assumptions step_commutes_prefix.

Theorem ns_refines_dict_from_prefix :
  forall clash ops root,
    wf_val clash (VNs root) = true ->
    forallb (wf_op clash) ops = true -> forallb core_op ops = true ->
    snd (run_model clash root ops) = false ->
    Forall2 rel_out (fst (run_model clash root ops)) (run_spec (abs_d root) ops).
Proof. exact run_refines. Qed.
Print Assumptions ns_refines_dict_from_prefix.

(* before the repair: ns['a.rest'] is ns['a']['rest'] when ns['a'] is a Namespace and fails when ns['a'] is absent or a
   non-dict leaf; when ns['a'] is a dict the two differed *)
Theorem dotted_eq_stepwise_prefix :
  forall clash a rest root,
    mem_N DOT a = false -> mem_N SPACE a = false -> is_empty a = false ->
    match ns_getitem clash a root with
    | Ok (VNs d') => ns_getitem clash (a ++ DOT :: rest) root = ns_getitem clash rest d'
    | Ok (VDict _) => True
    | _ => ns_getitem clash (a ++ DOT :: rest) root = Fail
    end.
Proof. exact dotted_eq_stepwise_proof. Qed.
Print Assumptions dotted_eq_stepwise_prefix.

Theorem stepwise_eq_dotted_prefix :
  forall clash a rest root,
    seg_ok a = true -> forallb seg_ok rest = true ->
    meets_dict clash (join_segs a rest) root = false ->
    ns_get_steps clash (join_segs a rest) root = ns_getitem clash (join_segs a rest) root.
Proof. exact stepwise_eq_dotted_proof. Qed.
Print Assumptions stepwise_eq_dotted_prefix.

Theorem clash_names_transparent_prefix :
  forall c1 c2 ops,
    hist_class c1 ops = 0%N -> hist_class c2 ops = 0%N ->
    Forall2 (fun m1 m2 : out * alist =>
               unmark_out (fst m1) = unmark_out (fst m2) /\ abs_d (snd m1) = abs_d (snd m2))
            (fst (run_model c1 [] ops)) (fst (run_model c2 [] ops)).
Proof. exact clash_names_transparent_proof. Qed.
Print Assumptions clash_names_transparent_prefix.

Theorem failed_op_changes_nothing_prefix :
  forall clash root o r md,
    match o with OUpdNs _ _ _ => False | _ => True end ->
    step_model clash root o = (OutFail, r, md) -> r = root.
Proof. exact failed_op_changes_nothing_proof. Qed.
Print Assumptions failed_op_changes_nothing_prefix.

(* REGRESSION WITNESS of the repaired defect: on the model of the old code, outside the guard, the refinement FAILED —
   ns['a'] = {'b': 1}; ns['a.b'] — the nested dictionary answers 1, the old Namespace raised *)
Lemma path_through_dict_refuted :
  exists ops,
    forallb (wf_op clash_names) ops = true /\ forallb core_op ops = true /\
    hist_class clash_names ops = 1%N /\
    ~ Forall2 rel_out (fst (run_model clash_names [] ops)) (run_spec [] ops).
Proof.
  exists [OSet s_a (VDict [(s_b, VInt 1)]); OGet s_a_b].
  repeat split; try (vm_compute; reflexivity).
  intros H. inversion H as [|? ? ? ? _ H2]; subst. inversion H2 as [|? ? ? ? [H3 _] _]; subst.
  vm_compute in H3. discriminate H3.
Qed.
Print Assumptions path_through_dict_refuted.

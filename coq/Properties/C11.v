(* C11 — property theorems only. Each is closed by `exact` of a lemma proved in Proofs/NsProofs.v,
   or by kernel evaluation of a closed witness. *)
From JV Require Import Lib.Base Model.Ns Model.NsRun Model.NsGuard Spec.NestedDict Spec.NestedDictRun
  Gen.C11Clash Model.C11NsFixed Corr.C11Judge Proofs.NsProofs Proofs.C11MoreProofs Proofs.C11FixedProofs
  Proofs.C11EqProofs.

(* THE REFINEMENT. For ANY clash set and ANY history (no bound on its length, on the depth of keys
   or on the size of values) of the operations
       ns[k]=v, setattr(ns,k,v), ns[k], ns.get(k,d), k in ns, del ns[k], ns.pop(k,d),
       ns.update(v,k,only_unset) for a non-Namespace v, ns.clone(), items/keys/values(branches), ns.as_dict()
   starting from the empty Namespace, with
     - key segments that do not start with U+200B (wf_key; keys the code rejects — a space, an empty
       segment — are INCLUDED: model and spec must both fail and leave the state alone),
     - Namespace values whose stored attribute names are what add_clash_mark produces (wf_val),
     - no addressed path meeting a dict-valued leaf (the guard, class 1 = the known finding),
   the model of jsonargparse.Namespace answers every step exactly as the nested dictionary does
   (modulo removing the clash marks from what is shown to the user), and after every step the stored
   __dict__ tree, seen through abs_d, IS the nested dictionary. *)
Theorem ns_refines_dict :
  forall (clash : list str) (ops : list op),
    hist_class clash ops = 0%N ->
    Forall2 rel_out (fst (run_model clash [] ops)) (run_spec [] ops).
Proof. exact ns_refines_dict_proof. Qed.
Print Assumptions ns_refines_dict.

(* what class 0 says, spelled out *)
Theorem hist_class_0_means :
  forall clash ops,
    hist_class clash ops = 0%N <->
    snd (run_model clash [] ops) = false /\
    forallb (wf_op clash) ops = true /\ forallb core_op ops = true.
Proof. exact hist_class_0_iff. Qed.
Print Assumptions hist_class_0_means.

(* one step, from ANY well-formed stored tree (not only from states reachable from empty) *)
Theorem step_commutes :
  forall clash root o,
    wf_val clash (VNs root) = true -> wf_op clash o = true -> core_op o = true ->
    forall ou r, step_model clash root o = (ou, r, false) ->
      step_spec (abs_d root) o = (unmark_out ou, abs_d r) /\ wf_val clash (VNs r) = true.
Proof. exact NsProofs.step_commutes. Qed.
Print Assumptions step_commutes.

(* the same from any well-formed start state, for histories *)
Theorem ns_refines_dict_from :
  forall clash ops root,
    wf_val clash (VNs root) = true ->
    forallb (wf_op clash) ops = true -> forallb core_op ops = true ->
    snd (run_model clash root ops) = false ->
    Forall2 rel_out (fst (run_model clash root ops)) (run_spec (abs_d root) ops).
Proof. exact run_refines. Qed.
Print Assumptions ns_refines_dict_from.

(* the judge compares states as values: that is the same comparison *)
Theorem abs_state_is_unmarked_tree :
  forall r, node_val (Branch (abs_d r)) = unmark_val (VNs r).
Proof. exact abs_is_unmark. Qed.
Print Assumptions abs_state_is_unmarked_tree.

(* items(branches) of any well-formed tree are the items of the nested dictionary (keys()/values()
   are its projections), for values of any depth *)
Theorem items_agree :
  forall clash br root,
    wf_val clash (VNs root) = true ->
    map (fun kv => (fst kv, unmark_val (snd kv))) (ns_items br root) = spec_items br (abs_d root).
Proof. exact items_agree_proof. Qed.
Print Assumptions items_agree.

(* one dotted string = step by step, on the model itself: ns['a.rest'] is ns['a']['rest'] when
   ns['a'] is a Namespace and fails when ns['a'] is absent or a non-dict leaf. (When ns['a'] is a
   dict the two differ: the known finding.) *)
Theorem dotted_eq_stepwise :
  forall clash a rest root,
    mem_N DOT a = false -> mem_N SPACE a = false -> is_empty a = false ->
    match ns_getitem clash a root with
    | Ok (VNs d') => ns_getitem clash (a ++ DOT :: rest) root = ns_getitem clash rest d'
    | Ok (VDict _) => True
    | _ => ns_getitem clash (a ++ DOT :: rest) root = Fail
    end.
Proof. exact dotted_eq_stepwise_proof. Qed.
Print Assumptions dotted_eq_stepwise.

(* the same for keys of ANY depth: reading s1.s2.....sn as one dotted string is reading ns[s1][s2]...[sn] step by
   step, whenever the segments are names (no dot, no space, not empty) and the path does not pass through a
   dict-valued leaf (there the two differ on the pinned code: the known finding) *)
Theorem stepwise_eq_dotted :
  forall clash a rest root,
    seg_ok a = true -> forallb seg_ok rest = true ->
    meets_dict clash (join_segs a rest) root = false ->
    ns_get_steps clash (join_segs a rest) root = ns_getitem clash (join_segs a rest) root.
Proof. exact stepwise_eq_dotted_proof. Qed.
Print Assumptions stepwise_eq_dotted.

(* as_dict of ANY stored tree (no well-formedness, no guard) is the nested dictionary itself, Namespaces held in
   list / dict values included *)
Theorem as_dict_agrees :
  forall root, unmark_val (ns_as_dict root) = spec_as_dict (abs_d root).
Proof. exact as_dict_agrees_proof. Qed.
Print Assumptions as_dict_agrees.

(* names that coincide with Namespace's own attributes are stored and returned like any other:
   the user-visible outputs and dictionaries do not depend on the clash set at all *)
Theorem clash_names_transparent :
  forall c1 c2 ops,
    hist_class c1 ops = 0%N -> hist_class c2 ops = 0%N ->
    Forall2 (fun m1 m2 : out * alist =>
               unmark_out (fst m1) = unmark_out (fst m2) /\ abs_d (snd m1) = abs_d (snd m2))
            (fst (run_model c1 [] ops)) (fst (run_model c2 [] ops)).
Proof. exact clash_names_transparent_proof. Qed.
Print Assumptions clash_names_transparent.

(* a failing operation leaves the Namespace as it was (update(namespace) has no rollback and is
   excluded) — no guard, no well-formedness needed *)
Theorem failed_op_changes_nothing :
  forall clash root o r md,
    match o with OUpdNs _ _ _ => False | _ => True end ->
    step_model clash root o = (OutFail, r, md) -> r = root.
Proof. exact failed_op_changes_nothing_proof. Qed.
Print Assumptions failed_op_changes_nothing.

(* ---- the hypotheses are satisfiable by a non-trivial history ----------------------------- *)
Definition s_a : str := [97]%N.
Definition s_b : str := [98]%N.
Definition s_items : str := [105;116;101;109;115]%N.
Definition s_a_items : str := s_a ++ DOT :: s_items.
Definition s_a_b_items : str := s_a ++ DOT :: s_b ++ DOT :: s_items.
Definition s_bad : str := s_a ++ DOT :: DOT :: s_b.

Definition example_history : list op :=
  [ OSet s_a (VInt 1);                                   (* a = 1 *)
    OSet s_a_items (VInt 2);                             (* scalar parent replaced by a branch; clash name *)
    OSetAttr s_items (VNs [(ZW :: s_items, VList [VInt 3])]);   (* a Namespace value with a marked name *)
    OGet s_a_items; OContains s_a_b_items; OGetD s_b (VInt 9);
    OUpdV (VStr s_b) (Some s_a_b_items) true;
    OSet s_bad (VInt 0);                                 (* rejected key: both fail *)
    OItems true; OAsDict; OPop s_a_items (VInt 9); ODel s_a; OGet s_a; OClone ].

Example hypotheses_satisfiable : hist_class clash_names example_history = 0%N.
Proof. vm_compute. reflexivity. Qed.

Example example_is_nontrivial :
  map fst (run_spec [] example_history) =
  [ OutUnit; OutUnit; OutUnit; OutVal (VInt 2); OutBool false; OutVal (VInt 9); OutUnit; OutFail;
    OutItems [ (s_a, VNs [(s_items, VInt 2); (s_b, VNs [(s_items, VStr s_b)])]);
               (s_a_items, VInt 2);
               (s_a ++ DOT :: s_b, VNs [(s_items, VStr s_b)]);
               (s_a_b_items, VStr s_b);
               (s_items, VNs [(s_items, VList [VInt 3])]);
               (s_items ++ DOT :: s_items, VList [VInt 3]) ];
    OutVal (VDict [ (s_a, VDict [(s_items, VInt 2); (s_b, VDict [(s_items, VStr s_b)])]);
                    (s_items, VDict [(s_items, VList [VInt 3])]) ]);
    OutVal (VInt 2); OutUnit; OutFail; OutBool true ].
Proof. vm_compute. reflexivity. Qed.

(* the hypotheses of stepwise_eq_dotted hold for a three-segment key with a clash name that reads a value *)
Example stepwise_hypotheses_satisfiable :
  let root := [(s_a, VNs [(s_b, VNs [(ZW :: s_items, VInt 5)])])] in
  seg_ok s_a = true /\ forallb seg_ok [s_b; s_items] = true /\
  join_segs s_a [s_b; s_items] = s_a_b_items /\
  meets_dict clash_names s_a_b_items root = false /\
  ns_get_steps clash_names s_a_b_items root = Ok (VInt 5).
Proof. vm_compute. repeat split; reflexivity. Qed.

(* ---- the known finding: outside the guard the refinement FAILS --------------------------- *)
(* ns['a'] = {'b': 1}; ns['a.b']  — the nested dictionary answers 1, the Namespace raises *)
Lemma path_through_dict_refuted :
  exists ops,
    forallb (wf_op clash_names) ops = true /\ forallb core_op ops = true /\
    hist_class clash_names ops = 1%N /\
    ~ Forall2 rel_out (fst (run_model clash_names [] ops)) (run_spec [] ops).
Proof.
  exists [OSet s_a (VDict [(s_b, VInt 1)]); OGet (s_a ++ DOT :: s_b)].
  repeat split; try (vm_compute; reflexivity).
  intros H. inversion H as [|? ? ? ? _ H2]; subst. inversion H2 as [|? ? ? ? [H3 _] _]; subst.
  vm_compute in H3. discriminate H3.
Qed.
Print Assumptions path_through_dict_refuted.

(* ---- equality -------------------------------------------------------------------------------------------- *)
(* Python's == on two stored trees (argparse's Namespace.__eq__: equality of __dict__; dict equality does not see
   insertion order; a Namespace never equals a dict, a list never a tuple) is == on the user-visible nested
   dictionaries, for ANY clash set and ANY two values whose Namespaces — at every depth, also inside lists, tuples
   and dicts — carry names in stored form (wf_deep). *)
Theorem eq_agrees :
  forall clash a b,
    wf_deep clash a = true -> wf_deep clash b = true ->
    py_eq a b = py_eq (unmark_val a) (unmark_val b).
Proof. exact eq_agrees_proof. Qed.
Print Assumptions eq_agrees.

(* satisfiable and non-trivial: two Namespaces holding the same entries (one a clash name, one a list of Namespaces)
   in a different order are equal, and differ once a leaf differs *)
Example eq_hypotheses_satisfiable :
  let x := VNs [(ZW :: s_items, VInt 1); (s_a, VList [VNs [(ZW :: s_items, VNone)]])] in
  let y := VNs [(s_a, VList [VNs [(ZW :: s_items, VNone)]]); (ZW :: s_items, VInt 1)] in
  let z := VNs [(s_a, VList [VNs [(ZW :: s_items, VInt 0)]]); (ZW :: s_items, VInt 1)] in
  wf_deep clash_names x = true /\ wf_deep clash_names y = true /\ wf_deep clash_names z = true /\
  py_eq x y = true /\ py_eq (unmark_val x) (unmark_val y) = true /\ py_eq x z = false.
Proof. vm_compute. repeat split; reflexivity. Qed.

(* ---- the repaired code (fixes/C11-path-through-dict.patch, Model/C11NsFixed.v) ------------------------------ *)
(* On histories THROUGH dict-valued leaves the model of the patched code answers exactly as the nested dictionary:
   kernel-evaluated finite product — every history of length <= 2 over the 73 operations fx_ops (set of dicts /
   namespaces holding dicts / scalars, get, contains, del, pop, get-default, step-by-step get, update(only_unset)
   on keys of depth 1-3 with clash names, setattr, items, as_dict, Namespace(dict), update(namespace)) and every
   history of length 3 that starts by storing a dict (fx_firsts). fx_ok compares outputs and whole states. *)
Theorem fixed_refines_through_dicts :
  (forall a, In a fx_ops -> fx_ok [a] = true) /\
  (forall a b, In a fx_ops -> In b fx_ops -> fx_ok [a; b] = true) /\
  (forall a b c, In a fx_firsts -> In b fx_ops -> In c fx_ops -> fx_ok [a; b; c] = true).
Proof. exact fixed_refines_through_dicts_proof. Qed.
Print Assumptions fixed_refines_through_dicts.

(* the witness of path_through_dict_refuted on the patched model: ns['a']={'b':1}; ns['a.b'] reads 1 *)
Example fixed_repairs_witness :
  map fst (run_fixed clash_names [] [OSet s_a (VDict [(s_b, VInt 1)]); OGet (s_a ++ DOT :: s_b)])
  = [OutUnit; OutVal (VInt 1)] /\
  fx_ok [OSet s_a (VDict [(s_b, VInt 1)]); OGet (s_a ++ DOT :: s_b)] = true.
Proof. vm_compute. split; reflexivity. Qed.

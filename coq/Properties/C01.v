(* C01 — property theorems only. A dumped configuration re-parses to the same configuration.
   Model: Model/C01Conf.v (value level: adapt_typehints serialise/deserialise, _check_type, dump cleanup, skip_default,
   text layer scalar by scalar over the REGENERATED resolver tables Gen/C01Tables.v); guard = finding classes:
   Model/C01Guard.v; proofs: Proofs/ScalarProofs.v, Proofs/C01Proofs.v, Proofs/C01TableProofs.v. *)
From JV Require Import Lib.Base Lib.Regex Model.TyVal Model.Scalar Proofs.ScalarProofs Model.C01Conf Model.C01Guard
  Proofs.C01Proofs Proofs.C01TableProofs Gen.C01Tables.

(* (S1) Every string that the dumper's resolver leaves a plain `str` scalar is read back as `str` by the
   loader: L(loader's implicit non-str resolvers, with first-character dispatch) ⊆ L(dumper's).
   The tables are regenerated from the live classes on every run; the inclusion is decided by the
   verified checker of Lib/Regex.v (certificate validated inside the kernel by vm_compute). *)
Theorem C01_str_plain_agree :
  forall s, resolve dumper_table s = TgStr -> resolve loader_table s = TgStr.
Proof.
  apply (plain_agree dumper_table loader_table 4000); vm_compute; reflexivity.
Qed.
Print Assumptions C01_str_plain_agree.

(* (S2) Every text the number / bool / null representers can write (str(int); SafeRepresenter.represent_float;
   float.__repr__ of a finite float as json.dumps writes it; true/false; null) is resolved by the loader — and, for
   YAML, by the dumper, so it is written plain — to the tag of the value it came from: regular-language inclusions
   into "first regexp of that tag matches and none before it", per first character. *)
Theorem C01_number_texts_resolve :
  (forall s, matches int_out s = true -> resolve loader_table s = TgInt /\ resolve dumper_table s = TgInt) /\
  (forall s, matches yaml_float_out s = true -> resolve loader_table s = TgFloat /\ resolve dumper_table s = TgFloat) /\
  (forall s, matches repr_float_fin s = true -> resolve loader_table s = TgFloat) /\
  (forall b, resolve loader_table (bool_text b) = TgBool) /\ resolve loader_table null_text = TgNull.
Proof. exact number_texts_resolve. Qed.
Print Assumptions C01_number_texts_resolve.

(* (V) Text layer: for ANY verdict of PyYAML's "may be written plain" analysis, writing a serialised value (None,
   bool, int, float, str, list, dict — nested, str keys included) as YAML or JSON and loading the text back with the
   parser's loader returns the same value; JSON needs the floats to be finite. Rests on (S1), (S2) and on Python's
   int/float <-> text conversions (int_text_ok, yfloat_text_ok, jfloat_text_ok: explicit premises). *)
Theorem C01_reload_identity :
  forall (plain_ok : str -> bool) (yrepr jrepr : fl -> str),
    int_text_ok -> yfloat_text_ok yrepr -> jfloat_text_ok jrepr ->
    forall f v, (f = FJson -> has_nonfinite v = false) ->
      reload plain_ok yrepr jrepr dumper_table loader_table f v = v.
Proof. exact reload_identity. Qed.
Print Assumptions C01_reload_identity.

(* (P) The property on the model. For every parser (list of leaves: key, type, default — nested groups are dotted
   keys), every configuration, every variant (format yaml/json, None entries kept or dropped, skip_default or not —
   i.e. dump, --print_config[=skip_default], save) inside the guard (case_class = 0: none of the finding
   classes), if each leaf value survives its own serialise/parse pair (leaf_stable), then dump -> text -> parse succeeds
   and returns the configuration, value for value and type for type. For any loader oracle yl and any plain_ok. *)
Theorem C01_dump_parse_roundtrip :
  forall (yl : str -> option val) (plain_ok : str -> bool) (yrepr jrepr : fl -> str),
    int_text_ok -> yfloat_text_ok yrepr -> jfloat_text_ok jrepr ->
    forall vr lvs,
      case_class yl vr lvs = 0%N ->
      Forall (fun lw => leaf_stable yl (vr_skip_none vr) (fst lw) (snd lw)) lvs ->
      exists ws, roundtrip yl plain_ok yrepr jrepr dumper_table loader_table vr lvs = Some ws /\
                 Forall2 (fun w' w => veq w' w = true) ws (map snd lvs).
Proof. exact dump_parse_roundtrip. Qed.
Print Assumptions C01_dump_parse_roundtrip.

(* the hypotheses are satisfiable by a non-trivial input: s: str = "1e3", n: Optional[int] = 7, l: List[str] =
   ["null", "a: b"], d: List[Limits] = [{low: None, high: 2}] (dataclass-typed value), m: a subclass spec over a default spec, dumped with skip_default — and the model run indeed returns the configuration *)
Example C01_roundtrip_hyps_example :
  case_class id_yl yaml_skipdef ex_leaves = 0%N /\
  Forall (fun lw => leaf_stable id_yl false (fst lw) (snd lw)) ex_leaves /\
  roundtrip id_yl no_plain some_text some_text dumper_table loader_table yaml_skipdef ex_leaves = Some (map snd ex_leaves).
Proof. exact roundtrip_hyps_example. Qed.
Print Assumptions C01_roundtrip_hyps_example.

(* (P') For parsers of the container grammar — every leaf of type str / int / float / bool, List[T], Dict[str, T],
   Tuple[T1, ..], Tuple[T, ...] nested at will, Optional[T] (T not str) — and configurations holding values of these types
   (leaf_simple; what the real parser hands out is checked per case by the judge), per-leaf stability is PROVED
   (Proofs/C01Proofs.v simple_rt: structural induction on the type, for any loader oracle and any declared default):
   inside the guard, dump -> text -> parse returns the configuration, with no premise about the leaves left. *)
Theorem C01_dump_parse_roundtrip_simple :
  forall (yl : str -> option val) (plain_ok : str -> bool) (yrepr jrepr : fl -> str),
    int_text_ok -> yfloat_text_ok yrepr -> jfloat_text_ok jrepr ->
    forall vr lvs,
      case_class yl vr lvs = 0%N ->
      forallb leaf_simple lvs = true ->
      exists ws, roundtrip yl plain_ok yrepr jrepr dumper_table loader_table vr lvs = Some ws /\
                 Forall2 (fun w' w => veq w' w = true) ws (map snd lvs).
Proof. exact dump_parse_roundtrip_simple. Qed.
Print Assumptions C01_dump_parse_roundtrip_simple.

Example C01_roundtrip_simple_hyps_example :
  case_class id_yl yaml_keep simple_leaves = 0%N /\ forallb leaf_simple simple_leaves = true /\
  roundtrip id_yl no_plain some_text some_text dumper_table loader_table yaml_keep simple_leaves = Some (map snd simple_leaves).
Proof. exact roundtrip_simple_hyps_example. Qed.
Print Assumptions C01_roundtrip_simple_hyps_example.

(* (P) for parsers with subcommands: the serialisation is taken by the top-level parser; class 13 = it has a required
   subcommand and skip_default is asked for *)
Theorem C01_dump_parse_roundtrip_subcommands :
  forall (yl : str -> option val) (plain_ok : str -> bool) (yrepr jrepr : fl -> str),
    int_text_ok -> yfloat_text_ok yrepr -> jfloat_text_ok jrepr ->
    forall req_sub sub vr lvs,
      top_class yl req_sub sub vr lvs = 0%N ->
      Forall (fun lw => leaf_stable yl (vr_skip_none vr) (fst lw) (snd lw)) lvs ->
      exists ws, roundtrip_top yl plain_ok yrepr jrepr dumper_table loader_table req_sub sub vr lvs = Some ws /\
                 Forall2 (fun w' w => veq w' w = true) ws (map snd lvs).
Proof. exact dump_parse_roundtrip_top. Qed.
Print Assumptions C01_dump_parse_roundtrip_subcommands.

(* ---- the full statement (no guard) is false of the faithful model: one witness per finding ---------------------- *)
(* save(): default skip_none=True drops an explicit None over the default 5; the re-parse gives 5 *)
Theorem C01_save_skip_none_refuted :
  exists lf w w', rt some_text save_default lf w = Some w' /\ veq w' w = false.
Proof. exact save_skip_none_witness. Qed.
Print Assumptions C01_save_skip_none_refuted.

(* the same inside a dataclass-typed VALUE: Optional[Limits] = {low: 0, high: None} saved with the default skip_none:
   the nested dump drops `high` and the re-parse restores the field default 1 *)
Theorem C01_save_nested_none_refuted :
  exists lf w w', rt some_text save_default lf w = Some w' /\ veq w' w = false.
Proof. exact save_nested_none_witness. Qed.
Print Assumptions C01_save_nested_none_refuted.

(* regression witnesses (repaired in /repo 2b39397, fixes/C01-skip-default-subclass-spec.patch): the rule before the fix
   (trim_gen false) made a skip_default dump with nulls kept raise for a subclass spec over the declared default None
   (`default.get("class_path")` on None), and deleted a spec whose class and init_args were the default's although its
   dict_kwargs differed; the rule now modelled (trim) keeps class_path resp. the whole spec *)
Theorem C01_skip_default_none_default_prefix_refuted :
  trim_gen false base_ty (spec p_base [(VStr k_init_args, VDict [(VStr ka, VInt 1)])]) VNone = TErr /\
  trim base_ty (spec p_base [(VStr k_init_args, VDict [(VStr ka, VInt 1)])]) VNone = TKeep (spec p_base []).
Proof. exact skip_default_none_default_witness. Qed.
Print Assumptions C01_skip_default_none_default_prefix_refuted.

Theorem C01_skip_default_dict_kwargs_prefix_refuted :
  trim_gen false base_ty (spec p_kw [(VStr k_dict_kwargs, VDict [(VStr ka, VInt 1)])]) (spec p_kw []) = TDel /\
  trim base_ty (spec p_kw [(VStr k_dict_kwargs, VDict [(VStr ka, VInt 1)])]) (spec p_kw [])
    = TKeep (spec p_kw [(VStr k_dict_kwargs, VDict [(VStr ka, VInt 1)])]).
Proof. exact skip_default_dict_kwargs_witness. Qed.
Print Assumptions C01_skip_default_dict_kwargs_prefix_refuted.

(* skip_default prunes a spec of another class than the default's against that class's own defaults, but the re-parse
   carries the default spec's init_args over first: B{a: 1} over the default S{a: 5, b: 2} comes back as B{a: 5} *)
Theorem C01_skip_default_carry_over_refuted :
  exists w', rt some_text yaml_skipdef
               {| lf_key := kx; lf_ty := sub2_ty;
                  lf_def := spec p_sub [(VStr k_init_args, VDict [(VStr kb, VInt 2); (VStr ka, VInt 5)])] |}
               (spec p_base [(VStr k_init_args, VDict [(VStr ka, VInt 1)])]) = Some w' /\
             veq w' (spec p_base [(VStr k_init_args, VDict [(VStr ka, VInt 1)])]) = false.
Proof. exact skip_default_carry_over_witness. Qed.
Print Assumptions C01_skip_default_carry_over_refuted.

(* skip_default compares with ==: int 1 over the default 1.0 is dropped and re-parses to the float *)
Theorem C01_skip_default_eq_refuted :
  exists lf w w', rt some_text yaml_skipdef lf w = Some w' /\ veq w' w = false.
Proof. exact skip_default_eq_witness. Qed.
Print Assumptions C01_skip_default_eq_refuted.

(* JSON formats: `Infinity` is in the output language of json.dumps but the loader resolves it to str; a float leaf
   holding inf is rejected on the way back *)
Theorem C01_json_nonfinite_refuted :
  matches json_float_out (inf_text (FInf false)) = true /\ resolve loader_table (inf_text (FInf false)) = TgStr /\
  rt inf_text json_keep {| lf_key := kx; lf_ty := CFloat; lf_def := VNone |} (VFloat (FInf false)) = None.
Proof. exact json_nonfinite_witness. Qed.
Print Assumptions C01_json_nonfinite_refuted.

(* REGRESSION witness (finding skip-default-subcommand-crash, repaired in /repo): on the pinned tree
   dump(skip_default=True) / --print_config=skip_default before the subcommand, by a parser with a REQUIRED subcommand, raised
   NSKeyError (get_defaults() chooses no subcommand and strip_link_target_keys(defaults) failed: dump_crashes_pinned); the
   repaired dump produces a text and the same configuration is inside the guard (class 0) *)
Theorem C01_skip_default_subcommand_regression :
  dump_crashes_pinned true yaml_skipdef = true /\
  dump_crashes true yaml_skipdef = false /\
  top_class id_yl true None yaml_skipdef ex_leaves = 0%N /\
  roundtrip_top id_yl no_plain some_text some_text dumper_table loader_table true None yaml_skipdef ex_leaves <> None.
Proof. exact skip_default_subcommand_witness. Qed.
Print Assumptions C01_skip_default_subcommand_regression.

(* the chosen subcommand's mapping is written empty (its only option is None and save() drops None entries): `fit: {}` is
   not taken for a choice of the subcommand on the way back (class 14); with nulls kept the same configuration is in the guard *)
Theorem C01_empty_subcommand_refuted :
  top_class id_yl true (Some fit_pre) save_default fit_leaves = 14%N /\
  roundtrip_top id_yl no_plain some_text some_text dumper_table loader_table true (Some fit_pre) save_default fit_leaves = None /\
  top_class id_yl true (Some fit_pre) yaml_keep fit_leaves = 0%N.
Proof. exact empty_subcommand_witness. Qed.
Print Assumptions C01_empty_subcommand_refuted.

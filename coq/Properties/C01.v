(* C01 — property theorems only. *)
From JV Require Import Lib.Base Lib.Regex Model.TyVal Model.Scalar Proofs.ScalarProofs Gen.C01Resolvers.

(* Every string that the dumper's resolver leaves a plain `str` scalar is read back as `str` by the
   loader: L(loader's implicit non-str resolvers, with first-character dispatch) ⊆ L(dumper's).
   The tables are regenerated from the live classes on every run; the inclusion is decided by the
   verified checker of Lib/Regex.v (certificate validated inside the kernel by vm_compute). *)
Theorem C01_str_plain_agree :
  forall s, resolve dumper_table s = TgStr -> resolve loader_table s = TgStr.
Proof.
  apply (plain_agree dumper_table loader_table 4000); vm_compute; reflexivity.
Qed.
Print Assumptions C01_str_plain_agree.

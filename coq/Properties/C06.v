(* C06 — property theorems (placeholder while the proofs are being written). *)
From JV Require Import Lib.Base Model.C06Validate Spec.C06Spec.

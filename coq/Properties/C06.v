(* C06 — unknown keys are never silently ignored; required keys are enforced.
   Property theorems only; each is closed by `exact` of a lemma proved in Proofs/C06Proofs.v.

   `run md fuel p cfg` (Model/C06Validate.v) is the model of the parse methods of jsonargparse on a configuration tree:
   the lenient _apply_actions pre-pass, subcommand selection (get_subcommands / handle_subcommands), validate's
   check_values (keys deepest first, branch-key escape, the three NSKeyError variants) and check_required with the
   recursion into the selected subcommand, and the nested per-class parsers for List[dataclass] items and for the
   init_args of the class named by class_path.  Ok excludes OutOfFuel, so every statement holds for every fuel.
   `undeclared` / `missing_required` / `und_top` (Spec/C06Spec.v) are the reference semantics: the keys of the
   configuration, at every nesting level, that the declaration tree does not define, and the required keys of the closure
   (incl. the required subcommand and the required parameters of the selected class) that are absent or null.

   `md` is how the configuration was handed over: MDefaults (any channel, defaults=True), MNoDefObj / MNoDefStr
   (parse_object / parse_string with defaults=False: no subcommand section is created by merging defaults, and only then does
   "Remove extra subcommand settings" depend on how many sections were given).  Every theorem is for ALL modes.

   FULL STATEMENT (false of the unchanged code, see C06_discarded_section_refuted):
     forall md fuel p cfg, run md fuel p cfg = Ok -> undeclared md p cfg = []. *)
From JV Require Import Lib.Base Model.C06Validate Spec.C06Spec Proofs.C06Proofs.

(* What holds for ALL parsers, ALL configuration trees, any fuel: an accepted configuration has no undeclared key at any
   nesting level (top level, dotted groups, dataclass fields, init_args of a class, list items, the section of the
   subcommand in force) — INCLUDING keys whose value is a mapping without any leaf ({} / {a: {}}: refused by the lenient
   _apply_actions pre-pass since a58b0fc) and keys beside class_path in a class value (refused as "Not a valid subclass" since
   56814dd); both were guard classes of this theorem (flags sl / sc of und_top, now false) until the library was repaired and
   the model followed.  The one exception left (sd) is a key in the section of a subcommand that is not in force: the parse
   discards such a section unvalidated (documented behaviour, open finding). *)
Theorem C06_accepted_has_no_undeclared_key :
  forall md fuel p cfg, run md fuel p cfg = Ok -> und_top md false true false p cfg = [].
Proof. exact accept_no_undeclared. Qed.
Print Assumptions C06_accepted_has_no_undeclared_key.

(* The guarded statement.  guard_class is the very function the judge evaluates for v_class. *)
Theorem C06_accepted_only_if_all_keys_declared :
  forall md fuel p cfg, guard_class md p cfg = 0%N -> run md fuel p cfg = Ok -> undeclared md p cfg = [].
Proof. exact accept_no_undeclared_guarded. Qed.
Print Assumptions C06_accepted_only_if_all_keys_declared.

(* Required keys, no guard: a parse succeeds only if every required argument of the closure — the parser's own, those of
   the subcommand in force, the required fields of every list item, the required parameters of the selected class
   (recursively), and a required subcommand itself — is present with a non-null value. *)
Theorem C06_accepted_only_if_required_present :
  forall md fuel p cfg, wf_parser p = true -> run md fuel p cfg = Ok -> missing_required md p cfg = [].
Proof. exact accept_required. Qed.
Print Assumptions C06_accepted_only_if_required_present.

Theorem C06_required_subcommand_selected :
  forall md fuel p sb l, wf_parser p = true -> p_sub p = Some sb -> s_req sb = true -> run md fuel p (CDict l) = Ok ->
    exists s sa, spec_selected md sb l = Some s /\ assoc s (s_map sb) = Some sa.
Proof. exact accept_required_subcommand. Qed.
Print Assumptions C06_required_subcommand_selected.

(* Parsers whose construction included link_arguments attempts (apply_on="instantiate"; `with_links p ls`, each attempt with
   its outcome): an attempt that was REJECTED (ValueError caught by the program: cycle, bad target-key form, unknown source)
   changes nothing, so every required key of p is still enforced; an accepted link exempts exactly its target. *)
Theorem C06_required_present_after_rejected_links :
  forall md fuel p ls cfg,
    (forall l, In l ls -> l_ok l = false) ->
    wf_parser p = true -> run md fuel (with_links p ls) cfg = Ok -> missing_required md p cfg = [].
Proof. exact accept_required_after_rejected_links. Qed.
Print Assumptions C06_required_present_after_rejected_links.

Theorem C06_required_present_with_links :
  forall md fuel p ls cfg,
    wf_parser p = true -> run md fuel (with_links p ls) cfg = Ok -> missing_required md (with_links p ls) cfg = [].
Proof. exact accept_required_with_links. Qed.
Print Assumptions C06_required_present_with_links.

(* The list-append spelling: a declared List[...] key carried as "<key>+" (run_append, apps = the paths spelled that way) has its
   items checked by apply_appends at merge time in addition to everything else, so it accepts no more than the plain spelling:
   every acceptance theorem above holds for run_append as well. *)
Theorem C06_append_spelling_accepts_no_more :
  forall md fuel p cfg apps, run_append md fuel p cfg apps = Ok -> run md fuel p cfg = Ok.
Proof. exact run_append_ok. Qed.
Print Assumptions C06_append_spelling_accepts_no_more.

(* The error branch, in part: an unknown-key error (any of the three NSKeyError variants, from any nesting level) is raised
   only when the configuration does contain a key the parser does not define.  That the key NAMED by the error is such a key
   is not proved; it is checked case by case by the correspondence. *)
Theorem C06_unknown_key_error_only_if_undeclared :
  forall md fuel p cfg ctx fam key,
    wf_parser p = true -> run md fuel p cfg = Err (EUnknown ctx fam key) -> undeclared md p cfg <> [].
Proof. exact unknown_error_only_if_undeclared. Qed.
Print Assumptions C06_unknown_key_error_only_if_undeclared.

(* Both halves in the form the correspondence judge uses (spec_ok is what it evaluates on every observed parse). *)
Theorem C06_accept_sound :
  forall md fuel p cfg, wf_parser p = true -> guard_class md p cfg = 0%N -> run md fuel p cfg = Ok -> spec_ok md p cfg Accepted = true.
Proof. exact accept_sound. Qed.
Print Assumptions C06_accept_sound.

(* The hypotheses are satisfiable by a non-trivial input (dotted group, nested dataclasses, a class with a
   List[dataclass] parameter, a list argument, a required subcommand), and the error branches are inhabited. *)
Example C06_example_accept :
  wf_parser ex_p = true /\ guard_class MDefaults ex_p ex_c = 0%N /\ run MDefaults 24 ex_p ex_c = Ok /\
  undeclared MDefaults ex_p ex_c = [] /\ missing_required MDefaults ex_p ex_c = [].
Proof. exact example_accept. Qed.

Example C06_example_reject_unknown :
  exists ctx, run MDefaults 24 ex_p ex_c_bad = Err (EUnknown ctx FKey [s_zz]) /\ In (ctx ++ [K s_zz]) (undeclared MDefaults ex_p ex_c_bad).
Proof. exact example_reject_unknown. Qed.

Example C06_example_reject_missing :
  exists ks, run MDefaults 24 ex_p ex_c_miss = Err (EMissing [] ks) /\ missing_required MDefaults ex_p ex_c_miss = map (map K) ks.
Proof. exact example_reject_missing. Qed.

(* a subcommand that is named but whose section is missing is rejected in every mode: without merged defaults only the
   recursion of check_required into the selected subcommand sees it *)
Example C06_example_named_without_section :
  forall md, exists ks, run md 24 ex_p ex_c_nosec = Err (EMissing [] ks) /\ missing_required md ex_p ex_c_nosec = map (map K) ks.
Proof. exact example_named_without_section. Qed.

(* the two repaired findings: a leafless mapping under an undeclared key (also one level down, shallowest first) and a foreign
   key beside class_path are rejected, the error names the key, and both inputs are inside the guard now *)
Example C06_example_empty_mapping_rejected :
  run MDefaults 24 w1_p w1_c = Err (EUnknown [] FKey [s_zz]) /\ spec_ok MDefaults w1_p w1_c (RejUnknown [s_zz]) = true /\
  run MDefaults 24 w1_p w1_c2 = Err (EUnknown [] FKey [s_zz; s_w]) /\ spec_ok MDefaults w1_p w1_c2 (RejUnknown [s_zz; s_w]) = true /\
  guard_class MDefaults w1_p w1_c = 0%N.
Proof. exact example_empty_mapping_rejected. Qed.

Example C06_example_class_path_extra_rejected :
  run MDefaults 24 w3_p w3_c = Err (EBadSpec [] [s_w] [s_zz]) /\
  undeclared MDefaults w3_p w3_c = [[K s_w; K s_zz]] /\ spec_ok MDefaults w3_p w3_c (RejUnknown [s_zz]) = true /\
  guard_class MDefaults w3_p w3_c = 0%N.
Proof. exact example_class_path_extra_rejected. Qed.

(* ---------- the open finding: the full statement is false of the unchanged code ---------- *)
(* subcommands fit / test; {subcommand: fit, fit: {u: 1}, test: {zz: 7}} is accepted although test.zz is not declared *)
Theorem C06_discarded_section_refuted :
  exists md fuel p cfg, run md fuel p cfg = Ok /\ undeclared md p cfg <> [] /\ guard_class md p cfg = 2%N.
Proof. exact discarded_section_refuted_ex. Qed.
Print Assumptions C06_discarded_section_refuted.

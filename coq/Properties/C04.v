(* C04 — property theorems only: sources override each other in the documented order, left to right.
   Model: Model/C04Sources.v (`pipeline`, in the shape of get_defaults / _load_env_vars / merge_config /
   apply_config / the argv fold).  Reference semantics: Spec/C04Spec.v (`fold_sources`, the left fold of
   apply_assignment over defaults, default config files, environment, given items).  Proofs: Proofs/C04*.v. *)
From JV Require Import Lib.Base Lib.C04Base Model.C04Sources Model.C04Sub Spec.C04Spec Model.C04Wf
  Proofs.C04Tree Proofs.C04Merge Proofs.C04Proofs Proofs.C04Props.
From Coq Require Import List Bool ZArith.
Import ListNotations.

(* The full statement the property makes (no guard).  It is FALSE of the faithful model: see
   C04_precedence_unguarded_refuted. *)
(* precedence_statement c :=  wf_call c = true ->
     exists t, pipeline c = Ok t /\ observe_values (c_parser c) t = final_values c /\ observe_extra (c_parser c) t = false
   (Proofs/C04Props.v). *)

(* What is proved: for EVERY well-formed call outside finding class 1 (an append inside the config
   named by the config environment variable onto a non-empty earlier list) the code-shaped pipeline
   succeeds, every declared key holds the value of the documented left fold, and no other key is left. *)
Theorem C04_precedence : forall c, envcfg_append c = false -> precedence_statement c.
Proof. exact precedence_observed. Qed.
Print Assumptions C04_precedence.

(* The guard of the theorem is exactly the class function evaluated by the judge. *)
Theorem C04_guard_is_class_0 : forall c,
  call_class c = 0%N <-> (wf_call c = true /\ envcfg_append c = false).
Proof. exact call_class_0. Qed.
Print Assumptions C04_guard_is_class_0.

(* Later wins: if the last assignment to a key in the documented order is a plain `key: v`, the
   result holds v for that key whatever came before. *)
Theorem C04_later_wins : forall c d pre post v,
  wf_call c = true -> envcfg_append c = false -> In d (c_parser c) ->
  concat (sources_in_documented_order c) = pre ++ (d_key d, Set_ v) :: post ->
  (forall a, In a post -> fst a <> d_key d) ->
  exists t, pipeline c = Ok t /\ prev_val d t = v.
Proof. exact later_wins. Qed.
Print Assumptions C04_later_wins.

(* Untouched keys keep the earlier value: assignments to other keys never change a key's value
   (frame condition of the fold, hence of the pipeline). *)
Theorem C04_untouched_keys_keep_earlier_value : forall (l : doc) (st : state) (k : tpath),
  (forall a, In a l -> fst a <> k) ->
  alist_get k (fold_left apply_assignment l st) = alist_get k st.
Proof. exact fold_untouched. Qed.
Print Assumptions C04_untouched_keys_keep_earlier_value.

(* ---- the finding: the unguarded statement is false --------------------------------------------- *)
Theorem C04_precedence_unguarded_refuted : exists c, ~ precedence_statement c.
Proof. exact precedence_unguarded_refuted. Qed.
Print Assumptions C04_precedence_unguarded_refuted.

(* ---- non-vacuity ---------------------------------------------------------------------------------- *)
Example C04_hypotheses_satisfiable :
  call_class ex_call = 0%N /\ final_values ex_call = [VTok 7; VList [1; 2; 9; 5]%Z].
Proof. vm_compute. split; reflexivity. Qed.

(* ---- one level of subcommands (Model/C04Sub.v pipeline_sub, Spec flat_call) ----------------------------
   NOT covered by C04_precedence: calls with a subcommand are judged case by case by Corr/C04Judge.v
   (class 2).  The example shows the modelled space is inhabited and that on it the composed pipeline and
   the documented fold over the keys of both levels agree: the environment variable f.x=3 loses against
   the earlier command-line config f.x=5 although a later config touches the same subcommand. *)
Example C04_subcommand_example :
  scall_class ex_scall = 2%N /\
  final_values_sub ex_scall = [VTok 2; VTok 5; VList [6; 9]%Z] /\
  option_map (observe_values (all_decls ex_scall))
    (match pipeline_sub ex_scall with Ok t => Some t | _ => None end) = Some (final_values_sub ex_scall).
Proof. vm_compute. repeat split; reflexivity. Qed.

(* ---- findings of the subcommand level: the statement `every well-formed call with a subcommand ends with the
   documented fold` (sub_precedence_statement, Proofs/C04Props.v) is FALSE of the faithful model pipeline_sub ---- *)
(* class 3: a variable of the subcommand loses against an earlier parent-level source that sets the key in its NAME: section *)
Theorem C04_subcommand_variable_shadowed_refuted : exists sc, scall_class sc = 3%N /\ ~ sub_precedence_statement sc.
Proof. exact subenv_shadowed_refuted. Qed.
Print Assumptions C04_subcommand_variable_shadowed_refuted.

(* class 5: "key+" in the NAME: section of a parent-level --cfg document extends the parent's list of that name *)
Theorem C04_section_append_refuted : exists sc, scall_class sc = 5%N /\ ~ sub_precedence_statement sc.
Proof. exact section_append_refuted. Qed.
Print Assumptions C04_section_append_refuted.

(* class 4: a default config file without a NAME: section is rejected *)
Theorem C04_default_config_without_section_refuted : exists sc, scall_class sc = 4%N /\ ~ sub_precedence_statement sc.
Proof. exact dcf_without_section_refuted. Qed.
Print Assumptions C04_default_config_without_section_refuted.

(* class 6: PREFIX_SUBCOMMAND names the subcommand: its defaults are copied over the NAME: sections of the default
   config files and of the environment config *)
Theorem C04_subcommand_variable_resets_section_refuted : exists sc, scall_class sc = 6%N /\ ~ sub_precedence_statement sc.
Proof. exact envsub_resets_refuted. Qed.
Print Assumptions C04_subcommand_variable_resets_section_refuted.

(* PREFIX_SUBCOMMAND (modelled in Model/C04Sub.v load_env_vars_sub) is NOT a source of values: for EVERY call with a
   subcommand, a value that does not name the subcommand chosen on the command line (another subcommand, no subcommand
   at all), or any value while the environment is not read, leaves the whole result of the code-shaped pipeline — and
   the documented fold — exactly what they are without the variable. *)
Theorem C04_subcommand_variable_is_not_a_source : forall sc v,
  (match v with Some w => name_eqb w (s_name sc) | None => false end && env_is_source (s_parent sc))%bool = false ->
  pipeline_sub (with_envsub sc v) = pipeline_sub (with_envsub sc None) /\
  final_values_sub (with_envsub sc v) = final_values_sub (with_envsub sc None).
Proof. exact envsub_inert. Qed.
Print Assumptions C04_subcommand_variable_is_not_a_source.

Example C04_subcommand_variable_hypothesis_satisfiable :
  exists sc v, v <> None /\ wf_scall (with_envsub sc v) = true /\
    (match v with Some w => name_eqb w (s_name sc) | None => false end && env_is_source (s_parent sc))%bool = false.
Proof. exact envsub_inert_satisfiable. Qed.

(* residual of class 6 on /repo 3663e43 (model variant fx_envsub): the copy by top-level entry replaces a whole group; the witness is
   inside the residual class, the repaired pipeline misses the fold on it, and the leaf-wise copy (fx_leaf) meets it *)
Theorem C04_subcommand_variable_replaces_group_refuted :
  wf_scall group_scall = true /\ scall_class_fx false true true false group_scall = 6%N /\
  scall_class_fx false true true true group_scall = 2%N /\
  final_values_sub group_scall = [VTok 1; VTok 3; VTok 8] /\
  sub_outcome_fx fx_repo group_scall = Some [VTok 1; VTok 3; VTok 2] /\
  sub_outcome_fx fx_repo_leaf group_scall = Some (final_values_sub group_scall).
Proof. exact envsub_group_residual. Qed.
Print Assumptions C04_subcommand_variable_replaces_group_refuted.

(* C04 — property theorems (placeholder while the proofs are being written). *)
From JV Require Import Lib.Base Lib.C04Base Model.C04Sources Spec.C04Spec Model.C04Wf.

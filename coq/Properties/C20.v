(* C20 — property theorems only. Each is closed by `exact` of a lemma proved in Proofs/. *)
From JV Require Import Lib.Base Lib.C20Text Lib.C20Regex Model.C20Base Gen.C20Operators Gen.C20Regexes Gen.C20Registry
  Model.C20Restricted Model.C20RestrictedStr Spec.C20RestrictedSpec Model.C20Registered
  Model.C20NumRegistry Model.C20RegisterType
  Proofs.C20RestrictedProofs Proofs.C20RegisteredProofs Proofs.C20RangeRegexProofs Proofs.C20TdRegexProofs
  Proofs.C20NumRegistryProofs.
Local Open Scope Z_scope.

(* The operator table of jsonargparse/typing.py (regenerated into Gen/C20Operators.v on every run)
   maps each of the six comparison symbols to the comparison it denotes. *)
Theorem C20_operator_table :
  forall sym, valid_sym sym = true ->
    exists o, operators2 sym = Some o /\ forall a r, apply_op o a r = holdsb sym a r.
Proof. exact op_table_ok. Qed.
Print Assumptions C20_operator_table.

(* A restricted number type — ANY list of (comparison, reference) pairs, either join, int or float —
   accepts v with value b if and only if v converts to the base type as b (a bool does not, a
   float converts to int only when integral, text when it is a numeral) and b satisfies the
   comparisons joined by and/or. *)
Theorem C20_restricted_exact :
  forall t v b, valid_type t = true ->
    (construct t v = Some b <-> conv (r_base t) v = Some b /\ sat (r_restr t) (r_join t) b).
Proof. exact restricted_exact_lemma. Qed.
Print Assumptions C20_restricted_exact.

(* the error branch: T(v) raises exactly when v does not convert or the comparisons fail *)
Theorem C20_restricted_reject :
  forall t v, valid_type t = true ->
    (construct t v = None <->
     conv (r_base t) v = None \/ exists b, conv (r_base t) v = Some b /\ ~ sat (r_restr t) (r_join t) b).
Proof. exact restricted_reject_lemma. Qed.
Print Assumptions C20_restricted_reject.

(* casting an accepted value again changes nothing *)
Theorem C20_restricted_idempotent :
  forall t v b, valid_type t = true -> construct t v = Some b -> construct t (val_of_num b) = Some b.
Proof. exact restricted_idempotent_lemma. Qed.
Print Assumptions C20_restricted_idempotent.

(* parsing a T-typed argument (adapt the loaded value, retry with the original text) *)
Theorem C20_restricted_parse :
  forall t loaded orig, valid_type t = true ->
    check_type t loaded orig = spec_check_type (r_base t) (r_restr t) (r_join t) loaded orig.
Proof. exact check_type_spec_lemma. Qed.
Print Assumptions C20_restricted_parse.

(* Creating a restricted number type goes through restricted_number_type's argument checks, its register key
   (tuple(sorted(restrictions)), base_type, join) — compared as Python compares tuples, references numerically — and
   extend_base_type / add_type's registry. Whatever was created before (nreg_wf holds of the empty registry and is
   preserved): a type handed back — new, or found under an equal key, i.e. created from a permutation of the list
   or from other int/float spellings of the references — validates exactly like the type STATED IN THIS CALL, for
   every value; with C20_restricted_exact: it accepts iff the value converts and satisfies the stated comparisons. *)
Theorem C20_number_type_creation :
  forall st name t r st',
    nreg_wf st -> create_num st name t = (Some r, st') ->
    (forall v, construct r v = construct t v) /\ nreg_wf st'.
Proof. exact create_num_stated_lemma. Qed.
Print Assumptions C20_number_type_creation.

(* the same along ANY history of creations (names and types arbitrary, refused calls included) *)
Theorem C20_number_type_histories :
  forall calls st rs st',
    nreg_wf st -> create_all st calls = (rs, st') ->
    Forall2 (fun call r => match r with Some t' => forall v, construct t' v = construct (snd call) v | None => True end)
            calls rs
    /\ nreg_wf st'.
Proof. exact create_all_stated_lemma. Qed.
Print Assumptions C20_number_type_histories.

(* every type that passes the creation checks is one C20_restricted_exact speaks about *)
Theorem C20_number_type_creation_valid :
  forall b rs, creation_ok b rs = true -> valid_syms rs = true.
Proof. exact creation_ok_valid. Qed.
Print Assumptions C20_number_type_creation_valid.

Example C20_number_type_creation_example :
  let t1 := {| r_base := BFloat; r_restr := [(s_ge, NI 0); (s_le, NI 1)]; r_join := JAnd |} in
  let t2 := {| r_base := BFloat; r_restr := [(s_le, NF (FFin 1000000)); (s_ge, NI 0)]; r_join := JAnd |} in
  let st0 := {| ns_reg := []; ns_names := [] |} in
  nreg_wf st0
  /\ fst (create_num (snd (create_num st0 [65]%N t1)) [65]%N t2) = Some t1      (* found again: permuted, 1 vs 1.0 *)
  /\ fst (create_num (snd (create_num st0 [65]%N t1)) [66]%N t2) = None         (* other name: refused *)
  /\ fst (create_num st0 [65]%N {| r_base := BInt; r_restr := [(s_gt, NF (FFin 2500000))]; r_join := JAnd |}) = None.
Proof. split; [apply nreg_wf_empty | vm_compute; repeat split; reflexivity]. Qed.

(* register_type as a transition of registered_type_handlers: along any history of calls with the default flags
   (no uniqueness key, fail_already_registered=True) — refused or not — a type that was registered keeps its pair:
   the pairs C20_registry finds in the source are the ones in force whatever user code registers later. *)
Theorem C20_registry_stable :
  forall calls tbl ty h0, reg_lookup tbl ty = Some h0 -> reg_lookup (register_all tbl calls) ty = Some h0.
Proof. exact register_all_keeps. Qed.
Print Assumptions C20_registry_stable.

(* a default-flag call that is let through for a registered type repeated the pair it already has *)
Theorem C20_register_type_repeat :
  forall tbl ty h tbl' h0,
    register_type tbl ty h true false = Some tbl' -> reg_lookup tbl ty = Some h0 -> handler_eqb h h0 = true /\ tbl' = tbl.
Proof. exact register_default_same. Qed.
Print Assumptions C20_register_type_repeat.

Example C20_registry_stable_example :
  reg_lookup registry ty_range = Some (SerRange, DesRange)
  /\ register_type registry ty_range (SerStr, DesRange) true false = None
  /\ register_type registry ty_range (SerRange, DesRange) true false = Some registry.
Proof. vm_compute. repeat split; reflexivity. Qed.

(* A restricted string type accepts v (unchanged) iff v is a str and the pattern matches at its
   start — re.match: SOME PREFIX of v is in the language of the pattern, unless the pattern ends in
   `$`, in which case all of v, or v without one final newline, is. `lang` is the denotational
   language of Lib/C20Regex; for every pattern and every value. *)
Theorem C20_restricted_string_exact :
  forall p v s', construct_str p v = Some s' <-> exists s, v = PStr s /\ s' = s /\ pat_accepts p s.
Proof. exact construct_str_exact. Qed.
Print Assumptions C20_restricted_string_exact.

(* Creating a restricted string type goes through extend_base_type's registry. Whether the register key is the
   pattern text alone (kf = false, the tree as it was) or text and flags (kf = true,
   fixes/C20-string-type-key-ignores-flags.patch) is read from the source (Gen/C20Registry.string_key_has_flags);
   `compile` is re.compile. When the key is new, or was registered with this very compiled pattern
   (str_key_guard, the judge's class function), the type handed back accepts exactly what the GIVEN pattern accepts. *)
Theorem C20_string_type_creation :
  forall compile kf reg name text flags t reg',
    str_key_guard compile kf reg text flags = true -> create_str compile kf reg name text flags = (Some t, reg') ->
    forall v, construct_str t v = construct_str (compile text flags) v.
Proof. exact create_str_guarded. Qed.
Print Assumptions C20_string_type_creation.

(* With the flags in the key no guard is left: along ANY history of creations (reg_wf holds of the empty registry
   and is preserved) the type handed back accepts exactly what the given pattern accepts. *)
Theorem C20_string_type_creation_flags_in_key :
  forall compile reg name text flags t reg',
    reg_wf compile reg -> create_str compile true reg name text flags = (Some t, reg') ->
    (forall v, construct_str t v = construct_str (compile text flags) v) /\ reg_wf compile reg'.
Proof. intros compile reg name text flags t reg'. exact (create_str_flags_in_key compile true reg name text flags t reg' eq_refl). Qed.
Print Assumptions C20_string_type_creation_flags_in_key.

(* FINDING (known_findings/C20.txt key=string-type-key-ignores-flags): with the text-only key the unguarded
   statement is false of the faithful model. restricted_string_type("T", "^a$") followed by
   restricted_string_type("T", re.compile("^a$", re.I)) hands the first type back: "A" is rejected although the
   given pattern matches it. *)
Theorem C20_string_type_key_ignores_flags_refuted :
  exists compile reg name text flags t reg' v,
    create_str compile false reg name text flags = (Some t, reg')
    /\ construct_str t v <> construct_str (compile text flags) v.
Proof.
  exists (fun _ fl => {| p_body := RCls (if is_nil fl then [(97, 97)] else [(97, 97); (65, 65)])%N false;
                         p_end := true; p_multi := false |}),
         [(([94; 97; 36]%N, @nil N), ([84]%N, {| p_body := RCls [(97, 97)]%N false; p_end := true; p_multi := false |}))],
         [84]%N, [94; 97; 36]%N, [73]%N.
  eexists. eexists. exists (PStr [65]%N). split; [reflexivity | vm_compute; discriminate].
Qed.
Print Assumptions C20_string_type_key_ignores_flags_refuted.

(* the predefined NotEmptyStr (translated from the source): accepted iff some character is not a
   blank... and, `.` not matching a newline, iff the text is a single line with a non-blank
   character, optionally followed by one final newline *)
Theorem C20_NotEmptyStr_witnesses :
  construct_str rx_NotEmptyStr (PStr [32; 97; 32]%N) = Some [32; 97; 32]%N
  /\ construct_str rx_NotEmptyStr (PStr [32; 32]%N) = None
  /\ construct_str rx_NotEmptyStr (PStr (@nil N)) = None
  /\ construct_str rx_NotEmptyStr (PStr [97; 10]%N) = Some [97; 10]%N
  /\ construct_str rx_Email (PStr [97; 64; 98; 46; 99]%N) = Some [97; 64; 98; 46; 99]%N
  /\ construct_str rx_Email (PStr [97; 64; 98]%N) = None.
Proof. vm_compute. repeat split; reflexivity. Qed.
Print Assumptions C20_NotEmptyStr_witnesses.

(* every range, empty ones included: deserialize (serialize r) = r *)
Theorem C20_range_roundtrip :
  forall r, rg_step r <> 0 -> range_deserializer (PStr (range_serializer r)) = Some r.
Proof. exact range_roundtrip_lemma. Qed.
Print Assumptions C20_range_roundtrip.

(* The three regular expressions range_deserializer tries (translated from the source into
   Gen/C20Regexes.v on every run; `$` = end of text or just before one final newline) accept exactly the
   texts for which the model's scanner finds 1, 2 and 3 integer tokens — for EVERY string, so the
   round-trip theorem above speaks about the patterns of the source. *)
Theorem C20_range_regexes :
  forall w, re_match rx_re_range_stop w = is_some (match_ints 1 w)
         /\ re_match rx_re_range_start_stop w = is_some (match_ints 2 w)
         /\ re_match rx_re_range_start_stop_step w = is_some (match_ints 3 w).
Proof. exact range_regexes_lemma. Qed.
Print Assumptions C20_range_regexes.

(* every timedelta Python can represent, negative and sub-second included *)
Theorem C20_timedelta_roundtrip :
  forall total, td_valid total = true -> timedelta_deserializer (PStr (td_str total)) = TdOk total.
Proof. exact timedelta_roundtrip_lemma. Qed.
Print Assumptions C20_timedelta_roundtrip.

(* the same through RegisteredType.deserializer (the wrapper that turns the listed deserializer_exceptions into
   "not of type"), whether or not ArithmeticError / OverflowError is listed *)
Theorem C20_timedelta_registered_roundtrip :
  forall catches_overflow total, td_valid total = true ->
    td_registered catches_overflow (PStr (td_str total)) = TdOk total.
Proof. exact timedelta_registered_roundtrip_lemma. Qed.
Print Assumptions C20_timedelta_registered_roundtrip.

(* The two patterns timedelta_deserializer hands to re.match (translated from the function body on every
   run) succeed — some prefix of the text is in the language — exactly when the model's scanners succeed,
   for EVERY string: the round-trip theorem above speaks about the patterns of the source. *)
Theorem C20_timedelta_regexes :
  forall s, re_match rx_td_hms s = is_some (match_hms s) /\ re_match rx_td_days s = days_scan s.
Proof. exact timedelta_regexes_lemma. Qed.
Print Assumptions C20_timedelta_regexes.

Theorem C20_secret_never_dumped : forall secret, secret_serializer secret = s_stars.
Proof. exact secret_never_dumped_lemma. Qed.
Print Assumptions C20_secret_never_dumped.

(* The registry of jsonargparse/typing.py (module-level register_type calls, regenerated into
   Gen/C20Registry.v on every run) binds range, timedelta, SecretStr, bytes, bytearray, complex, UUID and
   the pathlib classes to the serializer/deserializer pairs the models stand for, and Decimal to one of the
   two modelled registrations. *)
Theorem C20_registry : registry_ok registry = true /\ decimal_registration registry <> None.
Proof. vm_compute. split; [reflexivity | discriminate]. Qed.
Print Assumptions C20_registry.

(* FINDING (known_findings/C20.txt key=decimal-via-float): registered with serializer float (RegFloat), the
   statement "forall d, the config-file round trip of d is lossless" is false of the faithful model: no
   binary double equals 1/10, so whatever float() and repr() return for Decimal('0.1') the value read back
   differs. *)
Theorem C20_decimal_via_float_refuted :
  exists d, forall to_double to_text, decimal_file_equal to_double to_text RegFloat d = false.
Proof. exact decimal_via_float_refuted_lemma. Qed.
Print Assumptions C20_decimal_via_float_refuted.

(* The repaired registration (fixes/C20-decimal-via-float.patch, RegHybrid): EVERY finite decimal comes back
   equal from the config file and from the command line, whatever float() and repr() return. *)
Theorem C20_decimal_hybrid_roundtrip :
  forall to_double to_text d,
    decimal_file_equal to_double to_text RegHybrid d = true /\ decimal_argv_equal to_double to_text RegHybrid d = true.
Proof. exact decimal_hybrid_roundtrip_lemma. Qed.
Print Assumptions C20_decimal_hybrid_roundtrip.

(* Whichever registration the source has: inside the guard the judge uses (dec_class = 0: under RegHybrid every
   decimal; under RegFloat the decimals that are binary doubles with at most 15 digits, on which float() and
   repr() are assumed exact — float_faithful, an assumption about IEEE doubles exercised per case by the
   correspondence) both channels are lossless. *)
Theorem C20_decimal_guarded_roundtrip :
  forall reg to_double to_text d, float_faithful to_double to_text -> dec_class (Some reg) d = 0%N ->
    decimal_file_equal to_double to_text reg d = true /\ decimal_argv_equal to_double to_text reg d = true.
Proof. exact decimal_guarded_roundtrip_lemma. Qed.
Print Assumptions C20_decimal_guarded_roundtrip.

(* hypotheses are satisfiable *)
Example C20_valid_type_example :
  valid_type {| r_base := BFloat; r_restr := [(s_ge, NI 0); (s_le, NI 1)]; r_join := JAnd |} = true
  /\ construct {| r_base := BFloat; r_restr := [(s_ge, NI 0); (s_le, NI 1)]; r_join := JAnd |}
       (PStr [48; 46; 53]%N) = Some (NF (FFin 500000)).
Proof. vm_compute. split; reflexivity. Qed.

Example C20_td_valid_example :
  td_valid (-1) = true /\ td_str (-1) = [45; 49; 32; 100; 97; 121; 44; 32; 50; 51; 58; 53; 57; 58; 53; 57; 46; 57; 57; 57; 57; 57; 57]%N.
Proof. vm_compute. split; reflexivity. Qed.

Example C20_dec_guard_example :
  dec_guard {| d_mant := 375; d_exp := -3 |} = true /\ dec_guard {| d_mant := 1; d_exp := -1 |} = false
  /\ dec_class (Some RegHybrid) {| d_mant := 1; d_exp := -1 |} = 0%N.
Proof. vm_compute. repeat split; reflexivity. Qed.

Example C20_float_faithful_example : float_faithful dy_of_dec (fun d => Some d).
Proof. exact float_faithful_witness. Qed.

Example C20_str_key_guard_example :
  let compile := fun (_ _ : str) => {| p_body := RCls [(97, 97)]%N false; p_end := true; p_multi := false |} in
  str_key_guard compile false [] [94; 97; 36]%N [] = true /\ reg_wf compile []
  /\ fst (create_str compile false [] [84]%N [94; 97; 36]%N []) = Some (compile [] []).
Proof. vm_compute. repeat split; try reflexivity. intros k n p []. Qed.
